/-! A small imperative language: the target of the kernel translator (`tools/cxx2imp.py`).
Unsigned machine arithmetic: every arithmetic node carries the width class it is computed at
(`T` = the template's scalar type, `wT` bits; `S` = `std::size_t`, 64 bits). -/
namespace Covfie.Imp

inductive Wd | T | S
  deriving DecidableEq, Repr

inductive BinOp
  | add | sub | mul | div | mod | band | bor | bxor | shl | shr
  | lt | le | gt | ge | eq | ne | land | lor
  deriving DecidableEq, Repr

inductive Expr
  | lit (n : Nat)
  | var (i : Nat)
  | idx (a : Nat) (e : Expr)
  | bin (op : BinOp) (wd : Wd) (l r : Expr)
  | lnot (e : Expr)
  | cast (wd : Wd) (e : Expr)
  deriving DecidableEq, Repr

inductive Stmt
  | skip
  | assign (i : Nat) (wd : Wd) (e : Expr)
  | seq (a b : Stmt)
  | ite (c : Expr) (t e : Stmt)
  | while (c : Expr) (b : Stmt)
  deriving DecidableEq, Repr

structure Env where
  sc : List Nat
  ar : List (List Nat)
  deriving DecidableEq, Repr

def bits (wT : Nat) : Wd → Nat
  | .T => wT
  | .S => 64

def b2n (b : Bool) : Nat := if b then 1 else 0

/-- one machine operation at modulus `m = 2^bits` (operands already reduced) -/
def evalBin (m : Nat) : BinOp → Nat → Nat → Nat
  | .add, a, b => (a + b) % m
  | .sub, a, b => (a + (m - b % m)) % m
  | .mul, a, b => (a * b) % m
  | .div, a, b => a / b
  | .mod, a, b => a % b
  | .band, a, b => a &&& b
  | .bor, a, b => (a ||| b) % m
  | .bxor, a, b => (a ^^^ b) % m
  | .shl, a, b => (a <<< b) % m
  | .shr, a, b => a >>> b
  | .lt, a, b => b2n (a < b)
  | .le, a, b => b2n (a ≤ b)
  | .gt, a, b => b2n (a > b)
  | .ge, a, b => b2n (a ≥ b)
  | .eq, a, b => b2n (a = b)
  | .ne, a, b => b2n (a ≠ b)
  | .land, a, b => b2n (a ≠ 0 ∧ b ≠ 0)
  | .lor, a, b => b2n (a ≠ 0 ∨ b ≠ 0)

def eval (wT : Nat) (env : Env) : Expr → Nat
  | .lit n => n
  | .var i => env.sc.getD i 0
  | .idx a e => (env.ar.getD a []).getD (eval wT env e) 0
  | .bin op wd l r => evalBin (2 ^ bits wT wd) op (eval wT env l) (eval wT env r)
  | .lnot e => b2n (eval wT env e = 0)
  | .cast wd e => eval wT env e % 2 ^ bits wT wd

def Env.set (env : Env) (i v : Nat) : Env := { env with sc := env.sc.set i v }

def whileLoop (cond : Env → Bool) (body : Env → Option Env) : Nat → Env → Option Env
  | 0, _ => none
  | f+1, env => if cond env then (body env).bind (whileLoop cond body f) else some env

/-- big-step execution; every `while` may run at most `fuel` iterations (`none` = out of fuel) -/
def exec (wT fuel : Nat) : Stmt → Env → Option Env
  | .skip, env => some env
  | .assign i wd e, env => some (env.set i (eval wT env e % 2 ^ bits wT wd))
  | .seq a b, env => (exec wT fuel a env).bind (exec wT fuel b)
  | .ite c t e, env => if eval wT env c ≠ 0 then exec wT fuel t env else exec wT fuel e env
  | .while c b, env => whileLoop (fun env => eval wT env c ≠ 0) (exec wT fuel b) fuel env

end Covfie.Imp

namespace Covfie.Imp
/-! ### Canonical text of a program (the format `harness/cxx2imp.py` prints), and a reader for it -/

def Wd.name : Wd → String
  | .T => "T"
  | .S => "S"

def BinOp.name : BinOp → String
  | .add => "add" | .sub => "sub" | .mul => "mul" | .div => "div" | .mod => "mod" | .band => "band" | .bor => "bor"
  | .bxor => "bxor" | .shl => "shl" | .shr => "shr" | .lt => "lt" | .le => "le" | .gt => "gt" | .ge => "ge"
  | .eq => "eq" | .ne => "ne" | .land => "land" | .lor => "lor"

def Expr.toSexp : Expr → String
  | .lit n => s!"(lit {n})"
  | .var i => s!"(var {i})"
  | .idx a e => s!"(idx {a} {e.toSexp})"
  | .bin op wd l r => s!"(bin {op.name} {wd.name} {l.toSexp} {r.toSexp})"
  | .lnot e => s!"(lnot {e.toSexp})"
  | .cast wd e => s!"(cast {wd.name} {e.toSexp})"

def Stmt.toSexp : Stmt → String
  | .skip => "skip"
  | .assign i wd e => s!"(assign {i} {wd.name} {e.toSexp})"
  | .seq a b => s!"(seq {a.toSexp} {b.toSexp})"
  | .ite c t e => s!"(ite {c.toSexp} {t.toSexp} {e.toSexp})"
  | .while c b => s!"(while {c.toSexp} {b.toSexp})"

/-- generic s-expressions -/
inductive SX
  | atom (s : String)
  | list (xs : List SX)
  deriving Repr, Inhabited

def tokens (s : String) : List String :=
  let step := fun (acc : List String × String) (ch : Char) =>
    let (out, cur) := acc
    let flush := if cur.isEmpty then out else cur :: out
    if ch = '(' then ("(" :: flush, "")
    else if ch = ')' then (")" :: flush, "")
    else if ch = ' ' || ch = '\n' || ch = '\t' then (flush, "")
    else (out, cur.push ch)
  let (out, cur) := s.toList.foldl step ([], "")
  (if cur.isEmpty then out else cur :: out).reverse

/-- parses one s-expression from the token list; `stack` holds the open lists, innermost first -/
def parseSX : Nat → List String → List (List SX) → Option SX
  | 0, _, _ => none
  | _, [], _ => none
  | f+1, t :: ts, stack =>
    if t = "(" then parseSX f ts ([] :: stack)
    else
      let done? : Option (SX × List (List SX)) :=
        if t = ")" then
          match stack with
          | top :: rest => some (.list top.reverse, rest)
          | [] => none
        else some (.atom t, stack)
      match done? with
      | none => none
      | some (x, []) => if ts.isEmpty then some x else none
      | some (x, top :: rest) => parseSX f ts ((x :: top) :: rest)

def wdOf : String → Option Wd
  | "T" => some .T
  | "S" => some .S
  | _ => none

def binOf (s : String) : Option BinOp :=
  [BinOp.add, .sub, .mul, .div, .mod, .band, .bor, .bxor, .shl, .shr, .lt, .le, .gt, .ge, .eq, .ne, .land, .lor].find? (·.name = s)

def exprOf : Nat → SX → Option Expr
  | 0, _ => none
  | f+1, .list [.atom "lit", .atom n] => n.toNat?.map .lit
  | f+1, .list [.atom "var", .atom n] => n.toNat?.map .var
  | f+1, .list [.atom "idx", .atom a, e] => do some (.idx (← a.toNat?) (← exprOf f e))
  | f+1, .list [.atom "bin", .atom op, .atom wd, l, r] => do
      some (.bin (← binOf op) (← wdOf wd) (← exprOf f l) (← exprOf f r))
  | f+1, .list [.atom "lnot", e] => do some (.lnot (← exprOf f e))
  | f+1, .list [.atom "cast", .atom wd, e] => do some (.cast (← wdOf wd) (← exprOf f e))
  | _, _ => none

def stmtOf : Nat → SX → Option Stmt
  | 0, _ => none
  | _+1, .atom "skip" => some .skip
  | f+1, .list [.atom "assign", .atom i, .atom wd, e] => do some (.assign (← i.toNat?) (← wdOf wd) (← exprOf f e))
  | f+1, .list [.atom "seq", a, b] => do some (.seq (← stmtOf f a) (← stmtOf f b))
  | f+1, .list [.atom "ite", c, t, e] => do some (.ite (← exprOf f c) (← stmtOf f t) (← stmtOf f e))
  | f+1, .list [.atom "while", c, b] => do some (.while (← exprOf f c) (← stmtOf f b))
  | _, _ => none

def Stmt.ofSexp (s : String) : Option Stmt :=
  let ts := tokens s
  (parseSX (ts.length + 1) ts []).bind (stmtOf (ts.length + 1))

end Covfie.Imp

namespace Covfie.Imp
/-- The context the translated kernels are read in (recognised by `harness/cxx2ctx.py`): `c[j]` / `c.at(j)` on a
`covfie::array::array` is element `j` of its data, `m(i, j)` on an `algebra::matrix` is entry `(i, j)`, `v(i)` on an
`algebra::vector` is entry `(i, 0)`, `nd_size<N>` is an array of `N` `std::size_t`. The semantics `eval (.idx a e)` and
`RImp.reval (.get a ix)` rest on exactly this. -/
def contextSexp : String :=
  "(context array-at-mut array-at-const array-index-mut array-index-const array-data matrix-elem-const matrix-elem-mut matrix-data vector-elem-const vector-elem-mut nd-size)"
/-- The BMI2 path of `morton::calculate_index` is a template metaprogram; `harness/cxx2ctx.py` recognises it sentence by sentence:
the mask of coordinate `I` has the bits `J < 8·sizeof(Ox)` with `J mod N = 0`, shifted left by `I` (model: `Covfie.mortonMask N I`);
the index is the OR over the `N` coordinates of `_pdep_u64(c[I], mask_I)` (model: `Covfie.mortonPdep`), selected iff the build has
BMI2 and `use_bmi2` is true. `Covfie.C14.morton_bmi2_eq_portable` proves that model equal to the portable loop, whose text *is*
translated; `_pdep_u64` itself is hardware (trusted, exercised). -/
def pdepSexp : String :=
  "(pdep shiftl mask-bits-J-mod-N mask-over-all-bits-shifted-by-I or-of-pdep over-N-coordinates selected-iff-bmi2)"
end Covfie.Imp
