import CovfieModel.Model.Scalar
/-! N-linear interpolation: specification and the weighted sums of `linear.hpp`. -/
namespace Covfie

/-- spec: recursive N-linear interpolant; head of the list is axis 0 -/
def nlin {α : Type} [Add α] [Mul α] [Sub α] [OfNat α 1] : List α → (List Bool → α) → α
  | [], v => v []
  | a :: as, v => (1 - a) * nlin as (fun bs => v (false :: bs)) + a * nlin as (fun bs => v (true :: bs))

def rabs (q : Rat) : Rat := if q < 0 then -q else q

/-- Σ |w_n v_n| (for the forward error bound) -/
def nlinAbs : List Rat → (List Bool → Rat) → Rat
  | [], v => rabs (v [])
  | a :: as, v => rabs (1 - a) * nlinAbs as (fun bs => v (false :: bs)) + rabs a * nlinAbs as (fun bs => v (true :: bs))

end Covfie

namespace Covfie
/-! ### Code-shaped sums of `linear.hpp` -/

/-- neighbour selector: bits of `n`, least significant first (generic branch: bit m ↔ axis m) -/
def bitsOf : Nat → Nat → List Bool
  | 0, _ => []
  | N+1, n => (n % 2 == 1) :: bitsOf N (n / 2)

/-- generic branch: `f = Π_m (n & (1<<m) ? vs[m] : rs[m])` -/
def weight {α : Type} [Mul α] [Sub α] [OfNat α 1] : List α → Nat → α
  | [], _ => 1
  | a :: as, n => (if n % 2 == 1 then a else 1 - a) * weight as (n / 2)

/-- generic branch: `rv = 0; for n < 2^N: rv += f_n * pc[n]` -/
def linGeneric {α : Type} [Add α] [Mul α] [Sub α] [OfNat α 1] [OfNat α 0] (as : List α) (v : List Bool → α) : α :=
  (List.range (2 ^ as.length)).foldl (fun acc n => acc + weight as n * v (bitsOf as.length n)) 0

/-- the same weight in the association order of the code: `f = 1; for m: f *= (n & (1<<m)) ? vs[m] : rs[m]` -/
def weightGo {α : Type} [Mul α] [Sub α] [OfNat α 1] : List α → Nat → α → α
  | [], _, f => f
  | a :: as, n, f => weightGo as (n / 2) (f * (if n % 2 == 1 then a else 1 - a))
def weightC {α : Type} [Mul α] [Sub α] [OfNat α 1] (as : List α) (n : Nat) : α := weightGo as n 1
/-- generic branch with the code's left-to-right weight product -/
def linGenericC {α : Type} [Add α] [Mul α] [Sub α] [OfNat α 1] [OfNat α 0] (as : List α) (v : List Bool → α) : α :=
  (List.range (2 ^ as.length)).foldl (fun acc n => acc + weightC as n * v (bitsOf as.length n)) 0

/-- 1-D branch -/
def lin1 {α : Type} [Add α] [Mul α] [Sub α] [OfNat α 1] (a : α) (v : List Bool → α) : α :=
  (1 - a) * v [false] + a * v [true]
/-- 2-D branch: `pc[n]` at `(i + (n&2), j + (n&1))` -/
def lin2 {α : Type} [Add α] [Mul α] [Sub α] [OfNat α 1] (a b : α) (v : List Bool → α) : α :=
  (1 - a) * (1 - b) * v [false, false] + (1 - a) * b * v [false, true] +
  a * (1 - b) * v [true, false] + a * b * v [true, true]
/-- 3-D branch: `pc[n]` at `(i + (n&4), j + (n&2), k + (n&1))` -/
def lin3 {α : Type} [Add α] [Mul α] [Sub α] [OfNat α 1] (a b c : α) (v : List Bool → α) : α :=
  (1 - a) * (1 - b) * (1 - c) * v [false, false, false] + (1 - a) * (1 - b) * c * v [false, false, true] +
  (1 - a) * b * (1 - c) * v [false, true, false] + (1 - a) * b * c * v [false, true, true] +
  a * (1 - b) * (1 - c) * v [true, false, false] + a * (1 - b) * c * v [true, false, true] +
  a * b * (1 - c) * v [true, true, false] + a * b * c * v [true, true, true]

/-- round half to even (`lrint` in the default rounding mode) -/
def nnRound (q : Rat) : Int :=
  let f := q.floor
  let d := q - (f : Rat)
  if d < 1/2 then f else if 1/2 < d then f + 1 else if f % 2 = 0 then f else f + 1

end Covfie
