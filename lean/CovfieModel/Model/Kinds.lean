/-! The kind system of covfie stacks: what each layer requires of, and provides on top of, the stack beneath.

Calibrated to the library's own statements (C13): a *declared* requirement is a `static_assert` of a layer or the
`requires(_size > 0)` of `covfie::array` — violating one makes the class template itself ill-formed, every API operation
is rejected; a *structural* requirement is one the lookup path needs in order to type-check (a wrapper indexes its
coordinate, so the coordinate must be a vector, …) — violating one leaves the type constructible but any lookup is
rejected.  Nothing else is required (e.g. `affine` accepts integer coordinates): where the library states nothing, the model
accepts, and the compile matrix checks that g++ agrees — except for a storage order over something that is not indexed
by a single natural number, which the documentation's kinds exclude and the code does not diagnose (`stated`). -/
namespace Covfie.Kinds

inductive SK | f32 | f64 | i32 | u32 | i64 | u64
  deriving DecidableEq, Repr
def SK.isFloat : SK → Bool | .f32 | .f64 => true | _ => false
def SK.bytes : SK → Nat | .f32 | .i32 | .u32 => 4 | _ => 8

/-- contravariant input (scalar kind, dimension, bare scalar vs `covfie::array`) and covariant output
    (scalar kind, dimension, reference vs value) -/
structure Kind where
  inSk : SK
  inDim : Nat
  inBare : Bool
  outSk : SK
  outDim : Nat
  outRef : Bool
  deriving DecidableEq, Repr

inductive KindErr
  -- declared (static_assert / requires-clause): the class template is ill-formed
  | zeroDimension | hilbertNeeds2D | interpNeedsFloatCoordinate | linearNeedsFloatValues | interpDimMismatch
  -- structural: the lookup path does not type-check
  | coordinateMustBeVector | shuffleArity | mortonNeedsIntegerCoordinate
  deriving DecidableEq, Repr

inductive Lay | strided | mortonT | mortonF | hilbert deriving DecidableEq, Repr
inductive Itp | nn | linear deriving DecidableEq, Repr

inductive KStack
  | array (outSk : SK) (outDim : Nat)
  | constant (inSk : SK) (inDim : Nat) (outSk : SK) (outDim : Nat)
  | identity (sk : SK) (dim : Nat)
  | layout (l : Lay) (inSk : SK) (inDim : Nat) (b : KStack)
  | clamp (b : KStack) | backup (b : KStack) | affine (b : KStack)
  | shuffle (perm : List Nat) (b : KStack)
  | cast (t : SK) (b : KStack) | deref (b : KStack)
  | interp (i : Itp) (inSk : SK) (inDim : Nat) (b : KStack)
  deriving DecidableEq, Repr

/-- the *declared* rule of one layer (its `static_assert`s and the non-empty-vector constraint), as a function of the
    kind of what lies beneath (and of nothing else) -/
def layerKind : (outer : KStack) → Kind → Except KindErr Kind
  | .layout l inSk inDim _, k =>
      if inDim = 0 then .error .zeroDimension
      else if l = .hilbert ∧ inDim ≠ 2 then .error .hilbertNeeds2D
      else .ok { k with inSk := inSk, inDim := inDim, inBare := false }
  | .backup _, k => .ok { k with outRef := false }
  | .cast t _, k => .ok { k with outSk := t, outRef := false }
  | .deref _, k => .ok { k with outRef := false }
  | .interp i inSk inDim _, k =>
      if inDim = 0 then .error .zeroDimension
      else if !inSk.isFloat then .error .interpNeedsFloatCoordinate
      else if i = .linear ∧ !k.outSk.isFloat then .error .linearNeedsFloatValues
      else if inDim ≠ k.inDim then .error .interpDimMismatch
      else .ok { k with inSk := inSk, inDim := inDim, inBare := false, outRef := (if i = .nn then k.outRef else false) }
  | _, k => .ok k     -- clamp, affine (integer coordinates are accepted by the code: no stated restriction), shuffle

/-- the *structural* rule of one layer: what its `at` needs from the coordinate it is given / hands down -/
def layerLookup : (outer : KStack) → Kind → Option KindErr
  | .layout l inSk _ _, _ =>
      if (l = .mortonT ∨ l = .mortonF) ∧ inSk.isFloat then some .mortonNeedsIntegerCoordinate else none
  | .clamp _, k | .backup _, k | .affine _, k => if k.inBare then some .coordinateMustBeVector else none
  | .shuffle p _, k => if k.inBare then some .coordinateMustBeVector
                        else if p.length ≠ k.inDim then some .shuffleArity else none
  | .interp .nn _ _ _, k => if k.inBare then some .coordinateMustBeVector else none
  | _, _ => none      -- cast, deref pass the coordinate through; linear over a bare index is the 1-D case

/-- one layer on top of an analysed stack: (declared kind or error, first structural error) -/
def step (outer : KStack) (r : Except KindErr Kind × Option KindErr) : Except KindErr Kind × Option KindErr :=
  match r.1 with
  | .error e => (.error e, r.2)
  | .ok k => (layerKind outer k, match r.2 with | some e => some e | none => layerLookup outer k)

def analyse : KStack → Except KindErr Kind × Option KindErr
  | .array outSk outDim => (if outDim = 0 then .error .zeroDimension else .ok ⟨.u64, 1, true, outSk, outDim, true⟩, none)
  | .constant a n b m => (if n = 0 ∨ m = 0 then .error .zeroDimension else .ok ⟨a, n, false, b, m, false⟩, none)
  | .identity sk n => (if n = 0 then .error .zeroDimension else .ok ⟨sk, n, false, sk, n, false⟩, none)
  | .layout l a n b => step (.layout l a n b) (analyse b)
  | .clamp b => step (.clamp b) (analyse b)
  | .backup b => step (.backup b) (analyse b)
  | .affine b => step (.affine b) (analyse b)
  | .shuffle p b => step (.shuffle p b) (analyse b)
  | .cast t b => step (.cast t b) (analyse b)
  | .deref b => step (.deref b) (analyse b)
  | .interp i a n b => step (.interp i a n b) (analyse b)

/-- declared kind: `.error` iff some layer's `static_assert` / constraint is violated -/
def kind (s : KStack) : Except KindErr Kind := (analyse s).1
/-- first structural error of the lookup path (meaningful when `kind s` is `.ok`) -/
def lookupErr (s : KStack) : Option KindErr := (analyse s).2

/-- a stack respects all stated kinds -/
def wellKinded (s : KStack) : Bool :=
  match kind s, lookupErr s with
  | .ok _, none => true
  | _, _ => false

/-- The documentation gives a storage order the kind `ℕⁿ → Id(ℕ)`: what lies beneath it takes a *single natural-number
    index* (memory, or anything indexed like memory).  The code states nothing of it (no `static_assert`), and whether a
    storage order over, say, a float-indexed interpolator compiles depends on the build (the BMI2 path of `morton` forms
    `std::integral_constant<float, …>`).  Such a stack neither respects the stated kinds nor violates a *stated* one: the
    property claims nothing for it (`stated s = false`), and the compile matrix leaves it out. -/
def stated : KStack → Bool
  | .array _ _ | .constant _ _ _ _ | .identity _ _ => true
  | .layout _ _ _ b =>
      stated b && (match kind b with
                   | .ok k => k.inDim == 1 && !k.inSk.isFloat
                   | .error _ => true)
  | .clamp b | .backup b | .affine b | .shuffle _ b | .cast _ b | .deref b | .interp _ _ _ b => stated b

/-- size in bytes of the non-owning data (x86-64 layout: members in order, each aligned, total rounded up) -/
def align (a n : Nat) : Nat := (n + a - 1) / a * a
def viewSize : KStack → Except KindErr (Nat × Nat)    -- (size, alignment)
  | .array _ _ => .ok (16, 8)                       -- u64 size + pointer
  | .constant _ _ b m => .ok (b.bytes * m, b.bytes)
  | .identity _ _ => .ok (1, 1)
  | .layout _ _ n b => match viewSize b with
      | .error e => .error e
      | .ok (s, a) => .ok (align (max 8 a) (align a (8 * n) + s), max 8 a)
  | .clamp b => match viewSize b, kind b with
      | .ok (s, a), .ok k => let c := k.inSk.bytes
                             .ok (align (max c a) (align a (2 * c * k.inDim) + s), max c a)
      | .error e, _ => .error e
      | _, .error e => .error e
  | .backup b => match viewSize b, kind b with
      | .ok (s, a), .ok k => let c := k.inSk.bytes; let o := k.outSk.bytes
                             let m := max (max c o) a
                             .ok (align m (align a (align o (2 * c * k.inDim) + o * k.outDim) + s), m)
      | .error e, _ => .error e
      | _, .error e => .error e
  | .affine b => match viewSize b, kind b with
      | .ok (s, a), .ok k => let c := k.inSk.bytes
                             .ok (align (max c a) (align a (c * k.inDim * (k.inDim + 1)) + s), max c a)
      | .error e, _ => .error e
      | _, .error e => .error e
  | .shuffle _ b => viewSize b
  | .cast _ b => viewSize b
  | .deref b => viewSize b
  | .interp _ _ _ b => viewSize b

/-- `field_view` asserts `sizeof(storage_t) <= 256` -/
def viewFits (s : KStack) : Bool := match viewSize s with | .ok (n, _) => n ≤ 256 | .error _ => false

/-- same coordinate type (what `affine`'s converting constructor compares: the matrix type) -/
def inputEq (b b' : KStack) : Bool :=
  match kind b, kind b' with
  | .ok k, .ok k' => k.inSk = k'.inSk ∧ k.inDim = k'.inDim
  | _, _ => false

/-- the converting constructors, layer by layer (mechanism): `dst::owning_data_t(const src::owning_data_t &)` type-checks.
    Storage orders over `array` rebuild the storage through `nd_map`, handing the source each index tuple cast to their
    own coordinate type, so source and target need the same coordinate type; `linear` / `nearest_neighbour` accept any
    source with an empty configuration and convert the layer beneath; `affine` needs the same matrix type. -/
def conv : KStack → KStack → Bool
  | .layout _ a n (.array _ _), .layout _ a' n' (.array _ _) => n = n' && a = a'
  | .interp _ _ _ b, .interp _ _ _ b' => b = b' || conv b b'
  | .affine b, .affine b' => inputEq b b' && (b = b' || conv b b')
  | _, _ => false
def convertible (dst src : KStack) : Bool := dst = src || conv dst src

/-- the property's "compatible composition": a different storage order and/or a different interpolation layer, the
    same geometry (dimension, coordinate type) and the same stored vectors -/
def compatible : KStack → KStack → Bool
  | .layout _ a n (.array s m), .layout _ a' n' (.array s' m') => a = a' && n = n' && s = s' && m = m'
  | .interp _ _ n b, .interp _ _ n' b' => n = n' && compatible b b'
  | .affine b, .affine b' => inputEq b b' && compatible b b'
  | _, _ => false

inductive ApiOp
  | concept | fromPack | view | at | copy | move | copyAssign | moveAssign | dump | load | viewTrivial
  | convertFrom (src : KStack)
  deriving DecidableEq, Repr

/-- does the translation unit exercising `op` on `field<s>` compile -/
def supports (s : KStack) (op : ApiOp) : Bool :=
  match kind s with
  | .error _ => false
  | .ok _ => match op with
    | .view => viewFits s
    | .at => viewFits s && (lookupErr s).isNone
    | .convertFrom src => wellKinded src && convertible s src
    | _ => true        -- `viewTrivial` asks about `non_owning_data_t`, not about `field_view`: no size limit

/-- operations the property claims for `s` -/
def applicable (s : KStack) : ApiOp → Bool
  | .convertFrom src => wellKinded src && compatible s src
  | _ => true

end Covfie.Kinds
