/-! The kind system of covfie stacks: what each layer requires of, and provides on top of, the stack beneath. -/
namespace Covfie.Kinds

inductive SK | f32 | f64 | i32 | u32 | i64 | u64
  deriving DecidableEq, Repr
def SK.isFloat : SK → Bool | .f32 | .f64 => true | _ => false
def SK.bytes : SK → Nat | .f32 | .i32 | .u32 => 4 | _ => 8

/-- contravariant input (scalar kind, dimension, bare scalar vs `covfie::array`) and covariant output
    (scalar kind, dimension, reference vs value) -/
structure Kind where
  inSk : SK
  inDim : Nat
  inBare : Bool
  outSk : SK
  outDim : Nat
  outRef : Bool
  deriving DecidableEq, Repr

inductive KindErr
  | storageOrderNeeds1DIntegerBackend | hilbertNeeds2D | coordinateMustBeVector
  | interpolatorNeedsIntegerBackend | linearNeedsFloatValues | zeroDimension | viewTooLarge | shuffleArity
  deriving DecidableEq, Repr

inductive Lay | strided | mortonT | mortonF | hilbert deriving DecidableEq, Repr
inductive Itp | nn | linear deriving DecidableEq, Repr

inductive KStack
  | array (outSk : SK) (outDim : Nat)
  | constant (inSk : SK) (inDim : Nat) (outSk : SK) (outDim : Nat)
  | identity (sk : SK) (dim : Nat)
  | layout (l : Lay) (inSk : SK) (inDim : Nat) (b : KStack)
  | clamp (b : KStack) | backup (b : KStack) | affine (b : KStack)
  | shuffle (perm : List Nat) (b : KStack)
  | cast (t : SK) (b : KStack) | deref (b : KStack)
  | interp (i : Itp) (inSk : SK) (b : KStack)

/-- the rule of one layer, as a function of the kind of what lies beneath (and of nothing else) -/
def layerKind : (outer : KStack) → Kind → Except KindErr Kind
  | .layout l inSk inDim _, k =>
      if k.inDim ≠ 1 ∨ k.inSk.isFloat ∨ inSk.isFloat then .error .storageOrderNeeds1DIntegerBackend
      else if l = .hilbert ∧ inDim ≠ 2 then .error .hilbertNeeds2D
      else if inDim = 0 then .error .zeroDimension
      else .ok { k with inSk := inSk, inDim := inDim, inBare := false }
  | .clamp _, k => if k.inBare then .error .coordinateMustBeVector else .ok k
  | .backup _, k => if k.inBare then .error .coordinateMustBeVector else .ok { k with outRef := false }
  | .affine _, k => if k.inBare then .error .coordinateMustBeVector else .ok k   -- integer coordinates are accepted by the code: no stated restriction
  | .shuffle p _, k => if k.inBare then .error .coordinateMustBeVector
                        else if p.length ≠ k.inDim then .error .shuffleArity else .ok k
  | .cast t _, k => .ok { k with outSk := t, outRef := false }
  | .deref _, k => .ok { k with outRef := false }
  | .interp i inSk _, k =>
      if k.inSk.isFloat ∨ k.inBare ∨ !inSk.isFloat then .error .interpolatorNeedsIntegerBackend
      else if i = .linear ∧ !k.outSk.isFloat then .error .linearNeedsFloatValues
      else .ok { k with inSk := inSk, outRef := (if i = .nn then k.outRef else false) }
  | _, k => .ok k

def kind : KStack → Except KindErr Kind
  | .array outSk outDim => if outDim = 0 then .error .zeroDimension else .ok ⟨.u64, 1, true, outSk, outDim, true⟩
  | .constant a n b m => if n = 0 ∨ m = 0 then .error .zeroDimension else .ok ⟨a, n, false, b, m, false⟩
  | .identity sk n => if n = 0 then .error .zeroDimension else .ok ⟨sk, n, false, sk, n, false⟩
  | .layout l a n b => match kind b with | .error e => .error e | .ok k => layerKind (.layout l a n b) k
  | .clamp b => match kind b with | .error e => .error e | .ok k => layerKind (.clamp b) k
  | .backup b => match kind b with | .error e => .error e | .ok k => layerKind (.backup b) k
  | .affine b => match kind b with | .error e => .error e | .ok k => layerKind (.affine b) k
  | .shuffle p b => match kind b with | .error e => .error e | .ok k => layerKind (.shuffle p b) k
  | .cast t b => match kind b with | .error e => .error e | .ok k => layerKind (.cast t b) k
  | .deref b => match kind b with | .error e => .error e | .ok k => layerKind (.deref b) k
  | .interp i a b => match kind b with | .error e => .error e | .ok k => layerKind (.interp i a b) k

/-- size in bytes of the non-owning data (x86-64 layout: members in order, each aligned, total rounded up) -/
def align (a n : Nat) : Nat := (n + a - 1) / a * a
def viewSize : KStack → Except KindErr (Nat × Nat)    -- (size, alignment)
  | .array _ _ => .ok (16, 8)                       -- u64 size + pointer
  | .constant _ _ b m => .ok (b.bytes * m, b.bytes)
  | .identity _ _ => .ok (1, 1)
  | .layout _ _ n b => match viewSize b with
      | .error e => .error e
      | .ok (s, a) => .ok (align (max 8 a) (align a (8 * n) + s), max 8 a)
  | .clamp b => match viewSize b, kind b with
      | .ok (s, a), .ok k => let c := k.inSk.bytes
                             .ok (align (max c a) (align a (2 * c * k.inDim) + s), max c a)
      | .error e, _ => .error e
      | _, .error e => .error e
  | .backup b => match viewSize b, kind b with
      | .ok (s, a), .ok k => let c := k.inSk.bytes; let o := k.outSk.bytes
                             let m := max (max c o) a
                             .ok (align m (align a (align o (2 * c * k.inDim) + o * k.outDim) + s), m)
      | .error e, _ => .error e
      | _, .error e => .error e
  | .affine b => match viewSize b, kind b with
      | .ok (s, a), .ok k => let c := k.inSk.bytes
                             .ok (align (max c a) (align a (c * k.inDim * (k.inDim + 1)) + s), max c a)
      | .error e, _ => .error e
      | _, .error e => .error e
  | .shuffle _ b => viewSize b
  | .cast _ b => viewSize b
  | .deref b => viewSize b
  | .interp _ _ b => viewSize b

/-- `field_view` asserts `sizeof(storage_t) <= 256` -/
def viewFits (s : KStack) : Bool := match viewSize s with | .ok (n, _) => n ≤ 256 | .error _ => false

inductive ApiOp | concept | fromPack | view | at | copy | move | copyAssign | moveAssign | dump | load | viewTrivial
  deriving DecidableEq, Repr

/-- a stack supports an API operation iff it is well-kinded (and, for anything that needs a view, the view fits) -/
def supports (s : KStack) (op : ApiOp) : Bool :=
  match kind s with
  | .error _ => false
  | .ok _ => match op with
    | .view | .at | .viewTrivial => viewFits s
    | _ => true

end Covfie.Kinds
