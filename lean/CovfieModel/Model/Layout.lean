import CovfieModel.Model.Numeric
/-! Code-shaped models of the storage-order index functions. Coordinates and extents are lists. -/
namespace Covfie

def prod : List Nat → Nat
  | [] => 1
  | s :: ss => s * prod ss

/-- specification: Σ_k c_k · Π_{l>k} s_l -/
def stridedIdx : List Nat → List Nat → Nat
  | _ :: ss, c :: cs => c * prod ss + stridedIdx ss cs
  | _, _ => 0

/-- inner loop `tmp *= (scalar_t) sizes[l]` for l > k, at width w -/
def stridedTmpW (w : Nat) (tmp : Nat) : List Nat → Nat
  | [] => tmp
  | s :: ss => stridedTmpW w ((tmp * (s % 2^w)) % 2^w) ss

/-- `strided::non_owning_data_t::at`: idx accumulated in the coordinate scalar type (width w) -/
def stridedIdxW (w : Nat) : List Nat → List Nat → Nat
  | _ :: ss, c :: cs => (stridedTmpW w (c % 2^w) ss + stridedIdxW w ss cs) % 2^w
  | _, _ => 0

/-- portable Morton loop, inner `for j` -/
def mInner (N i : Nat) (c : Nat → Nat) : Nat → Nat
  | 0 => 0
  | j+1 => mInner N i c j ||| ((c j &&& (1 <<< i)) <<< (i*(N-1)+j))

/-- portable Morton loop, outer `for i < 64 / N` -/
def mOuter (N : Nat) (c : Nat → Nat) : Nat → Nat
  | 0 => 0
  | i+1 => mOuter N c i ||| mInner N i c N

def mortonLoop (c : List Nat) : Nat :=
  mOuter c.length (fun j => c.getD j 0) (64 / c.length) % 2^64

/-- Intel PDEP on 64-bit words -/
def pdepAux (src mask : Nat) : Nat → Nat → Nat → Nat
  | 0, _, _ => 0
  | f+1, pos, k =>
    if mask.testBit pos then
      (if src.testBit k then 2^pos else 0) ||| pdepAux src mask f (pos+1) (k+1)
    else pdepAux src mask f (pos+1) k
def pdep (src mask : Nat) : Nat := pdepAux src mask 64 0 0

/-- `get_mask<I>`: bits J < 64 with J % N = 0, shifted left by I, truncated to 64 bits -/
def mortonMask (N I : Nat) : Nat :=
  (((List.range 64).filter (· % N = 0)).foldl (fun acc j => acc ||| 2^j) 0 <<< I) % 2^64

def mortonPdep (c : List Nat) : Nat :=
  (List.range c.length).foldl (fun acc i => acc ||| pdep (c.getD i 0 % 2^64) (mortonMask c.length i)) 0

/-- `hilbert::rot` -/
def rot (n x y rx ry : Nat) : Nat × Nat :=
  if ry = 0 then (if rx = 1 then (n - 1 - y, n - 1 - x) else (y, x)) else (x, y)

/-- `for (s = n/2; s > 0; s /= 2) {...}` -/
def hilLoop (n : Nat) : Nat → Nat → Nat → Nat → Nat → Nat
  | 0, _, _, _, d => d
  | fuel+1, s, x, y, d =>
    if s = 0 then d else
      let rx := if x &&& s > 0 then 1 else 0
      let ry := if y &&& s > 0 then 1 else 0
      let p := rot n x y rx ry
      hilLoop n fuel (s / 2) p.1 p.2 (d + s*s*((3*rx) ^^^ ry))

/-- smallest power of two ≥ both extents (the `while (n < sizes[0] || n < sizes[1]) n *= 2` of the repaired code) -/
def hilN (sx sy : Nat) : Nat := (roundPow2 64 (max sx sy)).getD 0

def hilbertIdx (sizes c : List Nat) : Nat :=
  hilLoop (hilN (sizes.getD 0 0) (sizes.getD 1 0)) 65 (hilN (sizes.getD 0 0) (sizes.getD 1 0) / 2) (c.getD 0 0) (c.getD 1 0) 0

/-- allocation size used by the conversion constructors -/
def curveLen (sizes : List Nat) : Nat :=
  ipow 64 ((roundPow2 64 (sizes.foldl max 0)).getD 0) sizes.length

end Covfie

namespace Covfie
/-! ### Specification-shaped definitions -/

/-- one level of the Hilbert recursion acting on the low bits -/
def tr (s rx ry xl yl : Nat) : Nat × Nat :=
  if ry = 0 then (if rx = 1 then (s-1-yl, s-1-xl) else (yl, xl)) else (xl, yl)
def quad (rx ry : Nat) : Nat := (3*rx) ^^^ ry
/-- recursive Hilbert curve of order `l` on `[0,2^l)²` -/
def hilR : Nat → Nat → Nat → Nat
  | 0, _, _ => 0
  | l+1, x, y =>
    let s := 2^l
    let rx := x / s % 2
    let ry := y / s % 2
    let p := tr s rx ry (x % s) (y % s)
    s*s*(quad rx ry) + hilR l p.1 p.2

/-- edge adjacency of two cells -/
def adj (x y x' y' : Nat) : Prop :=
  (x = x' ∧ (y + 1 = y' ∨ y' + 1 = y)) ∨ (y = y' ∧ (x + 1 = x' ∨ x' + 1 = x))

/-- bit `p` of the Morton mask of coordinate `I` in `N` dimensions -/
def maskBit (N I p : Nat) : Bool := decide (p < 64 ∧ I ≤ p ∧ (p - I) % N = 0)
end Covfie
