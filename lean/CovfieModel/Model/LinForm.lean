/-! The formula language of the kernel translator for the specialised branches of `linear.hpp` (`harness/cxx2lin.py`):
a sum of products of per-axis fractions / complements and corner values. -/
namespace Covfie.Lin

inductive WExpr
  | w (axis : Nat) (compl : Bool)     -- the fraction of an axis, or one minus it
  | pc (n : Nat)                      -- the value fetched for corner n
  | add (l r : WExpr)
  | mul (l r : WExpr)
  deriving DecidableEq, Repr

structure Prog where
  dims : Nat
  masks : List Nat                    -- axis k of corner n is offset by one iff `n & masks[k]` is not zero
  sum : WExpr
  deriving DecidableEq, Repr

/-- which axes of corner `n` are offset by one, axis 0 first -/
def corner (masks : List Nat) (n : Nat) : List Bool := masks.map (fun m => n &&& m != 0)

def evalW {α : Type} [Add α] [Mul α] [Sub α] [OfNat α 1] (as : List α) (masks : List Nat) (v : List Bool → α) : WExpr → α
  | .w k false => as.getD k 1
  | .w k true => 1 - as.getD k 1
  | .pc n => v (corner masks n)
  | .add l r => evalW as masks v l + evalW as masks v r
  | .mul l r => evalW as masks v l * evalW as masks v r

def Prog.eval {α : Type} [Add α] [Mul α] [Sub α] [OfNat α 1] (p : Prog) (as : List α) (v : List Bool → α) : α :=
  evalW as p.masks v p.sum

def WExpr.toSexp : WExpr → String
  | .w k c => s!"(w {k} {if c then 1 else 0})"
  | .pc n => s!"(pc {n})"
  | .add l r => s!"(add {l.toSexp} {r.toSexp})"
  | .mul l r => s!"(mul {l.toSexp} {r.toSexp})"

def Prog.toSexp (p : Prog) : String :=
  s!"(lin {p.dims} (masks {" ".intercalate (p.masks.map toString)}) (sum {p.sum.toSexp}))"

end Covfie.Lin
