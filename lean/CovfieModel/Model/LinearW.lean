import CovfieModel.Model.Stack
/-! Width-faithful version of the linear interpolator's index arithmetic (`linear.hpp`): the integer part is obtained by a
    float → index conversion that is only defined below `2^w` (`w` = width of the backend's index scalar), and the `+1`
    neighbour is computed in that `w`-bit type, so it wraps. `linearL` (Model/Stack.lean) is the idealised version; the two
    agree whenever every integer part satisfies `i + 1 < 2^w` (Props/C03Width.lean), and differ exactly on the recorded
    findings F13 (conversion out of range) and F15 (neighbour wrap). -/
namespace Covfie

/-- integer part by truncation into a `w`-bit unsigned index; out of range (or negative, or non-finite) is undefined behaviour -/
def truncIdxW (w : Nat) (x : Num) : Except UB (Nat × Rat) :=
  match x with
  | .fin q => if 0 ≤ q ∧ q.floor.toNat < 2^w then .ok (q.floor.toNat, q - (q.floor : Rat)) else .error .floatToInt
  | _ => .error .floatToInt

/-- the neighbour coordinates `i + bit`, computed in the `w`-bit index type -/
def addBitsW (w : Nat) (is : List Nat) (bs : List Bool) : List Num :=
  List.zipWith (fun i b => .fin (((i + (if b then 1 else 0)) % 2^w : Nat) : Rat)) is bs

def cornerQueryW (w : Nat) (bk : Backend) (is : List Nat) (bs : List Bool) : Except UB (List Bool × (List Num × List Nat)) :=
  match bk (addBitsW w is bs) with
  | .error e => .error e
  | .ok r => .ok (bs, r)

/-- `linear<B>::at` with a `w`-bit index scalar -/
def linearLW (w : Nat) (bk : Backend) : Backend := fun c =>
  match mapE (truncIdxW w) c with
  | .error e => .error e
  | .ok parts =>
    let is := parts.map (·.1)
    let fr := parts.map (·.2)
    match mapE (cornerQueryW w bk is) (corners c.length) with
    | .error e => .error e
    | .ok rs =>
      let M := (rs.head?.map (·.2.1.length)).getD 0
      let valueAt (q : Nat) (bs : List Bool) : Rat :=
        match rs.lookup bs with
        | some (v, _) => (finOf (v.getD q .nan)).getD 0
        | none => 0
      .ok ((List.range M).map (fun q => .fin (nlin fr (valueAt q))), rs.flatMap (·.2.2))

end Covfie
