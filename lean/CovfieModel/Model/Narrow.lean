import CovfieModel.Model.IO
/-! Precision conversion of stored scalars on bit patterns (core only): `narrowBits : binary64 → binary32`
    (round to nearest, ties to even, built on the significand/exponent rounding `narrowME`), `widenBits : binary32 → binary64`
    (exact), and `convDat`, what loading a file of one float width into a field type of the other width does to the
    parsed content (`array::read_binary`: `static_cast<scalar_t>` per stored scalar). -/
namespace Covfie.C07

/-- round-half-even of `M / 2^sh` -/
def rshift (M sh : Nat) : Nat :=
  let q := M / 2^sh
  let r := M % 2^sh
  let half := 2^sh / 2
  if sh = 0 then M
  else if r < half then q
  else if r > half then q + 1
  else if q % 2 = 0 then q else q + 1

/-- finite double `M · 2^E` (M < 2^53, E ≥ −1074) narrowed to float: drop `sh` low bits so that at most 24 significant
    bits remain and the exponent does not fall below the float subnormal quantum 2^−149 -/
def narrowME (M : Nat) (E : Int) : Nat × Int :=
  let len := Nat.log2 M + 1
  let sh : Nat := max (len - 24) ((-149 - E).toNat)
  (rshift M sh, E + sh)

/-- integer significand and exponent of a finite binary64 pattern: value = `M · 2^E` -/
def dec64 (b : Nat) : Nat × Int :=
  let e : Nat := b / 2^52 % 2^11
  let m : Nat := b % 2^52
  if e = 0 then (m, -1074) else (2^52 + m, (e : Int) - 1075)

/-- integer significand and exponent of a finite binary32 pattern -/
def dec32 (b : Nat) : Nat × Int :=
  let e : Nat := b / 2^23 % 2^8
  let m : Nat := b % 2^23
  if e = 0 then (m, -149) else (2^23 + m, (e : Int) - 150)

/-- pack a rounded magnitude `M' · 2^E'` (`E' ≥ −149`; `M' < 2^23` only when `E' = −149`; `M' ≤ 2^24`) into binary32
    exponent+mantissa bits: a carry out of the significand (`M' = 2^24`) lands in the exponent field, a subnormal result has
    exponent field 0, anything at or beyond 2^128 becomes infinity -/
def pack32 (M' : Nat) (E' : Int) : Nat :=
  let mag := (E' + 149).toNat * 2^23 + M'
  if mag ≥ 0x7f800000 then 0x7f800000 else mag

/-- `static_cast<float>(double)` on bit patterns (IEEE round-to-nearest-even; NaN: quieted, top 22 payload bits kept) -/
def narrowBits (b : Nat) : Nat :=
  let sgn := (b / 2^63 % 2) * 2^31
  let e := b / 2^52 % 2^11
  let m := b % 2^52
  if e = 2047 then
    if m = 0 then sgn + 0x7f800000 else sgn + 0x7f800000 + ((m / 2^29) ||| 2^22)
  else
    let d := dec64 b
    if d.1 = 0 then sgn
    else
      let r := narrowME d.1 d.2
      sgn + pack32 r.1 r.2

/-- `static_cast<double>(float)` on bit patterns (exact; NaN: quieted, payload kept in the top bits) -/
def widenBits (b : Nat) : Nat :=
  let sgn := (b / 2^31 % 2) * 2^63
  let e := b / 2^23 % 2^8
  let m := b % 2^23
  if e = 255 then
    if m = 0 then sgn + 0x7ff0000000000000 else sgn + 0x7ff0000000000000 + ((m ||| 2^22) * 2^29)
  else if e = 0 then
    if m = 0 then sgn
    else
      let len := Nat.log2 m + 1
      sgn + (len + 873) * 2^52 + (m * 2^(53 - len) - 2^52)
  else sgn + (e + 896) * 2^52 + m * 2^29

end Covfie.C07

namespace Covfie.IO

/-- the scalars of a file of width `wd` as they end up in a field whose storage scalar is `w` bytes wide -/
def convCell (wd w : Nat) (x : Nat) : Nat :=
  if wd = w then x else if wd = 4 ∧ w = 8 then C07.widenBits x else if wd = 8 ∧ w = 4 then C07.narrowBits x else x

/-- loaded content as held by a field type whose stored scalars are `w` bytes wide -/
def convDat (w : Nat) : Dat → Dat
  | .array wd count cells => .array w count (cells.map (convCell wd w))
  | .constant v => .constant v
  | .identity => .identity
  | .sized cfg d => .sized cfg (convDat w d)
  | .clamp lo hi d => .clamp lo hi (convDat w d)
  | .backup lo hi df d => .backup lo hi df (convDat w d)
  | .affine m d => .affine m (convDat w d)
  | .thin d => .thin (convDat w d)

end Covfie.IO
