/-! Model of `covfie/core/utility/nd_map.hpp`: the list of index tuples handed to the callback, in call order. -/
namespace Covfie

/-- `nd_map`: peel the first extent, prepend the index to every tuple of the tail recursion. -/
def ndMap : List Nat → List (List Nat)
  | [] => [[]]
  | n :: ns => (List.range n).flatMap (fun i => (ndMap ns).map (i :: ·))

/-- `c` is a coordinate of the box with extents `sz` (same length, component-wise below). -/
def InBox : List Nat → List Nat → Prop
  | [], [] => True
  | s :: ss, c :: cs => c < s ∧ InBox ss cs
  | _, _ => False

def InBox.dec : (sz c : List Nat) → Decidable (InBox sz c)
  | [], [] => isTrue trivial
  | s :: ss, c :: cs =>
      match Nat.decLt c s, InBox.dec ss cs with
      | isTrue h1, isTrue h2 => isTrue ⟨h1, h2⟩
      | isFalse h1, _ => isFalse (fun h => h1 h.1)
      | _, isFalse h2 => isFalse (fun h => h2 h.2)
  | [], _ :: _ => isFalse (by simp [InBox])
  | _ :: _, [] => isFalse (by simp [InBox])

instance (sz c : List Nat) : Decidable (InBox sz c) := InBox.dec sz c

end Covfie
