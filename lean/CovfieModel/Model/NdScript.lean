import CovfieModel.Model.NdMap
/-! `utility/nd_map.hpp` read as equations (`harness/cxx2tmpl.py`, `translate_ndmap`, recognises each declaration and each branch). -/
namespace Covfie.Nd

inductive Eqn
  | tailImpl   -- tail_impl(index_sequence<Ns...>, t) = {t.at(Ns + 1)...}, Ns = 0 .. N-2
  | tail       -- tail(t) = tail_impl(make_index_sequence<N-1>, t)
  | catImpl    -- cat_impl(a1, a2, Is1..., Is2...) = {a1.at(Is1)..., a2.at(Is2)...}
  | cat        -- cat(a1, a2) = cat_impl(a1, a2, make_index_sequence<N1>, make_index_sequence<N2>)
  | ndMap      -- the signature: nd_map(std::function<void(Tuple)> f, Tuple s)
  | nd0        -- dimensions == 0: f({})
  | nd1        -- dimensions == 1: for (i = 0; i < s.at(0); ++i) f({i})
  | ndN        -- otherwise: for (i = 0; i < s.at(0); ++i) nd_map<tail_t>([f, i](tail_t r) { f(cat({i}, r)); }, tail(s))
  deriving DecidableEq, Repr

/-- meanings: `tail`, `cat`, and the sequence of arguments `nd_map` calls its callback with -/
structure Funs where
  tail : List Nat → List Nat
  cat : List Nat → List Nat → List Nat
  visits : List Nat → List (List Nat)

def Holds (F : Funs) : Eqn → Prop
  | .tailImpl => True
  | .tail => ∀ x xs, F.tail (x :: xs) = xs
  | .catImpl => True
  | .cat => ∀ a b, F.cat a b = a ++ b
  | .ndMap => True
  | .nd0 => F.visits [] = [[]]
  | .nd1 => ∀ s, F.visits [s] = (List.range s).map (fun i => [i])
  | .ndN => ∀ s s' ss, F.visits (s :: s' :: ss)
      = (List.range s).flatMap (fun i => (F.visits (F.tail (s :: s' :: ss))).map (fun r => F.cat [i] r))

def Eqn.name : Eqn → String
  | .tailImpl => "tailImpl" | .tail => "tail" | .catImpl => "catImpl" | .cat => "cat" | .ndMap => "ndMap"
  | .nd0 => "nd0" | .nd1 => "nd1" | .ndN => "ndN"

def Ref.nd_map : List Eqn := [.tailImpl, .tail, .catImpl, .cat, .ndMap, .nd0, .nd1, .ndN]
def Ref.text : String := "(ndmap " ++ " ".intercalate (Ref.nd_map.map Eqn.name) ++ ")"

end Covfie.Nd
