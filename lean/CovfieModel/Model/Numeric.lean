/-! Model of `covfie/core/utility/numeric.hpp` at unsigned width `w` (arithmetic mod 2^w). -/
namespace Covfie

/-- `for (j = 1; j < i; j *= 2);` — `none` when the fuel runs out (the loop does not terminate). -/
def rp2Loop (w i : Nat) : Nat → Nat → Option Nat
  | 0, _ => none
  | fuel+1, j => if j < i then rp2Loop w i fuel ((j * 2) % 2^w) else some j

def roundPow2 (w i : Nat) : Option Nat := rp2Loop w i (w + 1) (1 % 2^w)

/-- `for (; p; p >>= 1) { if (p & 1) r *= i; i *= i; }` -/
def ipowLoop (w : Nat) : Nat → Nat → Nat → Nat → Nat
  | 0, r, _, _ => r
  | fuel+1, r, i, p =>
    if p = 0 then r
    else ipowLoop w fuel (if p % 2 = 1 then (r * i) % 2^w else r) ((i * i) % 2^w) (p / 2)

def ipow (w b e : Nat) : Nat := ipowLoop w (e + 1) (1 % 2^w) b e

end Covfie
