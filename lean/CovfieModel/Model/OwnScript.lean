import CovfieModel.Model.Heap
/-! The special members of `backend::array::owning_data_t` as scripts of the few statements they are written in
(`harness/cxx2own.py` recognises each statement), executed on the ownership machine's state. -/
namespace Covfie.Heap

inductive OStmt
  | selfReturn     -- if (this == &o) { return *this; }
  | sizeFromSrc    -- m_size = o.m_size;            /  : m_size(o.m_size)
  | allocAssign    -- m_ptr = std::make_unique<vector_t[]>(m_size);     (the old buffer is released once the new one exists)
  | allocInit      -- , m_ptr(std::make_unique<vector_t[]>(m_size))     (construction: nothing to release)
  | assertBuf      -- assert(m_size == 0 || m_ptr);
  | copyCells      -- if (o.m_ptr && m_size > 0) { std::memcpy(m_ptr.get(), o.m_ptr.get(), m_size * sizeof(vector_t)); }
  | returnThis     -- return *this;
  deriving DecidableEq, Repr

def OStmt.name : OStmt → String
  | .selfReturn => "selfReturn" | .sizeFromSrc => "sizeFromSrc" | .allocAssign => "allocAssign" | .allocInit => "allocInit"
  | .assertBuf => "assertBuf" | .copyCells => "copyCells" | .returnThis => "returnThis"

/-- the machine state, the object the member function runs on, and whether it has returned -/
structure OSt where
  s : CState
  this : Own
  done : Bool

def alloc (s : CState) (n : Nat) : CState := { s with heap := upd s.heap s.next (some (zeros n)), next := s.next + 1 }

/-- one statement; `src` is the argument `o`, `same` says whether `this == &o` -/
def ostep (src : Own) (same : Bool) (st : OSt) (c : OStmt) : OSt :=
  if st.done then st else
  match c with
  | .selfReturn => if same then { st with done := true } else st
  | .sizeFromSrc => { st with this := { st.this with size := src.size } }
  | .allocAssign =>
      let a := st.s.next
      { st with s := free (alloc st.s st.this.size) st.this.ptr, this := { st.this with ptr := some a } }
  | .allocInit =>
      let a := st.s.next
      { st with s := alloc st.s st.this.size, this := { st.this with ptr := some a } }
  | .assertBuf => st
  | .copyCells =>
      match src.ptr, st.this.ptr with
      | some a, some b =>
        if st.this.size > 0 then
          match st.s.heap a with
          | some buf => { st with s := { st.s with heap := upd st.s.heap b (some (buf.take st.this.size)) } }
          | none => { st with s := { st.s with bad := true } }       -- reads a released buffer
        else st
      | _, _ => st
  | .returnThis => { st with done := true }

/-- copy assignment `dst = src` run as a script -/
def runAssign (script : List OStmt) (s : CState) (dst src : Nat) : CState :=
  match s.slots dst, s.slots src with
  | some d, some o =>
    let st := script.foldl (ostep o (dst == src)) ⟨s, d, false⟩
    { st.s with slots := upd st.s.slots dst (some st.this) }
  | _, _ => s

/-- copy construction of the empty slot `dst` from `src` run as a script -/
def runCtor (script : List OStmt) (s : CState) (dst src : Nat) : CState :=
  match s.slots dst, s.slots src with
  | none, some o =>
    let st := script.foldl (ostep o false) ⟨s, ⟨0, none⟩, false⟩
    { st.s with slots := upd st.s.slots dst (some st.this) }
  | _, _ => s

namespace Ref
def copy_assign : List OStmt := [.selfReturn, .sizeFromSrc, .allocAssign, .assertBuf, .copyCells, .returnThis]
def copy_ctor : List OStmt := [.sizeFromSrc, .allocInit, .assertBuf, .copyCells]
end Ref

/-- canonical text, as `harness/cxx2own.py` prints it -/
def scriptSexp (l : List OStmt) : String := "(script " ++ " ".intercalate (l.map OStmt.name) ++ ")"
/-- the facts about the class the machine's move steps rest on (recognised by the translator as one sentence) -/
def membersSexp : String := "(members size unique_ptr default_moves)"
def Ref.all : List (String × String) :=
  [("copy_assign", scriptSexp Ref.copy_assign), ("copy_ctor", scriptSexp Ref.copy_ctor), ("members", membersSexp)]

end Covfie.Heap
