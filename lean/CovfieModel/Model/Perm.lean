/-! Model of `covfie/core/utility/static_permutation.hpp` on lists of naturals. -/
namespace Covfie

/-- `sort_index_sequence`: head as pivot, `filter_index_sequence_lt`, `filter_index_sequence_geq`, concatenate.
    Fuel-based (the template recursion is on strictly shorter sequences). -/
def sortFuel : Nat → List Nat → List Nat
  | 0, _ => []
  | _+1, [] => []
  | f+1, p :: xs => sortFuel f (xs.filter (· < p)) ++ p :: sortFuel f (xs.filter (fun x => decide (x ≥ p)))

def sortSeq (l : List Nat) : List Nat := sortFuel l.length l

/-- `is_permutation`: `std::is_same` of the two sorted sequences -/
def isPerm (a b : List Nat) : Bool := sortSeq a == sortSeq b

end Covfie
