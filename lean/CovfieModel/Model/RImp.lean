import CovfieModel.Model.Imp
/-! A two-sorted extension of `Covfie.Imp` for the floating-point kernels (`algebra/matrix.hpp`, `algebra/affine.hpp`):
integer loop counters as in `Imp`, plus scalars and arrays over an abstract scalar type `α` with `+ - *` — the
same abstraction the C09 / C03 theorems are stated over (any commutative ring; `Fl rnd` for rounded arithmetic). -/
namespace Covfie.RImp
open Covfie.Imp (Expr)

inductive RExpr
  | zero | one
  | rvar (i : Nat)
  | get (a : Nat) (ix : List Expr)
  | add (l r : RExpr)
  | sub (l r : RExpr)
  | mul (l r : RExpr)
  | sel (c : Expr) (t e : RExpr)
  deriving DecidableEq, Repr

inductive Stmt
  | skip
  | iassign (i : Nat) (e : Expr)
  | rassign (i : Nat) (e : RExpr)
  | rset (a : Nat) (ix : List Expr) (e : RExpr)
  | seq (a b : Stmt)
  | ite (c : Expr) (t e : Stmt)
  | while (c : Expr) (b : Stmt)
  deriving DecidableEq, Repr

structure Env (α : Type) where
  isc : List Nat
  rsc : List α
  arr : List (List Nat → α)

variable {α : Type} [Add α] [Mul α] [Sub α] [OfNat α 0] [OfNat α 1]

/-- integer expressions: 64-bit (`std::size_t` counters), no integer arrays -/
def ieval (env : Env α) (e : Expr) : Nat := Covfie.Imp.eval 64 ⟨env.isc, []⟩ e

def reval (env : Env α) : RExpr → α
  | .zero => 0
  | .one => 1
  | .rvar i => env.rsc.getD i 0
  | .get a ix => (env.arr.getD a (fun _ => 0)) (ix.map (ieval env))
  | .add l r => reval env l + reval env r
  | .sub l r => reval env l - reval env r
  | .mul l r => reval env l * reval env r
  | .sel c t e => if ieval env c ≠ 0 then reval env t else reval env e

def upd (f : List Nat → α) (ix : List Nat) (v : α) : List Nat → α := fun jx => if jx = ix then v else f jx

def wloop {σ : Type} (cond : σ → Bool) (body : σ → Option σ) : Nat → σ → Option σ
  | 0, _ => none
  | f+1, s => if cond s then (body s).bind (wloop cond body f) else some s

def exec (fuel : Nat) : Stmt → Env α → Option (Env α)
  | .skip, env => some env
  | .iassign i e, env => some { env with isc := env.isc.set i (ieval env e % 2^64) }
  | .rassign i e, env => some { env with rsc := env.rsc.set i (reval env e) }
  | .rset a ix e, env =>
      some { env with arr := env.arr.set a (upd (env.arr.getD a (fun _ => 0)) (ix.map (ieval env)) (reval env e)) }
  | .seq a b, env => (exec fuel a env).bind (exec fuel b)
  | .ite c t e, env => if ieval env c ≠ 0 then exec fuel t env else exec fuel e env
  | .while c b, env => wloop (fun env => ieval env c ≠ 0) (exec fuel b) fuel env

end Covfie.RImp

namespace Covfie.RImp
/-! ### canonical text (the format `harness/cxx2rimp.py` prints) -/
def ixSexp (ix : List Covfie.Imp.Expr) : String := "(" ++ " ".intercalate (ix.map Covfie.Imp.Expr.toSexp) ++ ")"

def RExpr.toSexp : RExpr → String
  | .zero => "zero"
  | .one => "one"
  | .rvar i => s!"(rvar {i})"
  | .get a ix => s!"(get {a} {ixSexp ix})"
  | .add l r => s!"(add {l.toSexp} {r.toSexp})"
  | .sub l r => s!"(sub {l.toSexp} {r.toSexp})"
  | .mul l r => s!"(mul {l.toSexp} {r.toSexp})"
  | .sel c t e => s!"(sel {c.toSexp} {t.toSexp} {e.toSexp})"

def Stmt.toSexp : Stmt → String
  | .skip => "skip"
  | .iassign i e => s!"(iassign {i} {e.toSexp})"
  | .rassign i e => s!"(rassign {i} {e.toSexp})"
  | .rset a ix e => s!"(rset {a} {ixSexp ix} {e.toSexp})"
  | .seq a b => s!"(seq {a.toSexp} {b.toSexp})"
  | .ite c t e => s!"(ite {c.toSexp} {t.toSexp} {e.toSexp})"
  | .while c b => s!"(while {c.toSexp} {b.toSexp})"
end Covfie.RImp
