/-! IEEE-754 binary32/binary64 bit patterns decoded to exact rationals (core only). -/
namespace Covfie

inductive Num
  | fin (q : Rat)
  | pinf | ninf | nan
  deriving Repr, DecidableEq, Inhabited

def pow2 (e : Int) : Rat := if e ≥ 0 then ((2 : Nat) ^ e.toNat : Nat) else 1 / (((2 : Nat) ^ (-e).toNat : Nat) : Rat)

/-- generic decoder: `eb` exponent bits, `mb` mantissa bits -/
def decodeIEEE (eb mb : Nat) (bits : Nat) : Num :=
  let m := bits % 2^mb
  let e := (bits / 2^mb) % 2^eb
  let s := (bits / 2^(mb+eb)) % 2
  let bias : Int := 2^(eb-1) - 1
  if e = 2^eb - 1 then (if m = 0 then (if s = 1 then .ninf else .pinf) else .nan)
  else
    let mag : Rat := if e = 0 then (m : Rat) * pow2 (1 - bias - mb) else ((2^mb + m : Nat) : Rat) * pow2 ((e : Int) - bias - mb)
    .fin (if s = 1 then -mag else mag)

def decodeF32 := decodeIEEE 8 23
def decodeF64 := decodeIEEE 11 52

/-- unit roundoff -/
def uF32 : Rat := pow2 (-24)
def uF64 : Rat := pow2 (-53)

end Covfie
