import CovfieModel.Model.Scalar
import CovfieModel.Model.Interp
import CovfieModel.Model.Layout
/-! The layers as functions from "what lies beneath" to a lookup (open recursion), with an instrumented result:
    either an undefined-behaviour condition, or the value together with the trace of flat indices that reached
    the primitive backend. -/
namespace Covfie

inductive UB
  | oob (idx size : Nat)      -- flat index outside the storage
  | floatToInt               -- float → integer conversion out of range / of NaN
  | negativeIndex
  | arity                    -- wrong number of components (ill-kinded use)
  | nanCompare               -- comparison involving NaN (excluded by the properties)
  deriving Repr, DecidableEq

abbrev Res := Except UB (List Num × List Nat)
abbrev Backend := List Num → Res

/-- `mapM` in `Except`, by structural recursion (so that it unfolds in proofs) -/
def mapE {α β ε} (f : α → Except ε β) : List α → Except ε (List β)
  | [] => .ok []
  | a :: as => match f a with
    | .error e => .error e
    | .ok b => match mapE f as with
      | .error e => .error e
      | .ok bs => .ok (b :: bs)
def mapO {α β} (f : α → Option β) : List α → Option (List β)
  | [] => some []
  | a :: as => match f a with
    | none => none
    | some b => match mapO f as with
      | none => none
      | some bs => some (b :: bs)

/-! ### order on non-NaN numbers -/
def Num.lt : Num → Num → Bool
  | .fin a, .fin b => a < b
  | .ninf, .fin _ => true
  | .ninf, .pinf => true
  | .fin _, .pinf => true
  | _, _ => false
def Num.isNan : Num → Bool | .nan => true | _ => false

/-- `std::clamp(v, lo, hi)` = `(v < lo) ? lo : (hi < v) ? hi : v` -/
def clampNum (lo hi x : Num) : Num := if Num.lt x lo then lo else if Num.lt hi x then hi else x

def zip3With {α β γ δ} (f : α → β → γ → δ) : List α → List β → List γ → List δ
  | a :: as, b :: bs, c :: cs => f a b c :: zip3With f as bs cs
  | _, _, _ => []

/-! ### primitive backends -/
def arrayB (cells : List (List Num)) : Backend := fun c =>
  match c with
  | [.fin q] =>
    if q.den = 1 ∧ 0 ≤ q.num then
      let i := q.num.toNat
      match cells[i]? with
      | some v => .ok (v, [i])
      | none => .error (.oob i cells.length)
    else .error .negativeIndex
  | _ => .error .arity
def constantB (v : List Num) : Backend := fun _ => .ok (v, [])
def identityB : Backend := fun c => .ok (c, [])

/-! ### wrapper layers -/
def clampL (lo hi : List Num) (bk : Backend) : Backend := fun c => bk (zip3With clampNum lo hi c)

/-- some component outside the closed box -/
def outside (lo hi c : List Num) : Bool := (zip3With (fun l h x => Num.lt x l || Num.lt h x) lo hi c).any id
def backupL (lo hi dflt : List Num) (bk : Backend) : Backend := fun c =>
  if outside lo hi c then .ok (dflt, []) else bk c

def shuffleL (perm : List Nat) (bk : Backend) : Backend := fun c => bk (perm.map fun i => c.getD i .nan)

def castL (conv : Num → Except UB Num) (bk : Backend) : Backend := fun c =>
  match bk c with
  | .error e => .error e
  | .ok (v, t) => match mapE conv v with
    | .error e => .error e
    | .ok v' => .ok (v', t)

def derefL (bk : Backend) : Backend := bk

/-- A·x + t on exact numbers (rows of length N+1; non-finite input is out of the modelled domain) -/
def finOf : Num → Option Rat | .fin q => some q | _ => none
def affineRow (row : List Rat) (x : List Rat) : Rat :=
  (List.zipWith (· * ·) row (x ++ [1])).foldl (· + ·) 0
def affineL (m : List (List Rat)) (bk : Backend) : Backend := fun c =>
  match mapO finOf c with
  | some x => bk (m.map fun row => .fin (affineRow row x))
  | none => .error .nanCompare

/-- `lrint` then conversion to an unsigned index -/
def lrintIdx (x : Num) : Except UB Num :=
  match x with
  | .fin q => let r := nnRound q; if 0 ≤ r then .ok (.fin (r : Rat)) else .error .floatToInt
  | _ => .error .floatToInt
def nnL (bk : Backend) : Backend := fun c =>
  match mapE lrintIdx c with
  | .error e => .error e
  | .ok nc => bk nc

/-- storage orders: integer coordinates → one flat index -/
def natOf : Num → Except UB Nat
  | .fin q => if q.den = 1 ∧ 0 ≤ q.num then .ok q.num.toNat else .error .negativeIndex
  | _ => .error .floatToInt
def layoutL (idx : List Nat → Nat) (bk : Backend) : Backend := fun c =>
  match mapE natOf c with
  | .error e => .error e
  | .ok cs => bk [.fin (idx cs : Nat)]

end Covfie

namespace Covfie

/-- integer part by truncation and fractional part `x − trunc x` (coordinates must be finite and ≥ 0) -/
def truncIdx (x : Num) : Except UB (Nat × Rat) :=
  match x with
  | .fin q => if 0 ≤ q then .ok (q.floor.toNat, q - (q.floor : Rat)) else .error .floatToInt
  | _ => .error .floatToInt

def addBits (is : List Nat) (bs : List Bool) : List Num :=
  List.zipWith (fun i b => .fin ((i + (if b then 1 else 0) : Nat) : Rat)) is bs

/-- the 2^N corner selectors of a cell -/
def corners : Nat → List (List Bool)
  | 0 => [[]]
  | n+1 => (corners n).flatMap fun bs => [false :: bs, true :: bs]

/-- one of the 2^N lookups beneath an interpolator -/
def cornerQuery (bk : Backend) (is : List Nat) (bs : List Bool) : Except UB (List Bool × (List Num × List Nat)) :=
  match bk (addBits is bs) with
  | .error e => .error e
  | .ok r => .ok (bs, r)

/-- `linear<B>::at`: 2^N lookups beneath, then the N-linear interpolant per output component -/
def linearL (bk : Backend) : Backend := fun c =>
  match mapE truncIdx c with
  | .error e => .error e
  | .ok parts =>
    let is := parts.map (·.1)
    let fr := parts.map (·.2)
    match mapE (cornerQuery bk is) (corners c.length) with
    | .error e => .error e
    | .ok rs =>
      let M := (rs.head?.map (·.2.1.length)).getD 0
      let valueAt (q : Nat) (bs : List Bool) : Rat :=
        match rs.lookup bs with
        | some (v, _) => (finOf (v.getD q .nan)).getD 0
        | none => 0
      .ok ((List.range M).map (fun q => .fin (nlin fr (valueAt q))), rs.flatMap (·.2.2))

/-! ### Stacks and their data -/
inductive Stack
  | array | constant | identity
  | strided (w : Nat) (b : Stack) | mortonT (b : Stack) | mortonF (b : Stack) | hilbert (b : Stack)
  | clamp (b : Stack) | backup (b : Stack) | affine (b : Stack) | shuffle (perm : List Nat) (b : Stack)
  | cast (b : Stack) | deref (b : Stack) | nn (b : Stack) | linear (b : Stack)

inductive Data
  | array (cells : List (List Num))
  | constant (v : List Num)
  | identity
  | sized (sizes : List Nat) (b : Data)
  | box (lo hi : List Num) (b : Data)
  | boxd (lo hi dflt : List Num) (b : Data)
  | aff (m : List (List Rat)) (b : Data)
  | thin (b : Data)

/-- value conversion used by `covariant_cast` (parameter of the evaluation: identity, `narrow`, truncation …) -/
abbrev Conv := Num → Except UB Num

/-- lookup of a stack = composition of its layers' maps, outermost first -/
def eval (conv : Conv) : Stack → Data → Backend
  | .array, .array cells => arrayB cells
  | .constant, .constant v => constantB v
  | .identity, .identity => identityB
  | .strided w b, .sized sz d => layoutL (stridedIdxW w sz) (eval conv b d)
  | .mortonT b, .sized _ d => layoutL mortonPdep (eval conv b d)
  | .mortonF b, .sized _ d => layoutL mortonLoop (eval conv b d)
  | .hilbert b, .sized sz d => layoutL (hilbertIdx sz) (eval conv b d)
  | .clamp b, .box lo hi d => clampL lo hi (eval conv b d)
  | .backup b, .boxd lo hi df d => backupL lo hi df (eval conv b d)
  | .affine b, .aff m d => affineL m (eval conv b d)
  | .shuffle p b, .thin d => shuffleL p (eval conv b d)
  | .cast b, .thin d => castL conv (eval conv b d)
  | .deref b, .thin d => derefL (eval conv b d)
  | .nn b, .thin d => nnL (eval conv b d)
  | .linear b, .thin d => linearL (eval conv b d)
  | _, _ => fun _ => .error .arity

end Covfie
