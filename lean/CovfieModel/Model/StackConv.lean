import CovfieModel.Model.Stack
import CovfieModel.Model.Kinds
/-! Value conversions of `covariant_cast<T, B>` (one per cast layer of a stack, outermost first), the evaluator that
    threads them through the stack, and the user-defined probe backend of the correspondence harness. -/
namespace Covfie
open Covfie.Kinds

/-- exponent `e` with `2^e ≤ a < 2^(e+1)` for a positive rational `a = n/d` -/
def ilog2 (n d : Nat) : Int :=
  let e0 : Int := (Nat.log2 n : Int) - (Nat.log2 d : Int)
  if (n : Rat) / (d : Rat) < pow2 e0 then e0 - 1 else e0

/-- nearest binary floating-point number with a `p`-bit significand, ties to even (`static_cast<float>` of a
    `double`, `static_cast<float>` of an integer). The exponent range is not modelled (normal range only). -/
def roundToPrec (p : Nat) (q : Rat) : Rat :=
  if q = 0 then 0 else
    let a : Rat := if q < 0 then -q else q
    let e := ilog2 a.num.natAbs a.den
    let ulp := pow2 (e - (p : Int) + 1)
    let m : Rat := ((nnRound (a / ulp) : Int) : Rat) * ulp
    if q < 0 then -m else m

/-- truncation toward zero (`static_cast<integer>` of a floating value) -/
def truncZ (q : Rat) : Int := if 0 ≤ q then q.floor else -((-q).floor)

/-- range of the integer kinds -/
def SK.intRange : SK → Option (Int × Int)
  | .i32 => some (-(2^31 : Int), 2^31 - 1)
  | .u32 => some (0, 2^32 - 1)
  | .i64 => some (-(2^63 : Int), 2^63 - 1)
  | .u64 => some (0, 2^64 - 1)
  | _ => none

/-- `static_cast<T>(x)` for the scalar kinds of the harness: rounding to the target precision for floating targets,
    truncation with a range check (outside: undefined behaviour) for integer targets -/
def convTo (t : SK) : Conv := fun x =>
  match t, x with
  | .f32, .fin q => .ok (.fin (roundToPrec 24 q))
  | .f64, .fin q => .ok (.fin (roundToPrec 53 q))
  | .f32, y => .ok y
  | .f64, y => .ok y
  | k, .fin q =>
    match SK.intRange k with
    | some (lo, hi) => let z := truncZ q; if lo ≤ z ∧ z ≤ hi then .ok (.fin (z : Rat)) else .error .floatToInt
    | none => .error .floatToInt
  | _, _ => .error .floatToInt

/-- lookup of a stack whose `k`-th cast layer (counted from the outside, starting at `k₀`) converts with `cv k` -/
def evalN (cv : Nat → Conv) : Nat → Stack → Data → Backend
  | _, .array, .array cells => arrayB cells
  | _, .constant, .constant v => constantB v
  | _, .identity, .identity => identityB
  | k, .strided w b, .sized sz d => layoutL (stridedIdxW w sz) (evalN cv k b d)
  | k, .mortonT b, .sized _ d => layoutL mortonPdep (evalN cv k b d)
  | k, .mortonF b, .sized _ d => layoutL mortonLoop (evalN cv k b d)
  | k, .hilbert b, .sized sz d => layoutL (hilbertIdx sz) (evalN cv k b d)
  | k, .clamp b, .box lo hi d => clampL lo hi (evalN cv k b d)
  | k, .backup b, .boxd lo hi df d => backupL lo hi df (evalN cv k b d)
  | k, .affine b, .aff m d => affineL m (evalN cv k b d)
  | k, .shuffle p b, .thin d => shuffleL p (evalN cv k b d)
  | k, .cast b, .thin d => castL (cv k) (evalN cv (k + 1) b d)
  | k, .deref b, .thin d => derefL (evalN cv k b d)
  | k, .nn b, .thin d => nnL (evalN cv k b d)
  | k, .linear b, .thin d => linearL (evalN cv k b d)
  | _, _, _ => fun _ => .error .arity

/-- the harness' probe backend: `M` output components, component `q` is input component `(q+1) mod N`; every
    lookup leaves one entry in the trace (the harness counts the queries it receives) -/
def probeB (M : Nat) : Backend := fun c =>
  .ok ((List.range M).map (fun q => c.getD ((q + 1) % c.length) .nan), [0])

end Covfie
