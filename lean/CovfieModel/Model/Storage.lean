/-! A flat storage of cells and access through an index function. -/
namespace Covfie
/-- storage as a finite array of cells; out-of-range access is an explicit error -/
structure Store (α : Type) where
  cells : List α

def Store.read {α} (s : Store α) (i : Nat) : Option α := s.cells[i]?
def Store.write {α} (s : Store α) (i : Nat) (v : α) : Option (Store α) :=
  if i < s.cells.length then some ⟨s.cells.set i v⟩ else none
end Covfie
