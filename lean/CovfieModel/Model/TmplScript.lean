import CovfieModel.Model.Perm
/-! The specialisations of `utility/static_permutation.hpp` read as equations (`harness/cxx2tmpl.py` recognises each one). -/
namespace Covfie.Tmpl

/-- one recognised specialisation -/
inductive Eqn
  | concat        -- concat_index_sequence<index_sequence<L...>, index_sequence<H...>>::type = index_sequence<L..., H...>
  | ltNil         -- filter_index_sequence_lt<N, index_sequence<>>::type = index_sequence<>
  | ltCons        -- filter_index_sequence_lt<N, index_sequence<V, Vs...>>::type = concat<conditional_t<V < N, <V>, <>>, filter_lt<N, <Vs...>>>
  | geqNil
  | geqCons       -- the same with V >= N
  | sortNil       -- sort_index_sequence<index_sequence<>>::type = index_sequence<>
  | sortCons      -- sort<<N, Ns...>> = concat<sort<filter_lt<N, <Ns...>>>, concat<<N>, sort<filter_geq<N, <Ns...>>>>>
  | permSeq       -- is_permutation<<Us...>, <Vs...>> : is_same<sort<<Us...>>, sort<<Vs...>>>
  | permOther     -- the primary template (arguments that are not two index sequences): false_type
  deriving DecidableEq, Repr

/-- an assignment of meanings to the five templates -/
structure Funs where
  concat : List Nat → List Nat → List Nat
  lt : Nat → List Nat → List Nat
  geq : Nat → List Nat → List Nat
  sort : List Nat → List Nat
  perm : List Nat → List Nat → Bool

/-- what it means for the templates' meanings to satisfy a specialisation, read as an equation -/
def Holds (F : Funs) : Eqn → Prop
  | .concat => ∀ l h, F.concat l h = l ++ h
  | .ltNil => ∀ n, F.lt n [] = []
  | .ltCons => ∀ n v vs, F.lt n (v :: vs) = F.concat (if v < n then [v] else []) (F.lt n vs)
  | .geqNil => ∀ n, F.geq n [] = []
  | .geqCons => ∀ n v vs, F.geq n (v :: vs) = F.concat (if v ≥ n then [v] else []) (F.geq n vs)
  | .sortNil => F.sort [] = []
  | .sortCons => ∀ n ns, F.sort (n :: ns) = F.concat (F.sort (F.lt n ns)) (F.concat [n] (F.sort (F.geq n ns)))
  | .permSeq => ∀ us vs, F.perm us vs = (F.sort us == F.sort vs)
  | .permOther => True

def Eqn.name : Eqn → String
  | .concat => "concat" | .ltNil => "ltNil" | .ltCons => "ltCons" | .geqNil => "geqNil" | .geqCons => "geqCons"
  | .sortNil => "sortNil" | .sortCons => "sortCons" | .permSeq => "permSeq" | .permOther => "permOther"

/-- the specialisations in the order the header declares them -/
def Ref.static_permutation : List Eqn :=
  [.concat, .ltNil, .ltCons, .geqNil, .geqCons, .sortNil, .sortCons, .permOther, .permSeq]
def Ref.text : String := "(tmpl " ++ " ".intercalate (Ref.static_permutation.map Eqn.name) ++ ")"

end Covfie.Tmpl
