import CovfieModel.Lemmas.Strided
import CovfieModel.Lemmas.NdMap
import CovfieModel.Lemmas.MortonPdep
import CovfieModel.Lemmas.HilbertList
import CovfieModel.Lemmas.Storage
import CovfieModel.Props.C18
/-! # C01 — Storage-order layers behave as an N-dimensional array -/
namespace Covfie.C01

/-- coordinates inside the box are below every bound on the extents -/
theorem inBox_getD_lt (sz c : List Nat) (h : InBox sz c) (b : Nat) (hb : ∀ s ∈ sz, s ≤ b) :
    ∀ j, j < c.length → c.getD j 0 < b := by
  induction sz generalizing c with
  | nil => cases c <;> simp_all [InBox]
  | cons s ss ih =>
    cases c with
    | nil => simp [InBox] at h
    | cons x xs =>
      intro j hj
      cases j with
      | zero => simp; exact Nat.lt_of_lt_of_le h.1 (hb s List.mem_cons_self)
      | succ j =>
        simp only [List.getD_cons_succ]
        exact ih xs h.2 (fun t ht => hb t (List.mem_cons_of_mem _ ht)) j (by simpa using hj)

/-! ## Row-major -/
theorem strided_in_storage (sz c : List Nat) (h : InBox sz c) : stridedIdx sz c < prod sz := strided_lt sz c h
theorem strided_no_alias (sz c c' : List Nat) (h : InBox sz c) (h' : InBox sz c')
    (e : stridedIdx sz c = stridedIdx sz c') : c = c' := strided_inj sz c c' h h' e
/-- for `size_t`, `unsigned` and (within half the range) `int` coordinates alike -/
theorem strided_code (w : Nat) (sz c : List Nat) (h : InBox sz c) (hfit : prod sz ≤ 2^w) :
    stridedIdxW w sz c = stridedIdx sz c := strided_nowrap w sz c h hfit

/-! ## Morton (portable loop; the BMI2 path is equal to it by C14) -/
theorem morton_in_storage (sz c : List Nat) (k : Nat) (h : InBox sz c) (hN : 0 < sz.length)
    (hk : ∀ s ∈ sz, s ≤ 2^k) : mortonLoop c < 2^(k * sz.length) := by
  have hl := InBox_length sz c h
  rw [← hl]
  exact mortonLoop_lt c k (by omega) (inBox_getD_lt sz c h _ hk)

theorem morton_no_alias (sz c c' : List Nat) (h : InBox sz c) (h' : InBox sz c') (hN : 0 < sz.length)
    (hk : ∀ s ∈ sz, s ≤ 2^(64 / sz.length)) (e : mortonLoop c = mortonLoop c') : c = c' := by
  have hl := InBox_length sz c h
  have hl' := InBox_length sz c' h'
  apply mortonLoop_inj c c' (by omega) (by omega) _ _ e
  · rw [hl]; intro j hj; exact inBox_getD_lt sz c h _ hk j (by omega)
  · rw [hl']; intro j hj; exact inBox_getD_lt sz c' h' _ hk j (by omega)

/-- the storage allocated by the converting constructor, `ipow(round_pow2(max extent), N)`, covers every index -/
theorem morton_alloc_covers (sz c : List Nat) (h : InBox sz c) (hN : 0 < sz.length)
    (r : Nat) (hr : roundPow2 64 (sz.foldl max 0) = some (2^r)) (hmax : ∀ s ∈ sz, s ≤ 2^r)
    (hfit : r * sz.length < 64) : mortonLoop c < curveLen sz := by
  have : curveLen sz = 2^(r * sz.length) := by
    unfold curveLen
    rw [hr, Option.getD_some, C18.ipow_spec, ← Nat.pow_mul]
    exact Nat.mod_eq_of_lt (Nat.pow_lt_pow_right (by omega) hfit)
  rw [this]
  exact morton_in_storage sz c r h hN hmax

/-! ## Hilbert (two dimensions, any extents: square or not, power of two or not) -/
theorem hilbert_in_storage (sx sy x y k : Nat) (hk : hilN sx sy = 2^k) (hk63 : k ≤ 63)
    (hx : x < sx) (hy : y < sy) (hsx : sx ≤ 2^k) (hsy : sy ≤ 2^k) :
    hilbertIdx [sx, sy] [x, y] < 4^k := by
  rw [hilbertIdx_eq sx sy x y k hk hk63 (by omega) (by omega)]
  exact hilR_lt k x y

theorem hilbert_no_alias (sx sy x y x' y' k : Nat) (hk : hilN sx sy = 2^k) (hk63 : k ≤ 63)
    (hsx : sx ≤ 2^k) (hsy : sy ≤ 2^k) (hx : x < sx) (hy : y < sy) (hx' : x' < sx) (hy' : y' < sy)
    (e : hilbertIdx [sx, sy] [x, y] = hilbertIdx [sx, sy] [x', y']) : x = x' ∧ y = y' := by
  rw [hilbertIdx_eq sx sy x y k hk hk63 (by omega) (by omega),
      hilbertIdx_eq sx sy x' y' k hk hk63 (by omega) (by omega)] at e
  exact hilR_inj k x y x' y' (by omega) (by omega) (by omega) (by omega) e

/-! ## Array semantics through any injective, in-range index function -/
variable {α : Type}
/-- a value written at an in-range coordinate is the value read back there … -/
theorem read_own_write (idx : List Nat → Nat) (st : Store α) (c : List Nat) (v : α)
    (hin : idx c < st.cells.length) :
    ∃ st', st.write (idx c) v = some st' ∧ st'.read (idx c) = some v := by
  obtain ⟨st', h, _⟩ := Store.write_some st (idx c) v hin
  exact ⟨st', h, Store.read_write_same st st' _ v h⟩
/-- … and a write at one coordinate never changes what is read at any other in-range coordinate. -/
theorem write_frame (idx : List Nat → Nat) (Box : List Nat → Prop)
    (hinj : ∀ c c', Box c → Box c' → idx c = idx c' → c = c')
    (st st' : Store α) (c c' : List Nat) (v : α) (hc : Box c) (hc' : Box c') (hne : c ≠ c')
    (h : st.write (idx c) v = some st') : st'.read (idx c') = st.read (idx c') :=
  Store.read_write_other st st' _ _ v h (fun e => hne (hinj c c' hc hc' e))

example : InBox [3, 5] [2, 4] ∧ stridedIdx [3, 5] [2, 4] = 14 ∧ mortonLoop [2, 4] = 0b100100 ∧
    hilbertIdx [3, 5] [2, 4] = hilR 3 2 4 := by decide
end Covfie.C01
