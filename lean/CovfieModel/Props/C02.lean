import CovfieModel.Model.Stack
/-! # C02 — A stack's lookup is the composition of its layers' maps; a layer never depends on what lies beneath -/
namespace Covfie.C02

theorem mapE_congr {α β ε} (f g : α → Except ε β) (l : List α) (h : ∀ a ∈ l, f a = g a) : mapE f l = mapE g l := by
  induction l with
  | nil => rfl
  | cons a as ih =>
    simp only [mapE, h a List.mem_cons_self, ih (fun x hx => h x (List.mem_cons_of_mem _ hx))]

theorem mapE_length {α β ε} (f : α → Except ε β) (l : List α) (r : List β) (h : mapE f l = .ok r) : r.length = l.length := by
  induction l generalizing r with
  | nil => simp [mapE] at h; subst h; rfl
  | cons a as ih =>
    simp only [mapE] at h
    cases hf : f a with
    | error e => simp [hf] at h
    | ok b =>
      cases hm : mapE f as with
      | error e => simp [hf, hm] at h
      | ok bs => simp [hf, hm] at h; subst h; simp [ih bs hm]

/-! ## Locality: if two backends agree on the coordinates a layer queries, the layered lookups agree.
    Stated for an arbitrary function beneath — no assumption on which layers it is made of. -/
theorem clamp_local (lo hi : List Num) (b₁ b₂ : Backend) (c : List Num)
    (h : b₁ (zip3With clampNum lo hi c) = b₂ (zip3With clampNum lo hi c)) :
    clampL lo hi b₁ c = clampL lo hi b₂ c := h
theorem backup_local (lo hi df : List Num) (b₁ b₂ : Backend) (c : List Num)
    (h : outside lo hi c = false → b₁ c = b₂ c) : backupL lo hi df b₁ c = backupL lo hi df b₂ c := by
  unfold backupL; cases ho : outside lo hi c <;> simp [h, ho]
theorem shuffle_local (p : List Nat) (b₁ b₂ : Backend) (c : List Num)
    (h : b₁ (p.map fun i => c.getD i .nan) = b₂ (p.map fun i => c.getD i .nan)) :
    shuffleL p b₁ c = shuffleL p b₂ c := h
theorem cast_local (conv : Conv) (b₁ b₂ : Backend) (c : List Num) (h : b₁ c = b₂ c) :
    castL conv b₁ c = castL conv b₂ c := by unfold castL; rw [h]
theorem deref_local (b₁ b₂ : Backend) (c : List Num) (h : b₁ c = b₂ c) : derefL b₁ c = derefL b₂ c := h
theorem affine_local (m : List (List Rat)) (b₁ b₂ : Backend) (c : List Num)
    (h : ∀ x, mapO finOf c = some x → b₁ (m.map fun row => .fin (affineRow row x)) = b₂ (m.map fun row => .fin (affineRow row x))) :
    affineL m b₁ c = affineL m b₂ c := by
  unfold affineL; cases hx : mapO finOf c with
  | none => rfl
  | some x => exact h x hx
theorem nn_local (b₁ b₂ : Backend) (c : List Num) (h : ∀ nc, mapE lrintIdx c = .ok nc → b₁ nc = b₂ nc) :
    nnL b₁ c = nnL b₂ c := by
  unfold nnL; cases hx : mapE lrintIdx c with
  | error e => rfl
  | ok nc => exact h nc hx
theorem layout_local (idx : List Nat → Nat) (b₁ b₂ : Backend) (c : List Num)
    (h : ∀ cs, mapE natOf c = .ok cs → b₁ [.fin (idx cs : Nat)] = b₂ [.fin (idx cs : Nat)]) :
    layoutL idx b₁ c = layoutL idx b₂ c := by
  unfold layoutL; cases hx : mapE natOf c with
  | error e => rfl
  | ok cs => exact h cs hx
theorem linear_local (b₁ b₂ : Backend) (c : List Num)
    (h : ∀ parts bs, mapE truncIdx c = .ok parts → bs ∈ corners c.length →
      b₁ (addBits (parts.map (·.1)) bs) = b₂ (addBits (parts.map (·.1)) bs)) :
    linearL b₁ c = linearL b₂ c := by
  unfold linearL
  cases hp : mapE truncIdx c with
  | error e => rfl
  | ok parts =>
    simp only []
    rw [mapE_congr (cornerQuery b₁ (parts.map (·.1))) (cornerQuery b₂ (parts.map (·.1))) (corners c.length)
        (fun bs hbs => by simp only [cornerQuery, h parts bs hp hbs])]

/-! ## One-line definitions, for every input dimensionality N and output dimensionality M independently -/
/-- coordinate permutation: the backend is queried at `(c[p₀], c[p₁], …)` -/
theorem shuffle_def (p : List Nat) (b : Backend) (c : List Num) :
    shuffleL p b c = b (p.map fun i => c.getD i .nan) := rfl
/-- value cast: every one of the M output components is converted, whatever N is -/
theorem cast_def (conv : Conv) (b : Backend) (c v v' : List Num) (t : List Nat)
    (hb : b c = .ok (v, t)) (hc : mapE conv v = .ok v') : castL conv b c = .ok (v', t) := by
  simp [castL, hb, hc]
theorem cast_length (conv : Conv) (b : Backend) (c v v' : List Num) (t t' : List Nat)
    (hb : b c = .ok (v, t)) (h : castL conv b c = .ok (v', t')) : v'.length = v.length ∧ t' = t := by
  unfold castL at h; rw [hb] at h
  cases hm : mapE conv v with
  | error e => simp [hm] at h
  | ok w =>
    simp [hm] at h
    obtain ⟨rfl, rfl⟩ := h
    exact ⟨mapE_length conv v w hm, rfl⟩
/-- the constant backend ignores its coordinate; the identity backend returns it -/
theorem constant_def (v c : List Num) : constantB v c = .ok (v, []) := rfl
theorem identity_def (c : List Num) : identityB c = .ok (c, []) := rfl
theorem deref_def (b : Backend) (c : List Num) : derefL b c = b c := rfl
theorem clamp_def (lo hi : List Num) (b : Backend) (c : List Num) :
    clampL lo hi b c = b (zip3With clampNum lo hi c) := rfl

end Covfie.C02

namespace Covfie.C02
/-! ## The lookup of a stack is the composition of its layers' maps (each equation holds by definition) -/
theorem eval_clamp (cv : Conv) (b : Stack) (lo hi : List Num) (d : Data) :
    eval cv (.clamp b) (.box lo hi d) = clampL lo hi (eval cv b d) := rfl
theorem eval_backup (cv : Conv) (b : Stack) (lo hi df : List Num) (d : Data) :
    eval cv (.backup b) (.boxd lo hi df d) = backupL lo hi df (eval cv b d) := rfl
theorem eval_affine (cv : Conv) (b : Stack) (m : List (List Rat)) (d : Data) :
    eval cv (.affine b) (.aff m d) = affineL m (eval cv b d) := rfl
theorem eval_shuffle (cv : Conv) (p : List Nat) (b : Stack) (d : Data) :
    eval cv (.shuffle p b) (.thin d) = shuffleL p (eval cv b d) := rfl
theorem eval_cast (cv : Conv) (b : Stack) (d : Data) : eval cv (.cast b) (.thin d) = castL cv (eval cv b d) := rfl
theorem eval_deref (cv : Conv) (b : Stack) (d : Data) : eval cv (.deref b) (.thin d) = derefL (eval cv b d) := rfl
theorem eval_nn (cv : Conv) (b : Stack) (d : Data) : eval cv (.nn b) (.thin d) = nnL (eval cv b d) := rfl
theorem eval_linear (cv : Conv) (b : Stack) (d : Data) : eval cv (.linear b) (.thin d) = linearL (eval cv b d) := rfl
theorem eval_strided (cv : Conv) (w : Nat) (b : Stack) (sz : List Nat) (d : Data) :
    eval cv (.strided w b) (.sized sz d) = layoutL (stridedIdxW w sz) (eval cv b d) := rfl

/-- example: a depth-4 stack with N = 2 inputs and M = 3 outputs evaluates through every layer -/
def exStack : Stack := .clamp (.shuffle [1, 0] (.strided 64 .array))
def exData : Data := .box [.fin 0, .fin 0] [.fin 1, .fin 2]
  (.thin (.sized [3, 2] (.array ((List.range 6).map fun (i : Nat) => [Num.fin (i : Rat), Num.fin ((10 * i : Nat) : Rat), Num.fin ((100 * i : Nat) : Rat)]))))
#guard (eval (fun x => .ok x) exStack exData [.fin 7, .fin 2]) matches .ok ([.fin 5, .fin 50, .fin 500], [5])
end Covfie.C02
