import CovfieModel.Model.Stack
import CovfieModel.Model.StackConv
/-! # C02 — A stack's lookup is the composition of its layers' maps; a layer never depends on what lies beneath -/
namespace Covfie.C02

theorem mapE_congr {α β ε} (f g : α → Except ε β) (l : List α) (h : ∀ a ∈ l, f a = g a) : mapE f l = mapE g l := by
  induction l with
  | nil => rfl
  | cons a as ih =>
    simp only [mapE, h a List.mem_cons_self, ih (fun x hx => h x (List.mem_cons_of_mem _ hx))]

theorem mapE_length {α β ε} (f : α → Except ε β) (l : List α) (r : List β) (h : mapE f l = .ok r) : r.length = l.length := by
  induction l generalizing r with
  | nil => simp [mapE] at h; subst h; rfl
  | cons a as ih =>
    simp only [mapE] at h
    cases hf : f a with
    | error e => simp [hf] at h
    | ok b =>
      cases hm : mapE f as with
      | error e => simp [hf, hm] at h
      | ok bs => simp [hf, hm] at h; subst h; simp [ih bs hm]

/-! ## Locality: if two backends agree on the coordinates a layer queries, the layered lookups agree.
    Stated for an arbitrary function beneath — no assumption on which layers it is made of. -/
theorem clamp_local (lo hi : List Num) (b₁ b₂ : Backend) (c : List Num)
    (h : b₁ (zip3With clampNum lo hi c) = b₂ (zip3With clampNum lo hi c)) :
    clampL lo hi b₁ c = clampL lo hi b₂ c := h
theorem backup_local (lo hi df : List Num) (b₁ b₂ : Backend) (c : List Num)
    (h : outside lo hi c = false → b₁ c = b₂ c) : backupL lo hi df b₁ c = backupL lo hi df b₂ c := by
  unfold backupL; cases ho : outside lo hi c <;> simp [h, ho]
theorem shuffle_local (p : List Nat) (b₁ b₂ : Backend) (c : List Num)
    (h : b₁ (p.map fun i => c.getD i .nan) = b₂ (p.map fun i => c.getD i .nan)) :
    shuffleL p b₁ c = shuffleL p b₂ c := h
theorem cast_local (conv : Conv) (b₁ b₂ : Backend) (c : List Num) (h : b₁ c = b₂ c) :
    castL conv b₁ c = castL conv b₂ c := by unfold castL; rw [h]
theorem deref_local (b₁ b₂ : Backend) (c : List Num) (h : b₁ c = b₂ c) : derefL b₁ c = derefL b₂ c := h
theorem affine_local (m : List (List Rat)) (b₁ b₂ : Backend) (c : List Num)
    (h : ∀ x, mapO finOf c = some x → b₁ (m.map fun row => .fin (affineRow row x)) = b₂ (m.map fun row => .fin (affineRow row x))) :
    affineL m b₁ c = affineL m b₂ c := by
  unfold affineL; cases hx : mapO finOf c with
  | none => rfl
  | some x => exact h x hx
theorem nn_local (b₁ b₂ : Backend) (c : List Num) (h : ∀ nc, mapE lrintIdx c = .ok nc → b₁ nc = b₂ nc) :
    nnL b₁ c = nnL b₂ c := by
  unfold nnL; cases hx : mapE lrintIdx c with
  | error e => rfl
  | ok nc => exact h nc hx
theorem layout_local (idx : List Nat → Nat) (b₁ b₂ : Backend) (c : List Num)
    (h : ∀ cs, mapE natOf c = .ok cs → b₁ [.fin (idx cs : Nat)] = b₂ [.fin (idx cs : Nat)]) :
    layoutL idx b₁ c = layoutL idx b₂ c := by
  unfold layoutL; cases hx : mapE natOf c with
  | error e => rfl
  | ok cs => exact h cs hx
theorem linear_local (b₁ b₂ : Backend) (c : List Num)
    (h : ∀ parts bs, mapE truncIdx c = .ok parts → bs ∈ corners c.length →
      b₁ (addBits (parts.map (·.1)) bs) = b₂ (addBits (parts.map (·.1)) bs)) :
    linearL b₁ c = linearL b₂ c := by
  unfold linearL
  cases hp : mapE truncIdx c with
  | error e => rfl
  | ok parts =>
    simp only []
    rw [mapE_congr (cornerQuery b₁ (parts.map (·.1))) (cornerQuery b₂ (parts.map (·.1))) (corners c.length)
        (fun bs hbs => by simp only [cornerQuery, h parts bs hp hbs])]

/-! ## One-line definitions, for every input dimensionality N and output dimensionality M independently -/
/-- coordinate permutation: the backend is queried at `(c[p₀], c[p₁], …)` -/
theorem shuffle_def (p : List Nat) (b : Backend) (c : List Num) :
    shuffleL p b c = b (p.map fun i => c.getD i .nan) := rfl
/-- value cast: every one of the M output components is converted, whatever N is -/
theorem cast_def (conv : Conv) (b : Backend) (c v v' : List Num) (t : List Nat)
    (hb : b c = .ok (v, t)) (hc : mapE conv v = .ok v') : castL conv b c = .ok (v', t) := by
  simp [castL, hb, hc]
theorem cast_length (conv : Conv) (b : Backend) (c v v' : List Num) (t t' : List Nat)
    (hb : b c = .ok (v, t)) (h : castL conv b c = .ok (v', t')) : v'.length = v.length ∧ t' = t := by
  unfold castL at h; rw [hb] at h
  cases hm : mapE conv v with
  | error e => simp [hm] at h
  | ok w =>
    simp [hm] at h
    obtain ⟨rfl, rfl⟩ := h
    exact ⟨mapE_length conv v w hm, rfl⟩
/-- the constant backend ignores its coordinate; the identity backend returns it -/
theorem constant_def (v c : List Num) : constantB v c = .ok (v, []) := rfl
theorem identity_def (c : List Num) : identityB c = .ok (c, []) := rfl
theorem deref_def (b : Backend) (c : List Num) : derefL b c = b c := rfl
theorem clamp_def (lo hi : List Num) (b : Backend) (c : List Num) :
    clampL lo hi b c = b (zip3With clampNum lo hi c) := rfl

end Covfie.C02

namespace Covfie.C02
/-! ## The lookup of a stack is the composition of its layers' maps (each equation holds by definition) -/
theorem eval_clamp (cv : Conv) (b : Stack) (lo hi : List Num) (d : Data) :
    eval cv (.clamp b) (.box lo hi d) = clampL lo hi (eval cv b d) := rfl
theorem eval_backup (cv : Conv) (b : Stack) (lo hi df : List Num) (d : Data) :
    eval cv (.backup b) (.boxd lo hi df d) = backupL lo hi df (eval cv b d) := rfl
theorem eval_affine (cv : Conv) (b : Stack) (m : List (List Rat)) (d : Data) :
    eval cv (.affine b) (.aff m d) = affineL m (eval cv b d) := rfl
theorem eval_shuffle (cv : Conv) (p : List Nat) (b : Stack) (d : Data) :
    eval cv (.shuffle p b) (.thin d) = shuffleL p (eval cv b d) := rfl
theorem eval_cast (cv : Conv) (b : Stack) (d : Data) : eval cv (.cast b) (.thin d) = castL cv (eval cv b d) := rfl
theorem eval_deref (cv : Conv) (b : Stack) (d : Data) : eval cv (.deref b) (.thin d) = derefL (eval cv b d) := rfl
theorem eval_nn (cv : Conv) (b : Stack) (d : Data) : eval cv (.nn b) (.thin d) = nnL (eval cv b d) := rfl
theorem eval_linear (cv : Conv) (b : Stack) (d : Data) : eval cv (.linear b) (.thin d) = linearL (eval cv b d) := rfl
theorem eval_strided (cv : Conv) (w : Nat) (b : Stack) (sz : List Nat) (d : Data) :
    eval cv (.strided w b) (.sized sz d) = layoutL (stridedIdxW w sz) (eval cv b d) := rfl

/-- example: a depth-4 stack with N = 2 inputs and M = 3 outputs evaluates through every layer -/
def exStack : Stack := .clamp (.shuffle [1, 0] (.strided 64 .array))
def exData : Data := .box [.fin 0, .fin 0] [.fin 1, .fin 2]
  (.thin (.sized [3, 2] (.array ((List.range 6).map fun (i : Nat) => [Num.fin (i : Rat), Num.fin ((10 * i : Nat) : Rat), Num.fin ((100 * i : Nat) : Rat)]))))
#guard (eval (fun x => .ok x) exStack exData [.fin 7, .fin 2]) matches .ok ([.fin 5, .fin 50, .fin 500], [5])
end Covfie.C02

/-! ## One conversion per cast layer (what the correspondence driver evaluates) -/
namespace Covfie.C02

/-- threading one conversion per cast layer specialises to `eval` when all conversions are the same -/
theorem evalN_const (cv : Conv) (s : Stack) : ∀ (k : Nat) (d : Data), evalN (fun _ => cv) k s d = eval cv s d := by
  induction s with
  | array => intro k d; cases d <;> rfl
  | constant => intro k d; cases d <;> rfl
  | identity => intro k d; cases d <;> rfl
  | strided w b ih => intro k d; cases d <;> simp [evalN, eval, ih]
  | mortonT b ih => intro k d; cases d <;> simp [evalN, eval, ih]
  | mortonF b ih => intro k d; cases d <;> simp [evalN, eval, ih]
  | hilbert b ih => intro k d; cases d <;> simp [evalN, eval, ih]
  | clamp b ih => intro k d; cases d <;> simp [evalN, eval, ih]
  | backup b ih => intro k d; cases d <;> simp [evalN, eval, ih]
  | affine b ih => intro k d; cases d <;> simp [evalN, eval, ih]
  | shuffle p b ih => intro k d; cases d <;> simp [evalN, eval, ih]
  | cast b ih => intro k d; cases d <;> simp [evalN, eval, ih]
  | deref b ih => intro k d; cases d <;> simp [evalN, eval, ih]
  | nn b ih => intro k d; cases d <;> simp [evalN, eval, ih]
  | linear b ih => intro k d; cases d <;> simp [evalN, eval, ih]

/-- each cast layer converts with its own conversion, whatever lies beneath -/
theorem evalN_cast (cv : Nat → Conv) (k : Nat) (b : Stack) (d : Data) :
    evalN cv k (.cast b) (.thin d) = castL (cv k) (evalN cv (k + 1) b d) := rfl

end Covfie.C02

/-! ## Kind soundness, dimensional part: N inputs, M outputs, independently -/
namespace Covfie.C02

/-- dimensions of a stack over its data: `N` input components, `M` output components (the dimensional part of the
    kind rules: a storage order feeds one flat index to what lies beneath, boxes have `N` components, a default has `M`) -/
def Dims : Stack → Data → Nat → Nat → Prop
  | .array, .array cells, N, M => N = 1 ∧ ∀ v ∈ cells, v.length = M
  | .constant, .constant v, _, M => v.length = M
  | .identity, .identity, N, M => N = M
  | .strided _ b, .sized _ d, _, M => Dims b d 1 M
  | .mortonT b, .sized _ d, _, M => Dims b d 1 M
  | .mortonF b, .sized _ d, _, M => Dims b d 1 M
  | .hilbert b, .sized _ d, _, M => Dims b d 1 M
  | .clamp b, .box lo hi d, N, M => lo.length = N ∧ hi.length = N ∧ Dims b d N M
  | .backup b, .boxd _ _ df d, N, M => df.length = M ∧ Dims b d N M
  | .affine b, .aff m d, N, M => m.length = N ∧ Dims b d N M
  | .shuffle p b, .thin d, N, M => p.length = N ∧ Dims b d N M
  | .cast b, .thin d, N, M => Dims b d N M
  | .deref b, .thin d, N, M => Dims b d N M
  | .nn b, .thin d, N, M => Dims b d N M
  | .linear b, .thin d, N, M => Dims b d N M
  | _, _, _, _ => False

theorem zip3With_length {α β γ δ} (f : α → β → γ → δ) (as : List α) (bs : List β) (cs : List γ) (n : Nat)
    (ha : as.length = n) (hb : bs.length = n) (hc : cs.length = n) : (zip3With f as bs cs).length = n := by
  induction as generalizing bs cs n with
  | nil => simp at ha; subst ha; rfl
  | cons a as ih =>
    cases bs with
    | nil => simp at hb ha; omega
    | cons b bs =>
      cases cs with
      | nil => simp at hc ha; omega
      | cons c cs =>
        cases n with
        | zero => simp at ha
        | succ n => simp [zip3With]; exact ih bs cs n (by simpa using ha) (by simpa using hb) (by simpa using hc)

theorem corners_length (n : Nat) : ∀ bs ∈ corners n, bs.length = n := by
  induction n with
  | zero => intro bs h; simp [corners] at h; subst h; rfl
  | succ n ih =>
    intro bs h
    simp only [corners, List.mem_flatMap] at h
    obtain ⟨b, hb, h⟩ := h
    simp at h
    rcases h with rfl | rfl <;> simp [ih b hb]

theorem corners_ne_nil (n : Nat) : corners n ≠ [] := by
  induction n with
  | zero => simp [corners]
  | succ n ih =>
    cases h : corners n with
    | nil => exact absurd h ih
    | cons a as => simp [corners, h]

theorem addBits_length (is : List Nat) (bs : List Bool) (n : Nat) (h1 : is.length = n) (h2 : bs.length = n) :
    (addBits is bs).length = n := by
  simp [addBits, h1, h2]

theorem mapE_mem {α β ε} (f : α → Except ε β) (l : List α) (r : List β) (h : mapE f l = .ok r) :
    ∀ b ∈ r, ∃ a ∈ l, f a = .ok b := by
  induction l generalizing r with
  | nil => simp [mapE] at h; subst h; simp
  | cons a as ih =>
    simp only [mapE] at h
    cases hf : f a with
    | error e => simp [hf] at h
    | ok b0 =>
      cases hm : mapE f as with
      | error e => simp [hf, hm] at h
      | ok bs =>
        simp [hf, hm] at h; subst h
        intro b hb
        simp at hb
        rcases hb with rfl | hb
        · exact ⟨a, List.mem_cons_self, hf⟩
        · obtain ⟨a', ha', hfa'⟩ := ih bs hm b hb
          exact ⟨a', List.mem_cons_of_mem _ ha', hfa'⟩

/-- kind soundness, dimensional part: a successful lookup with `N` coordinate components returns `M` value components,
    for every `N` and `M` independently -/
theorem eval_length (cv : Conv) (s : Stack) : ∀ (d : Data) (N M : Nat) (c v : List Num) (t : List Nat),
    Dims s d N M → c.length = N → eval cv s d c = .ok (v, t) → v.length = M := by
  induction s with
  | array =>
    intro d N M c v t hd hc h
    cases d <;> simp only [Dims] at hd
    rename_i cells
    simp only [eval, arrayB] at h
    split at h <;> try (simp at h)
    rename_i q
    split at h <;> try (simp at h)
    split at h <;> try (simp at h)
    rename_i v' hv'
    obtain ⟨rfl, _⟩ := h
    exact hd.2 _ (List.mem_of_getElem? hv')
  | constant =>
    intro d N M c v t hd hc h
    cases d <;> simp only [Dims] at hd
    simp [eval, constantB] at h
    obtain ⟨rfl, _⟩ := h; exact hd
  | identity =>
    intro d N M c v t hd hc h
    cases d <;> simp only [Dims] at hd
    simp [eval, identityB] at h
    obtain ⟨rfl, _⟩ := h; omega
  | strided w b ih =>
    intro d N M c v t hd hc h
    cases d <;> simp only [Dims] at hd
    simp only [eval, layoutL] at h
    split at h <;> try (simp at h)
    exact ih _ 1 M _ v t hd rfl h
  | mortonT b ih =>
    intro d N M c v t hd hc h
    cases d <;> simp only [Dims] at hd
    simp only [eval, layoutL] at h
    split at h <;> try (simp at h)
    exact ih _ 1 M _ v t hd rfl h
  | mortonF b ih =>
    intro d N M c v t hd hc h
    cases d <;> simp only [Dims] at hd
    simp only [eval, layoutL] at h
    split at h <;> try (simp at h)
    exact ih _ 1 M _ v t hd rfl h
  | hilbert b ih =>
    intro d N M c v t hd hc h
    cases d <;> simp only [Dims] at hd
    simp only [eval, layoutL] at h
    split at h <;> try (simp at h)
    exact ih _ 1 M _ v t hd rfl h
  | clamp b ih =>
    intro d N M c v t hd hc h
    cases d <;> simp only [Dims] at hd
    simp only [eval, clampL] at h
    exact ih _ N M _ v t hd.2.2 (zip3With_length _ _ _ _ N hd.1 hd.2.1 hc) h
  | backup b ih =>
    intro d N M c v t hd hc h
    cases d <;> simp only [Dims] at hd
    simp only [eval, backupL] at h
    split at h
    · simp at h; obtain ⟨rfl, _⟩ := h; exact hd.1
    · exact ih _ N M c v t hd.2 hc h
  | affine b ih =>
    intro d N M c v t hd hc h
    cases d <;> simp only [Dims] at hd
    simp only [eval, affineL] at h
    split at h <;> try (simp at h)
    exact ih _ N M _ v t hd.2 (by simp [hd.1]) h
  | shuffle p b ih =>
    intro d N M c v t hd hc h
    cases d <;> simp only [Dims] at hd
    simp only [eval, shuffleL] at h
    exact ih _ N M _ v t hd.2 (by simp [hd.1]) h
  | cast b ih =>
    intro d N M c v t hd hc h
    cases d <;> simp only [Dims] at hd
    rename_i d
    have h' : castL cv (eval cv b d) c = .ok (v, t) := h
    cases hb : eval cv b d c with
    | error e => simp [castL, hb] at h'
    | ok r =>
      obtain ⟨v0, t0⟩ := r
      obtain ⟨hl, _⟩ := cast_length cv _ c v0 v t0 t hb h'
      rw [hl]; exact ih _ N M c v0 t0 hd hc hb
  | deref b ih =>
    intro d N M c v t hd hc h
    cases d <;> simp only [Dims] at hd
    simp only [eval, derefL] at h
    exact ih _ N M c v t hd hc h
  | nn b ih =>
    intro d N M c v t hd hc h
    cases d <;> simp only [Dims] at hd
    simp only [eval, nnL] at h
    split at h <;> try (simp at h)
    rename_i nc hnc
    exact ih _ N M nc v t hd (by rw [mapE_length _ _ _ hnc]; exact hc) h
  | linear b ih =>
    intro d N M c v t hd hc h
    cases d <;> simp only [Dims] at hd
    rename_i d
    simp only [eval, linearL] at h
    split at h <;> try (simp at h)
    rename_i parts hparts
    split at h <;> try (simp at h)
    rename_i rs hrs
    obtain ⟨rfl, _⟩ := h
    simp only [List.length_map, List.length_range]
    -- the first corner query succeeded with `M` components
    have hlen : rs.length = (corners c.length).length := mapE_length _ _ _ hrs
    cases hrs' : rs with
    | nil =>
      rw [hrs'] at hlen
      exact absurd (List.eq_nil_of_length_eq_zero hlen.symm) (corners_ne_nil _)
    | cons r0 rest =>
      simp only [List.head?_cons, Option.map_some, Option.getD_some]
      obtain ⟨bs, hbs, hq⟩ := mapE_mem _ _ _ hrs r0 (by rw [hrs']; exact List.mem_cons_self)
      simp only [cornerQuery] at hq
      split at hq <;> try (simp at hq)
      rename_i r hr
      subst hq
      obtain ⟨v0, t0⟩ := r
      refine ih d N M _ v0 t0 hd ?_ hr
      apply addBits_length
      · simp [mapE_length _ _ _ hparts, hc]
      · rw [corners_length _ bs hbs]; exact hc

end Covfie.C02
