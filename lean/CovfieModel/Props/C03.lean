import CovfieModel.Model.Interp
import CovfieModel.Model.Stack
import CovfieModel.Model.NdMap
import Mathlib.Tactic.Ring
import Mathlib.Tactic.Linarith
import Mathlib.Algebra.BigOperators.Intervals
import Mathlib.Algebra.BigOperators.Ring.Finset
import Mathlib.Algebra.Order.Field.Basic
/-! # C03 — Linear interpolation is the N-linear interpolant (exact arithmetic; rounding is carried by the correspondence bound) -/
namespace Covfie.C03

section ring
variable {α : Type} [CommRing α]

theorem foldl_range_eq_sum (K : Nat) (g : Nat → α) :
    (List.range K).foldl (fun acc n => acc + g n) 0 = ∑ n ∈ Finset.range K, g n := by
  induction K with
  | zero => simp
  | succ K ih => rw [List.range_succ, List.foldl_append, ih, Finset.sum_range_succ]; simp

theorem sum_range_double (K : Nat) (g : Nat → α) :
    ∑ n ∈ Finset.range (2 * K), g n = ∑ m ∈ Finset.range K, (g (2 * m) + g (2 * m + 1)) := by
  induction K with
  | zero => simp
  | succ K ih =>
    rw [show 2 * (K + 1) = 2 * K + 1 + 1 by ring, Finset.sum_range_succ, Finset.sum_range_succ, ih, Finset.sum_range_succ]
    ring

/-- the generic 2^N branch computes the N-linear interpolant of the 2^N surrounding lattice values -/
theorem generic_eq_nlin (as : List α) (v : List Bool → α) : linGeneric as v = nlin as v := by
  unfold linGeneric
  rw [foldl_range_eq_sum]
  induction as generalizing v with
  | nil => simp [weight, bitsOf, nlin]
  | cons a as ih =>
    simp only [List.length_cons, nlin]
    rw [show 2 ^ (as.length + 1) = 2 * 2 ^ as.length by ring, sum_range_double]
    have e0 : ∀ m, (2 * m) % 2 = 0 := fun m => by omega
    have e1 : ∀ m, (2 * m + 1) % 2 = 1 := fun m => by omega
    have d0 : ∀ m, (2 * m) / 2 = m := fun m => by omega
    have d1 : ∀ m, (2 * m + 1) / 2 = m := fun m => by omega
    simp only [weight, bitsOf, e0, e1, d0, d1]
    simp only [show ((0:Nat) == 1) = false from rfl, show ((1:Nat) == 1) = true from rfl, if_true, Bool.false_eq_true, if_false]
    rw [Finset.sum_add_distrib, ← ih, ← ih]
    simp only [Finset.mul_sum, mul_assoc]

/-- the dimension-specialised branches compute the same interpolant -/
theorem branch1_eq_nlin (a : α) (v : List Bool → α) : lin1 a v = nlin [a] v := by simp [lin1, nlin]
theorem branch2_eq_nlin (a b : α) (v : List Bool → α) : lin2 a b v = nlin [a, b] v := by simp [lin2, nlin]; ring
theorem branch3_eq_nlin (a b c : α) (v : List Bool → α) : lin3 a b c v = nlin [a, b, c] v := by simp [lin3, nlin]; ring

/-- at a lattice point (all fractional parts 0) the stored value is returned -/
theorem nlin_at_lattice (as : List α) (v : List Bool → α) (h : ∀ a ∈ as, a = 0) :
    nlin as v = v (as.map fun _ => false) := by
  induction as generalizing v with
  | nil => rfl
  | cons a as ih =>
    have ha : a = 0 := h a List.mem_cons_self
    simp only [nlin, ha, sub_zero, one_mul, zero_mul, add_zero, List.map_cons]
    exact ih _ (fun x hx => h x (List.mem_cons_of_mem _ hx))

/-- at a corner of the cell (fractional parts 0 or 1) the corresponding corner value is returned -/
theorem nlin_at_corner (bs : List Bool) (v : List Bool → α) :
    nlin (bs.map fun b => if b then (1 : α) else 0) v = v bs := by
  induction bs generalizing v with
  | nil => rfl
  | cons b bs ih => cases b <;> simp [nlin, ih]
end ring

/-- the interpolant never leaves the range spanned by the surrounding lattice values -/
theorem nlin_hull (as : List ℚ) (v : List Bool → ℚ) (lo hi : ℚ)
    (ha : ∀ a ∈ as, 0 ≤ a ∧ a ≤ 1) (hv : ∀ bs, lo ≤ v bs ∧ v bs ≤ hi) :
    lo ≤ nlin as v ∧ nlin as v ≤ hi := by
  induction as generalizing v with
  | nil => exact hv []
  | cons a as ih =>
    have h0 := ih (fun bs => v (false :: bs)) (fun x hx => ha x (List.mem_cons_of_mem _ hx)) (fun bs => hv _)
    have h1 := ih (fun bs => v (true :: bs)) (fun x hx => ha x (List.mem_cons_of_mem _ hx)) (fun bs => hv _)
    have ⟨a0, a1⟩ := ha a (List.mem_cons_self)
    simp only [nlin]
    constructor <;> nlinarith [h0.1, h0.2, h1.1, h1.2]

example : nlin [(1/4 : ℚ), 1/2] (fun bs => match bs with
    | [false,false] => 12 | [false,true] => 19 | [true,false] => 22 | _ => 29) = 18 := by norm_num [nlin]
end Covfie.C03

namespace Covfie.C03
open Covfie
/-- for `0 ≤ x_k < extent_k − 1` (integer part `i_k` with `i_k + 1 < extent_k`) all `2^N` neighbour coordinates
    `i + bits` lie inside the grid — so, with C01, the interpolator reads only inside the storage -/
theorem neighbours_in_box (sz is : List Nat) (bs : List Bool) (h : InBox sz (is.map (· + 1)))
    (hl : bs.length = is.length) :
    InBox sz (List.zipWith (fun i b => i + (if b then 1 else 0)) is bs) := by
  induction sz generalizing is bs with
  | nil => cases is <;> simp_all [InBox]
  | cons s ss ih =>
    cases is with
    | nil => simp [InBox] at h
    | cons i is' =>
      cases bs with
      | nil => simp at hl
      | cons b bs' =>
        simp only [List.map_cons, InBox] at h
        simp only [List.zipWith_cons_cons, InBox]
        refine ⟨?_, ih is' bs' h.2 (by simpa using hl)⟩
        cases b <;> simp <;> omega

/-- there are exactly `2^N` neighbours -/
theorem corners_length (N : Nat) : (corners N).length = 2^N := by
  induction N with
  | zero => rfl
  | succ n ih => simp [corners, List.length_flatMap, ih, Nat.pow_succ]
end Covfie.C03

/-! ### `lin_weights`: the weights are per-axis products, non-negative on [0,1]^N, and sum to one -/
namespace Covfie.C03
section ring
variable {α : Type} [CommRing α]

theorem nlin_const (as : List α) (c : α) : nlin as (fun _ => c) = c := by
  induction as with
  | nil => rfl
  | cons a as ih => simp only [nlin, ih]; ring

/-- the interpolant is the weighted sum of the 2^N surrounding values, the weight of neighbour `n` being the product over
    the axes of `a_k` (bit k of n set) or `1 − a_k` (bit k clear) -/
theorem nlin_eq_weighted_sum (as : List α) (v : List Bool → α) :
    nlin as v = ∑ n ∈ Finset.range (2 ^ as.length), weight as n * v (bitsOf as.length n) := by
  rw [← generic_eq_nlin, linGeneric, foldl_range_eq_sum]

/-- the weights sum to one -/
theorem weight_sum (as : List α) : ∑ n ∈ Finset.range (2 ^ as.length), weight as n = 1 := by
  have h := nlin_eq_weighted_sum as (fun _ => (1 : α))
  rw [nlin_const] at h
  simpa using h.symm
end ring

/-- for fractional parts in [0,1] every weight is non-negative -/
theorem weight_nonneg (as : List ℚ) (h : ∀ a ∈ as, 0 ≤ a ∧ a ≤ 1) (n : Nat) : 0 ≤ weight as n := by
  induction as generalizing n with
  | nil => simp [weight]
  | cons a as ih =>
    have ⟨a0, a1⟩ := h a List.mem_cons_self
    have hr := ih (fun x hx => h x (List.mem_cons_of_mem _ hx)) (n / 2)
    simp only [weight]
    split_ifs
    · exact mul_nonneg a0 hr
    · exact mul_nonneg (by linarith) hr
end Covfie.C03
