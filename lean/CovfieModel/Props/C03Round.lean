import CovfieModel.Props.C03
import Mathlib.Tactic.Linarith
import Mathlib.Tactic.Ring
import Mathlib.Tactic.Positivity
import Mathlib.Algebra.Order.AbsoluteValue.Basic
/-! # C03 — "up to floating-point rounding", proved under the standard model of floating-point arithmetic

The code-shaped sums `lin1`, `lin2`, `lin3` (and `linGeneric`) of `Model/Interp.lean` are polymorphic in the scalar.
Instantiated at `Fl rnd` — rationals whose `+`, `−`, `*` apply a rounding function `rnd` after every operation — they are the
floating-point evaluation of `linear.hpp`'s expressions, operation for operation (`ra = 1 − a` rounded once,
`ra * rb * pc[0] + ra * b * pc[1] + …` left to right).  Under the standard model

    StdModel u rnd :  0 ≤ u  ∧  ∀ x, |rnd x − x| ≤ u·|x|            (no underflow, no overflow)

every such expression `e` satisfies  `|fl(e) − e| ≤ ((1+u)^cnt(e) − 1) · mag(e)`  (`eval_bound`), where `cnt` counts the
roundings along the deepest path and `mag` is the expression with every literal replaced by its absolute value.  For the
interpolator `mag = Σ_n |w_n v_n| = nlinAbs`, and `cnt` is 3 / 7 / 13 for the 1-, 2-, 3-D branch and at most `2N + 2^N + 1` for the generic branch — always below
the `k = 2N + 2^N + 3` the judge of the correspondence check uses (`lin1_round`, `lin2_round`, `lin3_round`,
`linGeneric_round`, and `linGenericC_round` for the weight product associated exactly as in the code).  `gamma_bound`
is the textbook `(1+u)^k − 1 ≤ k·u / (1 − k·u)`: the judge's `γ_k · nlinAbs` therefore dominates the proved bound.

Partial: the subnormal range (where the relative-error model fails and the judge adds `k · tiny · max(1, Σ|v|)`), the two
precision conversions around the sum (two more roundings: hence the `+ 3` of the judge) and the generic branch's
accumulation in the *value* type when that is narrower than the coordinate type are argued, and checked by the
correspondence, not proved here. -/
namespace Covfie.C03
open Covfie

/-- rationals with an arithmetic that rounds after every operation -/
structure Fl (rnd : ℚ → ℚ) where
  val : ℚ

instance (rnd : ℚ → ℚ) : Add (Fl rnd) := ⟨fun x y => ⟨rnd (x.val + y.val)⟩⟩
instance (rnd : ℚ → ℚ) : Sub (Fl rnd) := ⟨fun x y => ⟨rnd (x.val - y.val)⟩⟩
instance (rnd : ℚ → ℚ) : Mul (Fl rnd) := ⟨fun x y => ⟨rnd (x.val * y.val)⟩⟩
instance (rnd : ℚ → ℚ) : OfNat (Fl rnd) 1 := ⟨⟨1⟩⟩
instance (rnd : ℚ → ℚ) : OfNat (Fl rnd) 0 := ⟨⟨0⟩⟩

/-- the standard model of floating-point arithmetic (relative error `u` per operation) -/
def StdModel (u : ℚ) (rnd : ℚ → ℚ) : Prop := 0 ≤ u ∧ ∀ x, |rnd x - x| ≤ u * |x|

/-- accumulated relative error of `j` roundings -/
def g (u : ℚ) (j : ℕ) : ℚ := (1 + u) ^ j - 1

theorem g_nonneg (u : ℚ) (hu : 0 ≤ u) (j : ℕ) : 0 ≤ g u j := by
  unfold g
  have : (1 : ℚ) ≤ (1 + u) ^ j := one_le_pow₀ (by linarith)
  linarith

theorem g_mono (u : ℚ) (hu : 0 ≤ u) {i j : ℕ} (h : i ≤ j) : g u i ≤ g u j := by
  unfold g
  have : (1 + u) ^ i ≤ (1 + u) ^ j := pow_le_pow_right₀ (by linarith) h
  linarith

theorem g_succ (u : ℚ) (j : ℕ) : g u (j + 1) = g u j + u * (1 + g u j) := by
  unfold g; ring

theorem g_add (u : ℚ) (i j : ℕ) : g u (i + j) = g u i + g u j + g u i * g u j := by
  unfold g; ring

/-- arithmetic expressions over exact literals -/
inductive Ex
  | lit (q : ℚ)
  | oneMinus (q : ℚ)
  | mul (a b : Ex)
  | add (a b : Ex)

namespace Ex
def exact : Ex → ℚ
  | lit q => q
  | oneMinus q => 1 - q
  | mul a b => a.exact * b.exact
  | add a b => a.exact + b.exact
/-- evaluation with a rounding after every operation -/
def fl (rnd : ℚ → ℚ) : Ex → ℚ
  | lit q => q
  | oneMinus q => rnd (1 - q)
  | mul a b => rnd (a.fl rnd * b.fl rnd)
  | add a b => rnd (a.fl rnd + b.fl rnd)
/-- the expression with every literal replaced by its magnitude -/
def mag : Ex → ℚ
  | lit q => |q|
  | oneMinus q => |1 - q|
  | mul a b => a.mag * b.mag
  | add a b => a.mag + b.mag
/-- roundings along the deepest path -/
def cnt : Ex → ℕ
  | lit _ => 0
  | oneMinus _ => 1
  | mul a b => a.cnt + b.cnt + 1
  | add a b => max a.cnt b.cnt + 1
end Ex

theorem mag_nonneg (e : Ex) : 0 ≤ e.mag := by
  induction e with
  | lit q => exact abs_nonneg q
  | oneMinus q => exact abs_nonneg _
  | mul a b iha ihb => exact mul_nonneg iha ihb
  | add a b iha ihb => exact add_nonneg iha ihb

/-- one more rounding: an absolute error `e·S` on a quantity bounded by `S` becomes `(e + u(1+e))·S` -/
theorem round_step (u : ℚ) (rnd : ℚ → ℚ) (h : StdModel u rnd) (x y S e : ℚ) (_he : 0 ≤ e)
    (hxy : |y - x| ≤ e * S) (hx : |x| ≤ S) : |rnd y - x| ≤ (e + u * (1 + e)) * S := by
  obtain ⟨hu, hr⟩ := h
  have hS : 0 ≤ S := le_trans (abs_nonneg x) hx
  have hy : |y| ≤ (1 + e) * S := by
    have : |y| ≤ |y - x| + |x| := by
      have := abs_add_le (y - x) x
      simpa using this
    nlinarith
  have h1 : |rnd y - x| ≤ |rnd y - y| + |y - x| := by
    have := abs_add_le (rnd y - y) (y - x)
    simpa using this
  have h2 : |rnd y - y| ≤ u * ((1 + e) * S) := le_trans (hr y) (mul_le_mul_of_nonneg_left hy hu)
  nlinarith

/-- **forward error of any expression under the standard model** -/
theorem eval_bound (u : ℚ) (rnd : ℚ → ℚ) (h : StdModel u rnd) (e : Ex) :
    |e.fl rnd - e.exact| ≤ g u e.cnt * e.mag ∧ |e.exact| ≤ e.mag := by
  have hu := h.1
  induction e with
  | lit q => simp [Ex.fl, Ex.exact, Ex.mag, Ex.cnt, g]
  | oneMinus q =>
    refine ⟨?_, le_refl _⟩
    have := h.2 (1 - q)
    simpa [Ex.fl, Ex.exact, Ex.mag, Ex.cnt, g] using this
  | mul a b iha ihb =>
    obtain ⟨ha, hax⟩ := iha
    obtain ⟨hb, hbx⟩ := ihb
    have hSa := mag_nonneg a
    have hSb := mag_nonneg b
    have hga := g_nonneg u hu a.cnt
    have hgb := g_nonneg u hu b.cnt
    have hprod : |a.exact * b.exact| ≤ a.mag * b.mag := by
      rw [abs_mul]; exact mul_le_mul hax hbx (abs_nonneg _) hSa
    refine ⟨?_, hprod⟩
    -- error of the unrounded product
    have hmul : |a.fl rnd * b.fl rnd - a.exact * b.exact| ≤ g u (a.cnt + b.cnt) * (a.mag * b.mag) := by
      have e1 : a.fl rnd * b.fl rnd - a.exact * b.exact =
          (a.fl rnd - a.exact) * b.exact + a.exact * (b.fl rnd - b.exact) + (a.fl rnd - a.exact) * (b.fl rnd - b.exact) := by ring
      rw [e1, g_add]
      have t1 : |(a.fl rnd - a.exact) * b.exact| ≤ (g u a.cnt * a.mag) * b.mag := by
        rw [abs_mul]; exact mul_le_mul ha hbx (abs_nonneg _) (mul_nonneg hga hSa)
      have t2 : |a.exact * (b.fl rnd - b.exact)| ≤ a.mag * (g u b.cnt * b.mag) := by
        rw [abs_mul]; exact mul_le_mul hax hb (abs_nonneg _) hSa
      have t3 : |(a.fl rnd - a.exact) * (b.fl rnd - b.exact)| ≤ (g u a.cnt * a.mag) * (g u b.cnt * b.mag) := by
        rw [abs_mul]; exact mul_le_mul ha hb (abs_nonneg _) (mul_nonneg hga hSa)
      have := abs_add_le ((a.fl rnd - a.exact) * b.exact + a.exact * (b.fl rnd - b.exact))
        ((a.fl rnd - a.exact) * (b.fl rnd - b.exact))
      have := abs_add_le ((a.fl rnd - a.exact) * b.exact) (a.exact * (b.fl rnd - b.exact))
      nlinarith
    have := round_step u rnd h (a.exact * b.exact) (a.fl rnd * b.fl rnd) (a.mag * b.mag) (g u (a.cnt + b.cnt))
      (g_nonneg u hu _) hmul hprod
    simp only [Ex.fl, Ex.exact, Ex.mag, Ex.cnt]
    rw [g_succ]
    exact this
  | add a b iha ihb =>
    obtain ⟨ha, hax⟩ := iha
    obtain ⟨hb, hbx⟩ := ihb
    have hSa := mag_nonneg a
    have hSb := mag_nonneg b
    have hsum : |a.exact + b.exact| ≤ a.mag + b.mag := le_trans (abs_add_le _ _) (add_le_add hax hbx)
    refine ⟨?_, hsum⟩
    have hm := g_nonneg u hu (max a.cnt b.cnt)
    have hadd : |a.fl rnd + b.fl rnd - (a.exact + b.exact)| ≤ g u (max a.cnt b.cnt) * (a.mag + b.mag) := by
      have e1 : a.fl rnd + b.fl rnd - (a.exact + b.exact) = (a.fl rnd - a.exact) + (b.fl rnd - b.exact) := by ring
      rw [e1]
      have ga := g_mono u hu (le_max_left a.cnt b.cnt)
      have gb := g_mono u hu (le_max_right a.cnt b.cnt)
      have := abs_add_le (a.fl rnd - a.exact) (b.fl rnd - b.exact)
      have ta : g u a.cnt * a.mag ≤ g u (max a.cnt b.cnt) * a.mag := mul_le_mul_of_nonneg_right ga hSa
      have tb : g u b.cnt * b.mag ≤ g u (max a.cnt b.cnt) * b.mag := mul_le_mul_of_nonneg_right gb hSb
      nlinarith
    have := round_step u rnd h (a.exact + b.exact) (a.fl rnd + b.fl rnd) (a.mag + b.mag) (g u (max a.cnt b.cnt)) hm hadd hsum
    simp only [Ex.fl, Ex.exact, Ex.mag, Ex.cnt]
    rw [g_succ]
    exact this

theorem rabs_eq_abs (q : ℚ) : rabs q = |q| := by
  unfold rabs
  split
  · rw [abs_of_neg (by assumption)]
  · rw [abs_of_nonneg (by linarith)]

/-! ### the branches of `linear.hpp` -/
def inj (rnd : ℚ → ℚ) (v : List Bool → ℚ) : List Bool → Fl rnd := fun bs => ⟨v bs⟩

open Ex in
/-- 1-D: `ra * pc[0] + a * pc[1]` -/
def ex1 (a : ℚ) (v : List Bool → ℚ) : Ex :=
  add (mul (oneMinus a) (lit (v [false]))) (mul (lit a) (lit (v [true])))

theorem lin1_round (u : ℚ) (rnd : ℚ → ℚ) (h : StdModel u rnd) (a : ℚ) (v : List Bool → ℚ) :
    |(lin1 (⟨a⟩ : Fl rnd) (inj rnd v)).val - nlin [a] v| ≤ g u 3 * nlinAbs [a] v := by
  have hb := (eval_bound u rnd h (ex1 a v)).1
  have e1 : (ex1 a v).fl rnd = (lin1 (⟨a⟩ : Fl rnd) (inj rnd v)).val := rfl
  have e2 : (ex1 a v).exact = nlin [a] v := by simp [ex1, Ex.exact, nlin]
  have e3 : (ex1 a v).mag = nlinAbs [a] v := by simp [ex1, Ex.mag, nlinAbs, rabs_eq_abs]
  have e4 : (ex1 a v).cnt = 3 := by simp [ex1, Ex.cnt]
  rw [e1, e2, e3, e4] at hb
  exact hb

open Ex in
/-- 2-D: `ra*rb*pc[0] + ra*b*pc[1] + a*rb*pc[2] + a*b*pc[3]`, left to right -/
def ex2 (a b : ℚ) (v : List Bool → ℚ) : Ex :=
  add (add (add (mul (mul (oneMinus a) (oneMinus b)) (lit (v [false, false])))
                (mul (mul (oneMinus a) (lit b)) (lit (v [false, true]))))
           (mul (mul (lit a) (oneMinus b)) (lit (v [true, false]))))
      (mul (mul (lit a) (lit b)) (lit (v [true, true])))

theorem lin2_round (u : ℚ) (rnd : ℚ → ℚ) (h : StdModel u rnd) (a b : ℚ) (v : List Bool → ℚ) :
    |(lin2 (⟨a⟩ : Fl rnd) ⟨b⟩ (inj rnd v)).val - nlin [a, b] v| ≤ g u 7 * nlinAbs [a, b] v := by
  have hb := (eval_bound u rnd h (ex2 a b v)).1
  have e1 : (ex2 a b v).fl rnd = (lin2 (⟨a⟩ : Fl rnd) ⟨b⟩ (inj rnd v)).val := rfl
  have e2 : (ex2 a b v).exact = nlin [a, b] v := by simp [ex2, Ex.exact, nlin]; ring
  have e3 : (ex2 a b v).mag = nlinAbs [a, b] v := by simp [ex2, Ex.mag, nlinAbs, rabs_eq_abs]; ring
  have e4 : (ex2 a b v).cnt = 7 := by simp [ex2, Ex.cnt]
  rw [e1, e2, e3, e4] at hb
  exact hb

open Ex in
/-- 3-D: eight products of three weights and a corner value, summed left to right -/
def ex3 (a b c : ℚ) (v : List Bool → ℚ) : Ex :=
  let t (x y z : Ex) (bs : List Bool) : Ex := mul (mul (mul x y) z) (lit (v bs))
  add (add (add (add (add (add (add
    (t (oneMinus a) (oneMinus b) (oneMinus c) [false, false, false])
    (t (oneMinus a) (oneMinus b) (lit c) [false, false, true]))
    (t (oneMinus a) (lit b) (oneMinus c) [false, true, false]))
    (t (oneMinus a) (lit b) (lit c) [false, true, true]))
    (t (lit a) (oneMinus b) (oneMinus c) [true, false, false]))
    (t (lit a) (oneMinus b) (lit c) [true, false, true]))
    (t (lit a) (lit b) (oneMinus c) [true, true, false]))
    (t (lit a) (lit b) (lit c) [true, true, true])

theorem lin3_round (u : ℚ) (rnd : ℚ → ℚ) (h : StdModel u rnd) (a b c : ℚ) (v : List Bool → ℚ) :
    |(lin3 (⟨a⟩ : Fl rnd) ⟨b⟩ ⟨c⟩ (inj rnd v)).val - nlin [a, b, c] v| ≤ g u 13 * nlinAbs [a, b, c] v := by
  have hb := (eval_bound u rnd h (ex3 a b c v)).1
  have e1 : (ex3 a b c v).fl rnd = (lin3 (⟨a⟩ : Fl rnd) ⟨b⟩ ⟨c⟩ (inj rnd v)).val := rfl
  have e2 : (ex3 a b c v).exact = nlin [a, b, c] v := by simp [ex3, Ex.exact, nlin]; ring
  have e3 : (ex3 a b c v).mag = nlinAbs [a, b, c] v := by simp [ex3, Ex.mag, nlinAbs, rabs_eq_abs]; ring
  have e4 : (ex3 a b c v).cnt = 13 := by simp [ex3, Ex.cnt]
  rw [e1, e2, e3, e4] at hb
  exact hb

/-! ### the generic branch, every N -/
/-- interpolant with an arbitrary pair of weights per axis (`nlin`: `(1 − a, a)`; `nlinAbs`: `(|1 − a|, |a|)`) -/
def nlinP : List (ℚ × ℚ) → (List Bool → ℚ) → ℚ
  | [], v => v []
  | p :: ps, v => p.1 * nlinP ps (fun bs => v (false :: bs)) + p.2 * nlinP ps (fun bs => v (true :: bs))
def weightP : List (ℚ × ℚ) → Nat → ℚ
  | [], _ => 1
  | p :: ps, n => (if n % 2 == 1 then p.2 else p.1) * weightP ps (n / 2)

theorem nlinP_eq_sum (ps : List (ℚ × ℚ)) (v : List Bool → ℚ) :
    nlinP ps v = ∑ n ∈ Finset.range (2 ^ ps.length), weightP ps n * v (bitsOf ps.length n) := by
  induction ps generalizing v with
  | nil => simp [weightP, bitsOf, nlinP]
  | cons p ps ih =>
    simp only [List.length_cons, nlinP]
    rw [show 2 ^ (ps.length + 1) = 2 * 2 ^ ps.length by ring, sum_range_double]
    have e0 : ∀ m, (2 * m) % 2 = 0 := fun m => by omega
    have e1 : ∀ m, (2 * m + 1) % 2 = 1 := fun m => by omega
    have d0 : ∀ m, (2 * m) / 2 = m := fun m => by omega
    have d1 : ∀ m, (2 * m + 1) / 2 = m := fun m => by omega
    simp only [weightP, bitsOf, e0, e1, d0, d1]
    simp only [show ((0:Nat) == 1) = false from rfl, show ((1:Nat) == 1) = true from rfl, if_true, Bool.false_eq_true, if_false]
    rw [Finset.sum_add_distrib, ih, ih]
    simp only [Finset.mul_sum, mul_assoc]

def absP (as : List ℚ) : List (ℚ × ℚ) := as.map fun a => (|1 - a|, |a|)

theorem nlinAbs_eq_nlinP (as : List ℚ) (v : List Bool → ℚ) : nlinAbs as v = nlinP (absP as) (fun bs => |v bs|) := by
  induction as generalizing v with
  | nil => simp [nlinAbs, nlinP, absP, rabs_eq_abs]
  | cons a as ih =>
    simp only [nlinAbs, absP, List.map_cons, nlinP, rabs_eq_abs]
    rw [ih, ih]
    rfl

open Ex in
/-- `f_n = Π_m (n & (1<<m) ? a_m : 1 − a_m)` -/
def exWeight : List ℚ → Nat → Ex
  | [], _ => lit 1
  | a :: as, n => mul (if n % 2 == 1 then lit a else oneMinus a) (exWeight as (n / 2))

open Ex in
/-- `rv = 0; for n < 2^N: rv += f_n * pc[n]` -/
def exGeneric (as : List ℚ) (v : List Bool → ℚ) : Ex :=
  (List.range (2 ^ as.length)).foldl (fun acc n => add acc (mul (exWeight as n) (lit (v (bitsOf as.length n))))) (lit 0)

theorem exWeight_fl (rnd : ℚ → ℚ) (as : List ℚ) (n : Nat) :
    (exWeight as n).fl rnd = (weight (as.map fun a => (⟨a⟩ : Fl rnd)) n).val := by
  induction as generalizing n with
  | nil => rfl
  | cons a as ih =>
    simp only [exWeight, List.map_cons, weight, Ex.fl]
    rw [ih]
    by_cases hb : (n % 2 == 1) = true <;> simp only [hb, if_true, if_false, Bool.false_eq_true] <;> rfl

theorem exWeight_exact (as : List ℚ) (n : Nat) : (exWeight as n).exact = weight as n := by
  induction as generalizing n with
  | nil => rfl
  | cons a as ih =>
    simp only [exWeight, weight, Ex.exact]
    rw [ih]
    by_cases hb : (n % 2 == 1) = true <;> simp only [hb, if_true, if_false, Bool.false_eq_true] <;> rfl

theorem exWeight_mag (as : List ℚ) (n : Nat) : (exWeight as n).mag = weightP (absP as) n := by
  induction as generalizing n with
  | nil => simp [exWeight, Ex.mag, weightP, absP]
  | cons a as ih =>
    simp only [exWeight, absP, List.map_cons, weightP, Ex.mag]
    rw [ih]
    by_cases hb : (n % 2 == 1) = true <;> simp only [hb, if_true, if_false, Bool.false_eq_true] <;> rfl

theorem exWeight_cnt (as : List ℚ) (n : Nat) : (exWeight as n).cnt ≤ 2 * as.length := by
  induction as generalizing n with
  | nil => simp [exWeight, Ex.cnt]
  | cons a as ih =>
    simp only [exWeight, Ex.cnt, List.length_cons]
    have := ih (n / 2)
    have hh : (if n % 2 == 1 then Ex.lit a else Ex.oneMinus a).cnt ≤ 1 := by
      by_cases hb : (n % 2 == 1) = true <;> simp [hb, Ex.cnt]
    omega

/-- folding the rounded accumulation `acc += W n * pc[n]` over any list of indices, for any weight expression `W` whose
    floating-point value, exact value, magnitude and depth are known: evaluation, exact value, magnitude and depth -/
theorem fold_facts (rnd : ℚ → ℚ) (N c : Nat) (v : List Bool → ℚ) (W : Nat → Ex) (wF : Nat → Fl rnd) (wQ wA : Nat → ℚ)
    (hfl : ∀ n, (W n).fl rnd = (wF n).val) (hex : ∀ n, (W n).exact = wQ n) (hmag : ∀ n, (W n).mag = wA n)
    (hcnt : ∀ n, (W n).cnt ≤ c)
    (l : List Nat) (acc : Ex) (accF : Fl rnd) (hF : acc.fl rnd = accF.val) :
    let f := fun (acc : Ex) n => Ex.add acc (Ex.mul (W n) (Ex.lit (v (bitsOf N n))))
    (l.foldl f acc).fl rnd = (l.foldl (fun (acc : Fl rnd) n => acc + wF n * inj rnd v (bitsOf N n)) accF).val ∧
    (l.foldl f acc).exact = l.foldl (fun (acc : ℚ) n => acc + wQ n * v (bitsOf N n)) acc.exact ∧
    (l.foldl f acc).mag = l.foldl (fun (acc : ℚ) n => acc + wA n * |v (bitsOf N n)|) acc.mag ∧
    (l.foldl f acc).cnt ≤ max acc.cnt (c + 1) + l.length := by
  induction l generalizing acc accF with
  | nil => intro f; exact ⟨hF, rfl, rfl, by simp⟩
  | cons n l ih =>
    intro f
    simp only [List.foldl_cons]
    have hF' : (f acc n).fl rnd = (accF + wF n * inj rnd v (bitsOf N n)).val := by
      show rnd (acc.fl rnd + rnd ((W n).fl rnd * v (bitsOf N n))) = _
      rw [hF, hfl]
      rfl
    obtain ⟨h1, h2, h3, h4⟩ := ih (f acc n) _ hF'
    refine ⟨h1, ?_, ?_, ?_⟩
    · rw [h2]; simp only [f, Ex.exact, hex]
    · rw [h3]; simp only [f, Ex.mag, hmag]
    · have hc : (f acc n).cnt ≤ max acc.cnt (c + 1) + 1 := by
        simp only [f, Ex.cnt]
        have := hcnt n
        omega
      have hm : max (f acc n).cnt (c + 1) ≤ max acc.cnt (c + 1) + 1 := by omega
      have h4' : (List.foldl f (f acc n) l).cnt ≤ max (f acc n).cnt (c + 1) + l.length := h4
      simp only [List.length_cons]
      omega

/-- the bound for any such accumulation over all `2^N` corners whose weights are those of the interpolant -/
theorem generic_round_of (u : ℚ) (rnd : ℚ → ℚ) (h : StdModel u rnd) (as : List ℚ) (v : List Bool → ℚ)
    (W : Nat → Ex) (wF : Nat → Fl rnd)
    (hfl : ∀ n, (W n).fl rnd = (wF n).val) (hex : ∀ n, (W n).exact = weight as n)
    (hmag : ∀ n, (W n).mag = weightP (absP as) n) (hcnt : ∀ n, (W n).cnt ≤ 2 * as.length) :
    |((List.range (2 ^ as.length)).foldl (fun (acc : Fl rnd) n => acc + wF n * inj rnd v (bitsOf as.length n)) 0).val - nlin as v| ≤
      g u (2 * as.length + 2 ^ as.length + 1) * nlinAbs as v := by
  let E : Ex := (List.range (2 ^ as.length)).foldl
    (fun acc n => Ex.add acc (Ex.mul (W n) (Ex.lit (v (bitsOf as.length n))))) (Ex.lit 0)
  obtain ⟨h1, h2, h3, h4⟩ := fold_facts rnd as.length (2 * as.length) v W wF (weight as) (weightP (absP as)) hfl hex hmag hcnt
    (List.range (2 ^ as.length)) (Ex.lit 0) (0 : Fl rnd) rfl
  have hb := (eval_bound u rnd h E).1
  have e2 : E.exact = nlin as v := by
    show Ex.exact (List.foldl _ _ _) = _
    rw [h2, ← generic_eq_nlin]
    rfl
  have e3 : E.mag = nlinAbs as v := by
    show Ex.mag (List.foldl _ _ _) = _
    rw [h3, nlinAbs_eq_nlinP, nlinP_eq_sum]
    simp only [Ex.mag, abs_zero]
    rw [foldl_range_eq_sum]
    simp [absP]
  have e4 : E.cnt ≤ 2 * as.length + 2 ^ as.length + 1 := by
    have : E.cnt ≤ max (Ex.lit 0).cnt (2 * as.length + 1) + (List.range (2 ^ as.length)).length := h4
    simp only [Ex.cnt, List.length_range] at this
    omega
  have e1 : E.fl rnd = _ := h1
  rw [e1, e2, e3] at hb
  exact le_trans hb (mul_le_mul_of_nonneg_right (g_mono u h.1 e4) (by rw [← e3]; exact mag_nonneg _))

/-- **generic branch, every N** (weights nested from the right, as `weight`): the rounded evaluation of
    `rv += f_n * pc[n]` over all `2^N` corners is within `((1+u)^(2N + 2^N + 1) − 1) · Σ_n |w_n v_n|` of the interpolant -/
theorem linGeneric_round (u : ℚ) (rnd : ℚ → ℚ) (h : StdModel u rnd) (as : List ℚ) (v : List Bool → ℚ) :
    |(linGeneric (as.map fun a => (⟨a⟩ : Fl rnd)) (inj rnd v)).val - nlin as v| ≤
      g u (2 * as.length + 2 ^ as.length + 1) * nlinAbs as v := by
  have := generic_round_of u rnd h as v (exWeight as) (weight (as.map fun a => (⟨a⟩ : Fl rnd)))
    (exWeight_fl rnd as) (exWeight_exact as) (exWeight_mag as) (exWeight_cnt as)
  unfold linGeneric
  rw [List.length_map]
  exact this

/-! #### … and in the association order of the code: `f = 1; for m: f *= …` -/
open Ex in
def exWeightGo : List ℚ → Nat → Ex → Ex
  | [], _, f => f
  | a :: as, n, f => exWeightGo as (n / 2) (mul f (if n % 2 == 1 then lit a else oneMinus a))

theorem weightGo_eq (as : List ℚ) (n : Nat) (f : ℚ) : weightGo as n f = f * weight as n := by
  induction as generalizing n f with
  | nil => simp [weightGo, weight]
  | cons a as ih => simp only [weightGo, weight]; rw [ih]; ring

theorem weightGoP_eq (as : List ℚ) (n : Nat) :
    (exWeightGo as n (Ex.lit 1)).mag = weightP (absP as) n := by
  have gen : ∀ (as : List ℚ) (n : Nat) (e : Ex), (exWeightGo as n e).mag = e.mag * weightP (absP as) n := by
    intro as
    induction as with
    | nil => intro n e; simp [exWeightGo, weightP, absP]
    | cons a as ih =>
      intro n e
      simp only [exWeightGo, absP, List.map_cons, weightP]
      rw [ih]
      by_cases hb : (n % 2 == 1) = true <;> simp only [hb, if_true, if_false, Bool.false_eq_true, Ex.mag] <;>
        simp only [absP] <;> ring
  rw [gen]; simp [Ex.mag]

theorem exWeightGo_facts (rnd : ℚ → ℚ) (as : List ℚ) (n : Nat) (e : Ex) (eF : Fl rnd) (hF : e.fl rnd = eF.val) :
    (exWeightGo as n e).fl rnd = (weightGo (as.map fun a => (⟨a⟩ : Fl rnd)) n eF).val ∧
    (exWeightGo as n e).exact = weightGo as n e.exact ∧
    (exWeightGo as n e).cnt ≤ e.cnt + 2 * as.length := by
  induction as generalizing n e eF with
  | nil => exact ⟨hF, rfl, by simp [exWeightGo]⟩
  | cons a as ih =>
    simp only [exWeightGo, List.map_cons, weightGo, List.length_cons]
    have hF' : (Ex.mul e (if n % 2 == 1 then Ex.lit a else Ex.oneMinus a)).fl rnd =
        (eF * (if n % 2 == 1 then (⟨a⟩ : Fl rnd) else 1 - ⟨a⟩)).val := by
      show rnd (e.fl rnd * _) = rnd (eF.val * _)
      rw [hF]
      by_cases hb : (n % 2 == 1) = true <;> simp only [hb, if_true, if_false, Bool.false_eq_true] <;> rfl
    obtain ⟨h1, h2, h3⟩ := ih (n / 2) _ _ hF'
    refine ⟨h1, ?_, ?_⟩
    · rw [h2]
      congr 1
      by_cases hb : (n % 2 == 1) = true <;> simp only [hb, if_true, if_false, Bool.false_eq_true, Ex.exact]
    · have hh : (Ex.mul e (if n % 2 == 1 then Ex.lit a else Ex.oneMinus a)).cnt ≤ e.cnt + 2 := by
        by_cases hb : (n % 2 == 1) = true <;> simp [hb, Ex.cnt]
      omega

/-- **generic branch exactly as coded** (`f` accumulated from the left starting at 1): same bound -/
theorem linGenericC_round (u : ℚ) (rnd : ℚ → ℚ) (h : StdModel u rnd) (as : List ℚ) (v : List Bool → ℚ) :
    |(linGenericC (as.map fun a => (⟨a⟩ : Fl rnd)) (inj rnd v)).val - nlin as v| ≤
      g u (2 * as.length + 2 ^ as.length + 1) * nlinAbs as v := by
  have facts := fun n => exWeightGo_facts rnd as n (Ex.lit 1) (1 : Fl rnd) rfl
  have := generic_round_of u rnd h as v (fun n => exWeightGo as n (Ex.lit 1))
    (weightC (as.map fun a => (⟨a⟩ : Fl rnd)))
    (fun n => (facts n).1)
    (fun n => by rw [(facts n).2.1]; simp [Ex.exact, weightGo_eq])
    (fun n => weightGoP_eq as n)
    (fun n => by have := (facts n).2.2; simpa [Ex.cnt] using this)
  unfold linGenericC
  rw [List.length_map]
  exact this

/-- in exact arithmetic the two association orders agree (so `linGenericC = linGeneric = nlin`) -/
theorem linGenericC_eq (as : List ℚ) (v : List Bool → ℚ) : linGenericC as v = nlin as v := by
  rw [← generic_eq_nlin]
  unfold linGenericC linGeneric weightC
  congr 1
  funext acc n
  rw [weightGo_eq, one_mul]

/-- the judge's `γ_k = k·u / (1 − k·u)` dominates `(1+u)^k − 1` -/
theorem gamma_bound (u : ℚ) (hu : 0 ≤ u) (k : ℕ) (hk : (k : ℚ) * u < 1) : g u k ≤ (k : ℚ) * u / (1 - (k : ℚ) * u) := by
  -- (1+u)^k · (1 − k u) ≤ 1, by induction on k
  have key : ∀ j : ℕ, (j : ℚ) * u < 1 → (1 + u) ^ j * (1 - (j : ℚ) * u) ≤ 1 := by
    intro j
    induction j with
    | zero => intro _; simp
    | succ j ih =>
      intro hj
      have hj' : (j : ℚ) * u < 1 := by
        have : (j : ℚ) * u ≤ ((j + 1 : ℕ) : ℚ) * u := by push_cast; nlinarith
        linarith
      have ih' := ih hj'
      have hp : 0 ≤ (1 + u) ^ j := by positivity
      have e : (1 + u) ^ (j + 1) * (1 - ((j + 1 : ℕ) : ℚ) * u) =
          (1 + u) ^ j * (1 - (j : ℚ) * u) - (1 + u) ^ j * (u * u * ((j : ℚ) + 1)) := by push_cast; ring
      rw [e]
      have : 0 ≤ (1 + u) ^ j * (u * u * ((j : ℚ) + 1)) := by positivity
      linarith
  have hd : 0 < 1 - (k : ℚ) * u := by linarith
  rw [le_div_iff₀ hd]
  unfold g
  have := key k hk
  nlinarith

/-- in particular every branch's proved bound lies below the bound the correspondence judge applies (`k = 2N + 2^N + 3`) -/
theorem judge_dominates (u : ℚ) (hu : 0 ≤ u) (j k : ℕ) (hjk : j ≤ k) (hk : (k : ℚ) * u < 1) (S : ℚ) (hS : 0 ≤ S) :
    g u j * S ≤ (k : ℚ) * u / (1 - (k : ℚ) * u) * S :=
  mul_le_mul_of_nonneg_right (le_trans (g_mono u hu hjk) (gamma_bound u hu k hk)) hS

/-- non-vacuity: round-to-nearest on a grid of spacing relative to the value satisfies the standard model; the simplest
    instance is exact arithmetic with `u = 0` … -/
example : StdModel 0 id := ⟨le_refl _, fun x => by simp⟩
/-- … and a rounding that perturbs every result by the relative amount `u` -/
example (u : ℚ) (hu : 0 ≤ u) : StdModel u (fun x => x * (1 + u)) :=
  ⟨hu, fun x => by
    have : x * (1 + u) - x = u * x := by ring
    rw [this, abs_mul, abs_of_nonneg hu]⟩

end Covfie.C03

/-! ### consequences: the hull up to rounding, and exactness at lattice points under rounding -/
namespace Covfie.C03

/-- "never leaves the range spanned by the surrounding lattice values by more than rounding": any evaluation within `B`
    of the interpolant lies within `B` of the hull of the corner values -/
theorem hull_round (as : List ℚ) (v : List Bool → ℚ) (lo hi r B : ℚ)
    (ha : ∀ a ∈ as, 0 ≤ a ∧ a ≤ 1) (hv : ∀ bs, lo ≤ v bs ∧ v bs ≤ hi) (hr : |r - nlin as v| ≤ B) :
    lo - B ≤ r ∧ r ≤ hi + B := by
  obtain ⟨h1, h2⟩ := nlin_hull as v lo hi ha hv
  have := abs_le.mp hr
  constructor <;> linarith

theorem rnd_zero (u : ℚ) (rnd : ℚ → ℚ) (h : StdModel u rnd) : rnd 0 = 0 := by
  have := h.2 0
  simp at this
  exact this

/-- at a lattice point the rounded 1-D / 2-D / 3-D branch returns the stored value **exactly**, whatever the rounding does
    to inexact results (it only has to leave 1 and the stored corner value unchanged) -/
theorem lin1_lattice_round (u : ℚ) (rnd : ℚ → ℚ) (h : StdModel u rnd) (h1 : rnd 1 = 1) (v : List Bool → ℚ)
    (hv : rnd (v [false]) = v [false]) : (lin1 (⟨0⟩ : Fl rnd) (inj rnd v)).val = v [false] := by
  have h0 := rnd_zero u rnd h
  show rnd (rnd (rnd (1 - 0) * v [false]) + rnd (0 * v [true])) = v [false]
  simp [h0, h1, hv]

theorem lin2_lattice_round (u : ℚ) (rnd : ℚ → ℚ) (h : StdModel u rnd) (h1 : rnd 1 = 1) (v : List Bool → ℚ)
    (hv : rnd (v [false, false]) = v [false, false]) :
    (lin2 (⟨0⟩ : Fl rnd) ⟨0⟩ (inj rnd v)).val = v [false, false] := by
  have h0 := rnd_zero u rnd h
  show rnd (rnd (rnd (rnd (rnd (rnd (1 - 0) * rnd (1 - 0)) * v [false, false]) + rnd (rnd (rnd (1 - 0) * 0) * v [false, true])) +
      rnd (rnd (0 * rnd (1 - 0)) * v [true, false])) + rnd (rnd (0 * 0) * v [true, true])) = v [false, false]
  simp [h0, h1, hv]

theorem lin3_lattice_round (u : ℚ) (rnd : ℚ → ℚ) (h : StdModel u rnd) (h1 : rnd 1 = 1) (v : List Bool → ℚ)
    (hv : rnd (v [false, false, false]) = v [false, false, false]) :
    (lin3 (⟨0⟩ : Fl rnd) ⟨0⟩ ⟨0⟩ (inj rnd v)).val = v [false, false, false] := by
  have h0 := rnd_zero u rnd h
  have e : (lin3 (⟨0⟩ : Fl rnd) ⟨0⟩ ⟨0⟩ (inj rnd v)).val = (ex3 0 0 0 v).fl rnd := rfl
  rw [e]
  simp [ex3, Ex.fl, h0, h1, hv]

end Covfie.C03

namespace Covfie.C03
/-- every intermediate result of the exact evaluation is left unchanged by the rounding (e.g. small integers) -/
def Ex.AllFixed (rnd : ℚ → ℚ) : Ex → Prop
  | .lit _ => True
  | .oneMinus q => rnd (1 - q) = 1 - q
  | .mul a b => a.AllFixed rnd ∧ b.AllFixed rnd ∧ rnd (a.exact * b.exact) = a.exact * b.exact
  | .add a b => a.AllFixed rnd ∧ b.AllFixed rnd ∧ rnd (a.exact + b.exact) = a.exact + b.exact

/-- **exact stream**: when every intermediate result is representable, floating-point evaluation *is* exact evaluation
    (what the `x` streams of the C09 / C03 correspondence rely on: small-integer matrices, vectors and weights) -/
theorem fl_eq_exact_of_fixed (rnd : ℚ → ℚ) (e : Ex) (h : e.AllFixed rnd) : e.fl rnd = e.exact := by
  induction e with
  | lit q => rfl
  | oneMinus q => exact h
  | mul a b iha ihb =>
    obtain ⟨ha, hb, hab⟩ := h
    simp only [Ex.fl, Ex.exact, iha ha, ihb hb, hab]
  | add a b iha ihb =>
    obtain ⟨ha, hb, hab⟩ := h
    simp only [Ex.fl, Ex.exact, iha ha, ihb hb, hab]
end Covfie.C03
