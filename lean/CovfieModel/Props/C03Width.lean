import CovfieModel.Model.LinearW
/-! # C03 (index width) — the code's index arithmetic versus the idealised interpolator. -/
namespace Covfie.C03
open Covfie

theorem mapE_truncIdxW_eq (w : Nat) (c : List Num) (parts : List (Nat × Rat)) (h : mapE (truncIdxW w) c = .ok parts) :
    mapE truncIdx c = .ok parts := by
  induction c generalizing parts with
  | nil => simpa [mapE] using h
  | cons x xs ih =>
    simp only [mapE] at h ⊢
    cases hx : truncIdxW w x with
    | error e => simp [hx] at h
    | ok p =>
      simp only [hx] at h
      cases hm : mapE (truncIdxW w) xs with
      | error e => simp [hm] at h
      | ok ps =>
        simp only [hm] at h
        have hx' : truncIdx x = .ok p := by
          unfold truncIdxW at hx; unfold truncIdx
          cases x with
          | fin q =>
            simp only at hx ⊢
            split at hx
            · rename_i hq; simp only [hq.1, if_true]; exact hx
            · simp at hx
          | pinf => simp at hx
          | ninf => simp at hx
          | nan => simp at hx
        rw [hx', ih ps hm]; exact h

theorem addBitsW_eq (w : Nat) (is : List Nat) (bs : List Bool) (h : ∀ i ∈ is, i + 1 < 2^w) :
    addBitsW w is bs = addBits is bs := by
  induction is generalizing bs with
  | nil => simp [addBitsW, addBits]
  | cons i is ih =>
    cases bs with
    | nil => simp [addBitsW, addBits]
    | cons b bs =>
      have hi := h i List.mem_cons_self
      have := ih bs (fun j hj => h j (List.mem_cons_of_mem _ hj))
      simp only [addBitsW, addBits, List.zipWith_cons_cons] at this ⊢
      rw [this]
      congr 2
      cases b
      · simp; exact Nat.mod_eq_of_lt (by omega)
      · simp only [if_true]; rw [Nat.mod_eq_of_lt hi]

/-- **on the domain `⌊x_k⌋ + 1 < 2^w` the width-faithful interpolator is the idealised one** — so every theorem about
    `linearL` (interpolant, hull, lattice, safety over a clamp layer) transfers to the code's index arithmetic there -/
theorem linearLW_eq_linearL (w : Nat) (bk : Backend) (c : List Num) (parts : List (Nat × Rat))
    (hp : mapE (truncIdxW w) c = .ok parts) (hb : ∀ p ∈ parts, p.1 + 1 < 2^w) :
    linearLW w bk c = linearL bk c := by
  unfold linearLW linearL
  rw [hp, mapE_truncIdxW_eq w c parts hp]
  simp only []
  have hq : ∀ bs, cornerQueryW w bk (parts.map (·.1)) bs = cornerQuery bk (parts.map (·.1)) bs := by
    intro bs
    unfold cornerQueryW cornerQuery
    rw [addBitsW_eq w _ bs (by
      intro i hi
      obtain ⟨p, hp', rfl⟩ := List.mem_map.mp hi
      exact hb p hp')]
    rfl
  have : mapE (cornerQueryW w bk (parts.map (·.1))) (corners c.length) = mapE (cornerQuery bk (parts.map (·.1))) (corners c.length) := by
    congr 1; funext bs; exact hq bs
  rw [this]
  rfl

/-! ## The unrestricted statement is false for the code's arithmetic: the two recorded findings, evaluated in the model -/
/-- values 10,20,30,40 beneath a clamp `[0,3]` -/
def exBk : Backend := clampL [.fin 0] [.fin 3] (arrayB [[.fin 10], [.fin 20], [.fin 30], [.fin 40]])

-- control: x = 7.25 (clamped on both neighbours) gives 40 in both versions
#guard (linearLW 32 exBk [.fin (29/4)]) matches .ok ([.fin 40], _)
#guard (linearL exBk [.fin (29/4)]) matches .ok ([.fin 40], _)
-- F15: with a 32-bit index, x = 4294967295.5 reads cells 3 and 0 (the +1 neighbour wraps): 25, not 40
#guard (linearLW 32 exBk [.fin (8589934591/2)]) matches .ok ([.fin 25], [3, 0])
#guard (linearL exBk [.fin (8589934591/2)]) matches .ok ([.fin 40], [3, 3])
-- F13: x = 10^30 is outside the range of a 64-bit index: the conversion is undefined behaviour
#guard (linearLW 64 exBk [.fin (10^30)]) matches .error .floatToInt

end Covfie.C03
