import CovfieModel.Model.Interp
import CovfieModel.Model.Stack
import Mathlib.Tactic.Linarith
import Mathlib.Algebra.Order.Floor.Ring
import Mathlib.Data.Rat.Floor
/-! # C04 — Nearest-neighbour lookup returns the value at a closest lattice point -/
namespace Covfie.C04

/-- every component of the chosen lattice point lies within one half of the coordinate component -/
theorem nnRound_half (q : ℚ) : |q - (nnRound q : ℚ)| ≤ 1/2 := by
  have hf : (Rat.floor q : ℚ) ≤ q := Int.floor_le q
  have hf2 : q < (Rat.floor q : ℚ) + 1 := Int.lt_floor_add_one q
  unfold nnRound
  simp only []
  split_ifs with h1 h2 h3
  · rw [abs_le]; constructor <;> linarith
  · rw [abs_le]; push_cast; constructor <;> linarith
  · rw [abs_le]; constructor <;> linarith
  · rw [abs_le]; push_cast; constructor <;> linarith

/-- for −½ < c < extent − ½ the chosen index is inside the grid -/
theorem nnRound_in_grid (q : ℚ) (n : ℕ) (h0 : -(1/2) < q) (h1 : q < (n : ℚ) - 1/2) :
    0 ≤ nnRound q ∧ nnRound q < (n : ℤ) := by
  have hb := nnRound_half q
  rw [abs_le] at hb
  constructor
  · have : (-1 : ℚ) < (nnRound q : ℚ) := by linarith
    have : (-1 : ℤ) < nnRound q := by exact_mod_cast this
    omega
  · have : (nnRound q : ℚ) < (n : ℚ) := by linarith
    exact_mod_cast this

/-- characterisation of the results the property allows -/
theorem allowed_iff (q : ℚ) (r : ℤ) : |q - (r : ℚ)| ≤ 1/2 ↔ (q - 1/2 ≤ (r : ℚ) ∧ (r : ℚ) ≤ q + 1/2) := by
  rw [abs_le]; constructor <;> intro h <;> constructor <;> linarith [h.1, h.2]

-- evaluation checks (tests, not theorems): ties go to the even neighbour
#guard nnRound (5/2) = 2 && nnRound (7/2) = 4 && nnRound (-1/2) = 0 && nnRound (12/5) = 2
end Covfie.C04

/-! ### the layer: `nnL` queries the backend at the rounded lattice point -/
namespace Covfie.C04
open Covfie
theorem mapE_lrintIdx (qs : List ℚ) (h : ∀ q ∈ qs, 0 ≤ nnRound q) :
    mapE lrintIdx (qs.map Num.fin) = .ok (qs.map fun q => Num.fin ((nnRound q : Int) : ℚ)) := by
  induction qs with
  | nil => rfl
  | cons q qs ih =>
    have hq := h q List.mem_cons_self
    have := ih (fun x hx => h x (List.mem_cons_of_mem _ hx))
    simp [mapE, lrintIdx, hq, this]

/-- `nearest_neighbour<B>::at`: the backend is queried at the lattice point `nnRound c` (component-wise), and every
    component of that lattice point lies within one half of the coordinate component -/
theorem nn_eval (bk : Backend) (qs : List ℚ) (h : ∀ q ∈ qs, 0 ≤ nnRound q) :
    nnL bk (qs.map Num.fin) = bk (qs.map fun q => Num.fin ((nnRound q : Int) : ℚ)) ∧
    ∀ q ∈ qs, |q - (nnRound q : ℚ)| ≤ 1/2 := by
  refine ⟨?_, fun q _ => nnRound_half q⟩
  unfold nnL
  rw [mapE_lrintIdx qs h]
end Covfie.C04

namespace Covfie.C04
/-- the lattice point is unique away from the ties: a coordinate strictly within one half of an integer rounds to that integer
    (what the exhaustive narrow-index sweeps of the harness use: cell `k` answers `k`, `k ± ¼`) -/
theorem nnRound_eq_of_near (q : ℚ) (k : ℤ) (h : |q - (k : ℚ)| < 1/2) : nnRound q = k := by
  have h1 := nnRound_half q
  have h2 : |((nnRound q : ℤ) : ℚ) - (k : ℚ)| < 1 := by
    have e : ((nnRound q : ℤ) : ℚ) - (k : ℚ) = (q - (k : ℚ)) - (q - ((nnRound q : ℤ) : ℚ)) := by ring
    rw [e]
    calc |(q - (k : ℚ)) - (q - ((nnRound q : ℤ) : ℚ))| ≤ |q - (k : ℚ)| + |q - ((nnRound q : ℤ) : ℚ)| := abs_sub _ _
      _ < 1/2 + 1/2 := by linarith
      _ = 1 := by norm_num
  have h3 : |(nnRound q - k : ℤ)| < 1 := by
    have : ((nnRound q - k : ℤ) : ℚ) = ((nnRound q : ℤ) : ℚ) - (k : ℚ) := by push_cast; ring
    have h4 : |((nnRound q - k : ℤ) : ℚ)| < 1 := by rw [this]; exact h2
    exact_mod_cast h4
  have : nnRound q - k = 0 := by
    rcases abs_lt.mp h3 with ⟨a, b⟩
    omega
  omega
end Covfie.C04
