import CovfieModel.Model.Interp
import Mathlib.Tactic.Linarith
import Mathlib.Algebra.Order.Floor.Ring
import Mathlib.Data.Rat.Floor
/-! # C04 — Nearest-neighbour lookup returns the value at a closest lattice point -/
namespace Covfie.C04

/-- every component of the chosen lattice point lies within one half of the coordinate component -/
theorem nnRound_half (q : ℚ) : |q - (nnRound q : ℚ)| ≤ 1/2 := by
  have hf : (Rat.floor q : ℚ) ≤ q := Int.floor_le q
  have hf2 : q < (Rat.floor q : ℚ) + 1 := Int.lt_floor_add_one q
  unfold nnRound
  simp only []
  split_ifs with h1 h2 h3
  · rw [abs_le]; constructor <;> linarith
  · rw [abs_le]; push_cast; constructor <;> linarith
  · rw [abs_le]; constructor <;> linarith
  · rw [abs_le]; push_cast; constructor <;> linarith

/-- for −½ < c < extent − ½ the chosen index is inside the grid -/
theorem nnRound_in_grid (q : ℚ) (n : ℕ) (h0 : -(1/2) < q) (h1 : q < (n : ℚ) - 1/2) :
    0 ≤ nnRound q ∧ nnRound q < (n : ℤ) := by
  have hb := nnRound_half q
  rw [abs_le] at hb
  constructor
  · have : (-1 : ℚ) < (nnRound q : ℚ) := by linarith
    have : (-1 : ℤ) < nnRound q := by exact_mod_cast this
    omega
  · have : (nnRound q : ℚ) < (n : ℚ) := by linarith
    exact_mod_cast this

/-- characterisation of the results the property allows -/
theorem allowed_iff (q : ℚ) (r : ℤ) : |q - (r : ℚ)| ≤ 1/2 ↔ (q - 1/2 ≤ (r : ℚ) ∧ (r : ℚ) ≤ q + 1/2) := by
  rw [abs_le]; constructor <;> intro h <;> constructor <;> linarith [h.1, h.2]

-- evaluation checks (tests, not theorems): ties go to the even neighbour
#guard nnRound (5/2) = 2 && nnRound (7/2) = 4 && nnRound (-1/2) = 0 && nnRound (12/5) = 2
end Covfie.C04
