import CovfieModel.Model.Convert
import CovfieModel.Props.C01
/-! # C05 — Changing representation preserves the field -/
namespace Covfie.C05
variable {α : Type}

theorem fill_read (idx : List Nat → Nat) (src : List Nat → α) (ts : List (List Nat)) (st : Nat → Option α)
    (hinj : ∀ t ∈ ts, ∀ t' ∈ ts, idx t = idx t' → t = t') (t : List Nat) (ht : t ∈ ts) :
    fill idx src ts st (idx t) = some (src t) := by
  unfold fill
  induction ts generalizing st with
  | nil => simp at ht
  | cons u us ih =>
    simp only [List.foldl_cons]
    by_cases hm : t ∈ us
    · exact ih _ (fun a ha b hb => hinj a (List.mem_cons_of_mem _ ha) b (List.mem_cons_of_mem _ hb)) hm
    · have htu : t = u := by
        rcases List.mem_cons.mp ht with h | h
        · exact h
        · exact absurd h hm
      subst htu
      have key : ∀ (us' : List (List Nat)) (st' : Nat → Option α), (∀ a ∈ us', idx a ≠ idx t) →
          (us'.foldl (fun st t => writeF st (idx t) (src t)) st') (idx t) = st' (idx t) := by
        intro us'
        induction us' with
        | nil => intro st' _; rfl
        | cons a as iha =>
          intro st' hne
          simp only [List.foldl_cons]
          rw [iha _ (fun b hb => hne b (List.mem_cons_of_mem _ hb))]
          have : idx t ≠ idx a := fun e => hne a List.mem_cons_self e.symm
          simp [writeF, this]
      rw [key us _ (fun a ha e => hm (by
        have := hinj a (List.mem_cons_of_mem _ ha) t List.mem_cons_self e
        rw [← this]; exact ha))]
      simp [writeF]

/-- **the converted field holds the source's value at every lattice coordinate**, for any target layout whose
    index function is injective on the box (row-major, Morton in both implementations, Hilbert — by C01) -/
theorem convert_at (idx : List Nat → Nat) (sizes : List Nat) (src : List Nat → α)
    (hinj : ∀ c c', InBox sizes c → InBox sizes c' → idx c = idx c' → c = c')
    (c : List Nat) (hc : InBox sizes c) : convert idx sizes src (idx c) = some (src c) :=
  fill_read idx src (ndMap sizes) _
    (fun t ht t' ht' e => hinj t t' ((mem_ndMap _ _).mp ht) ((mem_ndMap _ _).mp ht') e)
    c ((mem_ndMap _ _).mpr hc)

/-- row-major target -/
theorem convert_to_strided (sizes : List Nat) (src : List Nat → α) (c : List Nat) (hc : InBox sizes c) :
    convert (stridedIdx sizes) sizes src (stridedIdx sizes c) = some (src c) :=
  convert_at _ sizes src (fun a b ha hb e => strided_inj sizes a b ha hb e) c hc

/-- Morton target (portable loop; the BMI2 path computes the same index, C14) -/
theorem convert_to_morton (sizes : List Nat) (src : List Nat → α) (c : List Nat) (hc : InBox sizes c)
    (hN : 0 < sizes.length) (hk : ∀ s ∈ sizes, s ≤ 2^(64 / sizes.length)) :
    convert mortonLoop sizes src (mortonLoop c) = some (src c) :=
  convert_at _ sizes src (fun a b ha hb e => C01.morton_no_alias sizes a b ha hb hN hk e) c hc

/-- converting there and back reproduces the original at every lattice coordinate -/
theorem convert_back (idx₁ idx₂ : List Nat → Nat) (sizes : List Nat) (f : List Nat → α)
    (h₁ : ∀ c c', InBox sizes c → InBox sizes c' → idx₁ c = idx₁ c' → c = c')
    (h₂ : ∀ c c', InBox sizes c → InBox sizes c' → idx₂ c = idx₂ c' → c = c')
    (c : List Nat) (hc : InBox sizes c) :
    convert idx₁ sizes (fun t => (convert idx₂ sizes f (idx₂ t))) (idx₁ c) = some (some (f c)) := by
  rw [convert_at idx₁ sizes _ h₁ c hc, convert_at idx₂ sizes f h₂ c hc]

example : convert (stridedIdx [2, 3]) [2, 3] (fun t => t.sum) 5 = some 3 := by decide
end Covfie.C05

namespace Covfie.C05
/-- Hilbert target (two dimensions, any extents) -/
theorem convert_to_hilbert {α : Type} (sx sy k : Nat) (src : List Nat → α) (hk : hilN sx sy = 2^k) (hk63 : k ≤ 63)
    (hsx : sx ≤ 2^k) (hsy : sy ≤ 2^k) (x y : Nat) (hx : x < sx) (hy : y < sy) :
    convert (hilbertIdx [sx, sy]) [sx, sy] src (hilbertIdx [sx, sy] [x, y]) = some (src [x, y]) := by
  have hinj : ∀ c c', InBox [sx, sy] c → InBox [sx, sy] c' → hilbertIdx [sx, sy] c = hilbertIdx [sx, sy] c' → c = c' := by
    intro c c' hc hc' e
    have two : ∀ c, InBox [sx, sy] c → ∃ a b, c = [a, b] ∧ a < sx ∧ b < sy := by
      intro c hc
      cases c with
      | nil => simp [InBox] at hc
      | cons a t => cases t with
        | nil => simp [InBox] at hc
        | cons b t' => cases t' with
          | nil => exact ⟨a, b, rfl, hc.1, hc.2.1⟩
          | cons _ _ => simp [InBox] at hc
    obtain ⟨a, b, rfl, ha, hb⟩ := two c hc
    obtain ⟨a', b', rfl, ha', hb'⟩ := two c' hc'
    obtain ⟨r1, r2⟩ := C01.hilbert_no_alias sx sy a b a' b' k hk hk63 hsx hsy ha hb ha' hb' e
    rw [r1, r2]
  exact convert_at _ [sx, sy] src hinj [x, y] ⟨hx, hy, trivial⟩
end Covfie.C05

namespace Covfie.C05
variable {α : Type}

theorem fillA_size (idx : List Nat → Nat) (src : List Nat → α) (ts : List (List Nat)) (st : Array α) :
    (fillA idx src ts st).size = st.size := by
  unfold fillA
  induction ts generalizing st with
  | nil => rfl
  | cons t ts ih => simp only [List.foldl_cons]; rw [ih]; simp

theorem fillA_get (idx : List Nat → Nat) (src : List Nat → α) (ts : List (List Nat)) (st : Array α)
    (h : ∀ t ∈ ts, idx t < st.size) (j : Nat) :
    (fillA idx src ts st)[j]? = fill idx src ts (fun j => st[j]?) j := by
  unfold fillA fill
  induction ts generalizing st with
  | nil => rfl
  | cons t ts ih =>
    simp only [List.foldl_cons]
    rw [ih _ (fun u hu => by simpa using h u (List.mem_cons_of_mem _ hu))]
    have hst : (fun j => (st.setIfInBounds (idx t) (src t))[j]?) = writeF (fun j => st[j]?) (idx t) (src t) := by
      funext i
      have ht := h t List.mem_cons_self
      simp only [writeF, Array.getElem?_setIfInBounds]
      by_cases e : i = idx t
      · subst e; simp [ht]
      · have e' : idx t ≠ i := fun x => e x.symm
        simp [e, e']
    rw [hst]

theorem fill_init (idx : List Nat → Nat) (src : List Nat → α) (ts : List (List Nat)) (g : Nat → Option α) :
    ∀ (st st' : Nat → Option α), (∀ j, st j = match st' j with | some v => some v | none => g j) →
    ∀ j, fill idx src ts st j = match fill idx src ts st' j with | some v => some v | none => g j := by
  unfold fill
  induction ts with
  | nil => intro st st' h j; exact h j
  | cons t ts ih =>
    intro st st' h j
    simp only [List.foldl_cons]
    apply ih
    intro i
    simp only [writeF]
    by_cases e : i = idx t
    · simp [e]
    · simp [e, h i]

theorem convertA_size (idx : List Nat → Nat) (sizes : List Nat) (len : Nat) (zero : α) (src : List Nat → α) :
    (convertA idx sizes len zero src).size = len := by
  unfold convertA; rw [fillA_size]; simp

/-- **the tabulated storage the driver computes is the storage of the functional model**: cell `j` holds what the fold
    of writes put there, and the value-initialised `zero` where nothing was written -/
theorem convertA_get (idx : List Nat → Nat) (sizes : List Nat) (len : Nat) (zero : α) (src : List Nat → α)
    (h : ∀ c, InBox sizes c → idx c < len) (j : Nat) (hj : j < len) :
    (convertA idx sizes len zero src)[j]? = some ((convert idx sizes src j).getD zero) := by
  unfold convertA convert
  rw [fillA_get idx src (ndMap sizes) _ (fun t ht => by simpa using h t ((mem_ndMap _ _).mp ht))]
  rw [fill_init idx src (ndMap sizes) (fun j => if j < len then some zero else none) _ (fun _ => none)
        (fun i => by simp [Array.getElem?_replicate]) j]
  cases fill idx src (ndMap sizes) (fun _ => none) j <;> simp [hj]

theorem convertA_toList (idx : List Nat → Nat) (sizes : List Nat) (len : Nat) (zero : α) (src : List Nat → α)
    (h : ∀ c, InBox sizes c → idx c < len) :
    (convertA idx sizes len zero src).toList = (List.range len).map fun j => (convert idx sizes src j).getD zero := by
  apply List.ext_getElem?
  intro j
  by_cases hj : j < len
  · rw [Array.getElem?_toList, convertA_get idx sizes len zero src h j hj]
    simp [hj]
  · have : (convertA idx sizes len zero src).toList.length = len := by simp [convertA_size]
    rw [List.getElem?_eq_none (by omega), List.getElem?_eq_none (by simp; omega)]
end Covfie.C05

namespace Covfie.C05
variable {α : Type}
theorem fillA_congr (idx : List Nat → Nat) (src src' : List Nat → α) (ts : List (List Nat)) (st : Array α)
    (h : ∀ t ∈ ts, src t = src' t) : fillA idx src ts st = fillA idx src' ts st := by
  unfold fillA
  induction ts generalizing st with
  | nil => rfl
  | cons t ts ih =>
    simp only [List.foldl_cons]
    rw [h t List.mem_cons_self]
    exact ih _ (fun u hu => h u (List.mem_cons_of_mem _ hu))

/-- reading the converted storage through the target layout gives the source's value (tabulated form of `convert_at`) -/
theorem convertA_at (idx : List Nat → Nat) (sizes : List Nat) (len : Nat) (zero : α) (src : List Nat → α)
    (h : ∀ c, InBox sizes c → idx c < len)
    (hinj : ∀ c c', InBox sizes c → InBox sizes c' → idx c = idx c' → c = c')
    (c : List Nat) (hc : InBox sizes c) : (convertA idx sizes len zero src)[idx c]?.getD zero = src c := by
  rw [convertA_get idx sizes len zero src h (idx c) (h c hc), convert_at idx sizes src hinj c hc]; rfl

/-- **converting back reproduces the original storage, cell for cell** (including the value-initialised cells no
    coordinate maps to), for any source layout `idx₁` and any injective in-range target layout `idx₂` -/
theorem convert_back_storage (idx₁ idx₂ : List Nat → Nat) (sizes : List Nat) (len₁ len₂ : Nat) (zero : α) (f : List Nat → α)
    (h₂ : ∀ c, InBox sizes c → idx₂ c < len₂)
    (inj₂ : ∀ c c', InBox sizes c → InBox sizes c' → idx₂ c = idx₂ c' → c = c') :
    convertA idx₁ sizes len₁ zero (fun t => (convertA idx₂ sizes len₂ zero f)[idx₂ t]?.getD zero)
      = convertA idx₁ sizes len₁ zero f := by
  unfold convertA
  apply fillA_congr
  intro t ht
  exact convertA_at idx₂ sizes len₂ zero f h₂ inj₂ t ((mem_ndMap _ _).mp ht)

/-- the configuration (extents) is carried over unchanged and the new storage has exactly the allocated length -/
theorem convert_config (idx : List Nat → Nat) (sizes : List Nat) (len : Nat) (zero : α) (src : List Nat → α) :
    (sizes, (convertA idx sizes len zero src).size) = (sizes, len) := by rw [convertA_size]
end Covfie.C05
