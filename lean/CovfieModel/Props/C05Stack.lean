import CovfieModel.Props.C05
import CovfieModel.Props.C15
/-! # C05 (stack level) — a layout conversion preserves every lookup of the evaluator: the converted storage,
    read through the target layout, gives the source's value at every lattice coordinate; and so does any
    interpolator / affine layer placed above it (locality, C02). -/
namespace Covfie.C05
open Covfie.C15

/-- the storage after a conversion: cell `j` holds what the fold of writes over `nd_map` put there and is
    value-initialised (`zero`) where nothing was written (`make_unique<T[]>(n)` value-initialises) -/
def relayout {α : Type} (idx : List Nat → Nat) (sizes : List Nat) (len : Nat) (zero : α) (src : List Nat → α) : List α :=
  (List.range len).map fun j => (convert idx sizes src j).getD zero

theorem relayout_length {α : Type} (idx : List Nat → Nat) (sizes : List Nat) (len : Nat) (zero : α) (src : List Nat → α) :
    (relayout idx sizes len zero src).length = len := by simp [relayout]

theorem relayout_get {α : Type} (idx : List Nat → Nat) (sizes : List Nat) (len : Nat) (zero : α) (src : List Nat → α)
    (hinj : ∀ c c', InBox sizes c → InBox sizes c' → idx c = idx c' → c = c')
    (c : List Nat) (hc : InBox sizes c) (hlt : idx c < len) :
    (relayout idx sizes len zero src)[idx c]'(by rw [relayout_length]; exact hlt) = src c := by
  simp only [relayout, List.getElem_map, List.getElem_range]
  rw [convert_at idx sizes src hinj c hc]; rfl

/-- **conversion preserves lookups**: for source layout `idx₁` over `cells₁` and any target layout `idx₂` that is
    injective on the box and stays below the allocated length, looking up an in-range coordinate through the
    target layout over the converted storage returns the source's value (touching exactly the target's cell) -/
theorem convert_preserves_lookup (idx₁ idx₂ : List Nat → Nat) (sz : List Nat) (cells₁ : List (List Num)) (len₂ : Nat)
    (zero : List Num)
    (h₁ : ∀ c, InBox sz c → idx₁ c < cells₁.length)
    (h₂ : ∀ c, InBox sz c → idx₂ c < len₂)
    (inj₂ : ∀ c c', InBox sz c → InBox sz c' → idx₂ c = idx₂ c' → c = c')
    (c : List Nat) (hc : InBox sz c) :
    ∃ v, layoutL idx₁ (arrayB cells₁) (coordOf c) = .ok (v, [idx₁ c]) ∧
         layoutL idx₂ (arrayB (relayout idx₂ sz len₂ zero (fun t => cells₁.getD (idx₁ t) zero))) (coordOf c)
           = .ok (v, [idx₂ c]) := by
  refine ⟨cells₁[idx₁ c]'(h₁ c hc), layout_array_safe idx₁ cells₁ c (h₁ c hc), ?_⟩
  have hl : idx₂ c < (relayout idx₂ sz len₂ zero (fun t => cells₁.getD (idx₁ t) zero)).length := by
    rw [relayout_length]; exact h₂ c hc
  rw [layout_array_safe idx₂ _ c hl]
  congr 2
  rw [relayout_get idx₂ sz len₂ zero _ inj₂ c hc (h₂ c hc)]
  simp [List.getD, List.getElem?_eq_getElem (h₁ c hc)]

/-- instance: row-major → portable Morton, as field<morton<…>>(field<strided<…>>) does it -/
theorem strided_to_morton_preserves (w : Nat) (sz : List Nat) (cells : List (List Num)) (k : Nat) (zero : List Num)
    (hlen : cells.length = prod sz) (hfit : prod sz ≤ 2^w) (hN : 0 < sz.length)
    (hk : ∀ s ∈ sz, s ≤ 2^k) (hk64 : k ≤ 64 / sz.length) (c : List Nat) (hc : InBox sz c) :
    ∃ v, eval (fun x => .ok x) (.strided w .array) (.sized sz (.array cells)) (coordOf c) = .ok (v, [stridedIdxW w sz c]) ∧
         eval (fun x => .ok x) (.mortonF .array)
           (.sized sz (.array (relayout mortonLoop sz (2^(k * sz.length)) zero (fun t => cells.getD (stridedIdxW w sz t) zero))))
           (coordOf c) = .ok (v, [mortonLoop c]) := by
  simp only [eval]
  apply convert_preserves_lookup (stridedIdxW w sz) mortonLoop sz cells _ zero _ _ _ c hc
  · intro t ht; rw [strided_nowrap w sz t ht hfit, hlen]; exact strided_lt sz t ht
  · intro t ht; exact C01.morton_in_storage sz t k ht hN hk
  · intro a b ha hb e
    exact C01.morton_no_alias sz a b ha hb hN
      (fun s hs => Nat.le_trans (hk s hs) (Nat.pow_le_pow_right (by omega) hk64)) e

/-- an interpolator or any other layer above the storage order sees the same field after the conversion:
    if two backends agree (in value) on every coordinate a layer queries, so do the layered lookups — this is C02's
    locality; stated here for the linear interpolator over two storage orders that agree on the lattice -/
theorem linear_over_converted (b₁ b₂ : Backend) (c : List Num)
    (h : ∀ parts bs, mapE truncIdx c = .ok parts → bs ∈ corners c.length →
      b₁ (addBits (parts.map (·.1)) bs) = b₂ (addBits (parts.map (·.1)) bs)) :
    linearL b₁ c = linearL b₂ c := C02.linear_local b₁ b₂ c h

end Covfie.C05
