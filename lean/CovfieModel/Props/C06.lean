import CovfieModel.Lemmas.IO
/-! # C06 — Dumping a field and loading it back reproduces it exactly -/
namespace Covfie.C06
open Covfie.IO

/-- loading a dump (followed by anything) returns exactly the dumped configuration at every layer and the
    bit-identical stored words, and consumes exactly the dump -/
theorem load_dump (ty : Ty) (d : Dat) (rest : List Byte) (h : WF ty d) :
    load ty (dump ty d ++ rest) = .ok (d, rest) := IO.load_dump ty d rest h

/-- dumping the reloaded field produces exactly the same bytes as the first dump -/
theorem redump (ty : Ty) (d d' : Dat) (r : List Byte) (h : WF ty d)
    (hl : load ty (dump ty d) = .ok (d', r)) : dump ty d' = dump ty d ∧ r = [] := by
  have := IO.load_dump ty d [] h
  simp only [List.append_nil] at this
  rw [this] at hl
  simp only [Except.ok.injEq, Prod.mk.injEq] at hl
  exact ⟨by rw [← hl.1], hl.2.symm⟩

/-- **a dump determines the field**: two well-formed contents of one type with the same bytes are the same content
    (every configuration word and every stored word can be read off the file) -/
theorem dump_injective (ty : Ty) (d₁ d₂ : Dat) (h₁ : WF ty d₁) (h₂ : WF ty d₂) (h : dump ty d₁ = dump ty d₂) : d₁ = d₂ := by
  have a := IO.load_dump ty d₁ [] h₁
  have b := IO.load_dump ty d₂ [] h₂
  rw [h, b] at a
  simp only [Except.ok.injEq, Prod.mk.injEq, and_true] at a
  exact a.symm

/-- **several dumps in one stream**: loading twice from `dump a ++ dump b ++ rest` yields `a`, then `b`, and leaves `rest` —
    a load consumes exactly one dump, whatever follows it -/
theorem load_two (ty₁ ty₂ : Ty) (d₁ d₂ : Dat) (rest : List Byte) (h₁ : WF ty₁ d₁) (h₂ : WF ty₂ d₂) :
    (load ty₁ (dump ty₁ d₁ ++ (dump ty₂ d₂ ++ rest))).bind (fun r => (load ty₂ r.2).map fun r' => (r.1, r'.1, r'.2))
      = .ok (d₁, d₂, rest) := by
  rw [IO.load_dump ty₁ d₁ _ h₁]
  simp only [Except.bind]
  rw [IO.load_dump ty₂ d₂ _ h₂]
  rfl

/-- the outcome of loading a dump does not depend on what follows it in the stream -/
theorem load_ignores_rest (ty : Ty) (d : Dat) (r₁ r₂ : List Byte) (h : WF ty d) :
    (load ty (dump ty d ++ r₁)).map Prod.fst = (load ty (dump ty d ++ r₂)).map Prod.fst := by
  rw [IO.load_dump ty d r₁ h, IO.load_dump ty d r₂ h]
  rfl

/-- non-vacuity: a 2×2 row-major field of float3 under an affine layer and an interpolator, with a NaN payload,
    a negative zero and a subnormal among the stored words -/
def exTy : Ty := .affine 4 2 (.thin (.sized T_STRIDED 2 (.array 3)))
def exDat : Dat := .affine [0x3f800000, 0, 0, 0, 0x3f800000, 0]
  (.thin (.sized [2, 2] (.array 4 4 [0x7fc00123, 0x80000000, 1, 2, 3, 4, 5, 6, 7, 8, 9, 0xff800000])))
example : WF exTy exDat := by
  simp [exTy, exDat, WF, allLt, FOOT, T_STRIDED]
set_option maxRecDepth 100000 in
example : (dump exTy exDat).length = 8 + (8 + 24 + (8 + 16 + (8 + 4 + 8 + 48 + 8) + 8) + 8) + 8 := by decide
end Covfie.C06
