import CovfieModel.Lemmas.IO
/-! # C06 — Dumping a field and loading it back reproduces it exactly -/
namespace Covfie.C06
open Covfie.IO

/-- loading a dump (followed by anything) returns exactly the dumped configuration at every layer and the
    bit-identical stored words, and consumes exactly the dump -/
theorem load_dump (ty : Ty) (d : Dat) (rest : List Byte) (h : WF ty d) :
    load ty (dump ty d ++ rest) = .ok (d, rest) := IO.load_dump ty d rest h

/-- dumping the reloaded field produces exactly the same bytes as the first dump -/
theorem redump (ty : Ty) (d d' : Dat) (r : List Byte) (h : WF ty d)
    (hl : load ty (dump ty d) = .ok (d', r)) : dump ty d' = dump ty d ∧ r = [] := by
  have := IO.load_dump ty d [] h
  simp only [List.append_nil] at this
  rw [this] at hl
  simp only [Except.ok.injEq, Prod.mk.injEq] at hl
  exact ⟨by rw [← hl.1], hl.2.symm⟩

/-- non-vacuity: a 2×2 row-major field of float3 under an affine layer and an interpolator, with a NaN payload,
    a negative zero and a subnormal among the stored words -/
def exTy : Ty := .affine 4 2 (.thin (.sized T_STRIDED 2 (.array 3)))
def exDat : Dat := .affine [0x3f800000, 0, 0, 0, 0x3f800000, 0]
  (.thin (.sized [2, 2] (.array 4 4 [0x7fc00123, 0x80000000, 1, 2, 3, 4, 5, 6, 7, 8, 9, 0xff800000])))
example : WF exTy exDat := by
  simp [exTy, exDat, WF, allLt, FOOT, T_STRIDED]
set_option maxRecDepth 100000 in
example : (dump exTy exDat).length = 8 + (8 + 24 + (8 + 16 + (8 + 4 + 8 + 48 + 8) + 8) + 8) + 8 := by decide
end Covfie.C06
