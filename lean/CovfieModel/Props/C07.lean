import CovfieModel.Lemmas.IO
/-! # C07 — Files are portable across interpolation method (footprint-free layers) and follow the nested grammar.
    (Precision conversion `widen`/`narrow` lives in `Props/C07Narrow.lean`.) -/
namespace Covfie.C07
open Covfie.IO

/-- remove the footprint-free layers (interpolators, shuffle, cast, dereference) -/
def strip : Ty → Ty
  | .thin b => strip b
  | .sized t N b => .sized t N (strip b)
  | .clamp sz N b => .clamp sz N (strip b)
  | .backup sz N osz M b => .backup sz N osz M (strip b)
  | .affine sz N b => .affine sz N (strip b)
  | t => t
def stripD : Dat → Dat
  | .thin d => stripD d
  | .sized cfg d => .sized cfg (stripD d)
  | .clamp lo hi d => .clamp lo hi (stripD d)
  | .backup lo hi df d => .backup lo hi df (stripD d)
  | .affine m d => .affine m (stripD d)
  | d => d
/-- re-insert the footprint-free layers of `ty` into stripped data -/
def rethin : Ty → Dat → Dat
  | .thin b, d => .thin (rethin b d)
  | .sized _ _ b, .sized cfg d => .sized cfg (rethin b d)
  | .clamp _ _ b, .clamp lo hi d => .clamp lo hi (rethin b d)
  | .backup _ _ _ _ b, .backup lo hi df d => .backup lo hi df (rethin b d)
  | .affine _ _ b, .affine m d => .affine m (rethin b d)
  | _, d => d

/-- interpolators and the other footprint-free layers write nothing: the bytes are those of the stripped stack -/
theorem dumpB_strip (ty : Ty) (d : Dat) (h : WF ty d) : dumpB ty d = dumpB (strip ty) (stripD d) := by
  induction ty generalizing d with
  | thin b ih => cases d <;> try (simp [WF] at h)
                 simp only [dumpB, strip, stripD]; exact ih _ h
  | sized t N b ih => cases d <;> try (simp [WF] at h)
                      simp only [dumpB, strip, stripD]; rw [ih _ h.2.2.2]
  | clamp sz N b ih => cases d <;> try (simp [WF] at h)
                       simp only [dumpB, strip, stripD]; rw [ih _ h.2.2.2.2]
  | backup sz N osz M b ih => cases d <;> try (simp [WF] at h)
                              simp only [dumpB, strip, stripD]; rw [ih _ h.2.2.2.2.2.2]
  | affine sz N b ih => cases d <;> try (simp [WF] at h)
                        simp only [dumpB, strip, stripD]; rw [ih _ h.2.2]
  | array M => cases d <;> simp_all [strip, stripD, WF]
  | constant sz M => cases d <;> simp_all [strip, stripD, WF]
  | identity => cases d <;> simp_all [strip, stripD, WF]

theorem WF_strip (ty : Ty) (d : Dat) (h : WF ty d) : WF (strip ty) (stripD d) := by
  induction ty generalizing d with
  | thin b ih => cases d <;> try (simp [WF] at h)
                 simp only [strip, stripD]; exact ih _ h
  | sized t N b ih => cases d <;> try (simp [WF] at h)
                      simp only [strip, stripD, WF]; exact ⟨h.1, h.2.1, h.2.2.1, ih _ h.2.2.2⟩
  | clamp sz N b ih => cases d <;> try (simp [WF] at h)
                       simp only [strip, stripD, WF]; exact ⟨h.1, h.2.1, h.2.2.1, h.2.2.2.1, ih _ h.2.2.2.2⟩
  | backup sz N osz M b ih => cases d <;> try (simp [WF] at h)
                              simp only [strip, stripD, WF]
                              exact ⟨h.1, h.2.1, h.2.2.1, h.2.2.2.1, h.2.2.2.2.1, h.2.2.2.2.2.1, ih _ h.2.2.2.2.2.2⟩
  | affine sz N b ih => cases d <;> try (simp [WF] at h)
                        simp only [strip, stripD, WF]; exact ⟨h.1, h.2.1, ih _ h.2.2⟩
  | array M => cases d <;> simp_all [strip, stripD, WF]
  | constant sz M => cases d <;> simp_all [strip, stripD, WF]
  | identity => cases d <;> simp_all [strip, stripD, WF]

theorem WF_rethin (ty : Ty) : ∀ x, WF (strip ty) x → WF ty (rethin ty x) ∧ stripD (rethin ty x) = x := by
  induction ty with
  | thin b ih => intro x h; simp only [strip] at h; simp only [rethin, WF, stripD]; exact ih x h
  | sized t N b ih =>
    intro x h; cases x <;> try (simp [strip, WF] at h)
    rename_i cfg d
    try simp only [strip, WF] at h
    obtain ⟨h1, h2⟩ := ih d h.2.2.2
    simp only [rethin, WF, stripD, h2]; exact ⟨⟨h.1, h.2.1, h.2.2.1, h1⟩, trivial⟩
  | clamp sz N b ih =>
    intro x h; cases x <;> try (simp [strip, WF] at h)
    rename_i lo hi d
    try simp only [strip, WF] at h
    obtain ⟨h1, h2⟩ := ih d h.2.2.2.2
    simp only [rethin, WF, stripD, h2]; exact ⟨⟨h.1, h.2.1, h.2.2.1, h.2.2.2.1, h1⟩, trivial⟩
  | backup sz N osz M b ih =>
    intro x h; cases x <;> try (simp [strip, WF] at h)
    rename_i lo hi df d
    try simp only [strip, WF] at h
    obtain ⟨h1, h2⟩ := ih d h.2.2.2.2.2.2
    simp only [rethin, WF, stripD, h2]
    exact ⟨⟨h.1, h.2.1, h.2.2.1, h.2.2.2.1, h.2.2.2.2.1, h.2.2.2.2.2.1, h1⟩, trivial⟩
  | affine sz N b ih =>
    intro x h; cases x <;> try (simp [strip, WF] at h)
    rename_i m d
    try simp only [strip, WF] at h
    obtain ⟨h1, h2⟩ := ih d h.2.2
    simp only [rethin, WF, stripD, h2]; exact ⟨⟨h.1, h.2.1, h1⟩, trivial⟩
  | array M => intro x h; cases x <;> simp_all [strip, rethin, stripD, WF]
  | constant sz M => intro x h; cases x <;> simp_all [strip, rethin, stripD, WF]
  | identity => intro x h; cases x <;> simp_all [strip, rethin, stripD, WF]

/-- **Portability across footprint-free layers**: a file written from `ty₁` loads into any `ty₂` that differs
    only in interpolators / shuffle / cast / dereference layers; every configuration and every stored word is
    unchanged (the data is that of the stripped stack with `ty₂`'s footprint-free layers re-inserted). -/
theorem load_cross_interp (ty₁ ty₂ : Ty) (d : Dat) (rest : List Byte) (h : WF ty₁ d)
    (hs : strip ty₁ = strip ty₂) :
    load ty₂ (dump ty₁ d ++ rest) = .ok (rethin ty₂ (stripD d), rest) := by
  have hw := WF_strip ty₁ d h
  rw [hs] at hw
  obtain ⟨hw2, hsd⟩ := WF_rethin ty₂ (stripD d) hw
  have e : dump ty₁ d = dump ty₂ (rethin ty₂ (stripD d)) := by
    unfold dump
    rw [dumpB_strip ty₁ d h, dumpB_strip ty₂ _ hw2, hsd, hs]
  rw [e]
  exact load_dump ty₂ _ rest hw2

/-- … and the field so loaded **re-dumps to the very bytes it was loaded from**: nothing of the file's origin (which
    interpolator wrote it) survives in the loaded field, and nothing is lost (harness: `crossredump`) -/
theorem cross_interp_redump (ty₁ ty₂ : Ty) (d : Dat) (h : WF ty₁ d) (hs : strip ty₁ = strip ty₂) :
    dump ty₂ (rethin ty₂ (stripD d)) = dump ty₁ d ∧ WF ty₂ (rethin ty₂ (stripD d)) := by
  have hw := WF_strip ty₁ d h
  rw [hs] at hw
  obtain ⟨hw2, hsd⟩ := WF_rethin ty₂ (stripD d) hw
  refine ⟨?_, hw2⟩
  unfold dump
  rw [dumpB_strip ty₁ d h, dumpB_strip ty₂ _ hw2, hsd, hs]

/-- in particular nearest-neighbour ↔ linear: same bytes -/
theorem dump_interp_transparent (ty : Ty) (d : Dat) : dump (.thin ty) (.thin d) = dump ty d := rfl

end Covfie.C07
