import CovfieModel.Props.C06
import CovfieModel.Model.Narrow
/-! # C07 — a field loaded from a file of the other float width is a well-formed field of its own type

`convDat w` is what `array::read_binary` leaves in a field whose stored scalars are `w` bytes wide when the file's
scalars have the other width (`static_cast` per scalar).  Here: the converted patterns fit the target width
(`narrowBits_lt`, `widenBits_lt`), hence the converted content is well-formed for the same type (`convDat_WF`), hence the
loaded field's own dump is a valid file that reloads to exactly that content (`cross_width_redump`) and stores `w`-byte
scalars (`convDat_width`) — whatever the width of the file it came from.  (Harness: `crossredump`.) -/
namespace Covfie.C07
open Covfie.IO

theorem pack32_le (M : Nat) (E : Int) : pack32 M E ≤ 0x7f800000 := by
  unfold pack32
  simp only []
  split <;> omega

theorem narrowBits_lt (b : Nat) : narrowBits b < 2^32 := by
  have hs : b / 2^63 % 2 < 2 := Nat.mod_lt _ (by decide)
  have hm : b % 2^52 / 2^29 < 2^23 := by
    have : b % 2^52 < 2^52 := Nat.mod_lt _ (Nat.two_pow_pos 52)
    omega
  have hor : (b % 2^52 / 2^29) ||| 2^22 < 2^23 := Nat.or_lt_two_pow hm (by decide)
  have hp := pack32_le (narrowME (dec64 b).1 (dec64 b).2).1 (narrowME (dec64 b).1 (dec64 b).2).2
  unfold narrowBits
  simp only []
  split
  · split <;> omega
  · split <;> omega

theorem widenBits_lt (b : Nat) (_hb : b < 2^32) : widenBits b < 2^64 := by
  unfold widenBits
  have hs : (b / 2^31 % 2) * 2^63 ≤ 2^63 := by
    have : b / 2^31 % 2 < 2 := Nat.mod_lt _ (by omega)
    omega
  have he : b / 2^23 % 2^8 < 2^8 := Nat.mod_lt _ (by omega)
  have hm : b % 2^23 < 2^23 := Nat.mod_lt _ (by omega)
  simp only []
  split
  · split
    · omega
    · have hor : (b % 2^23) ||| 2^22 < 2^23 := Nat.or_lt_two_pow hm (by omega)
      omega
  · split
    · split
      · omega
      · rename_i hm0
        -- subnormal: m < 2^len with len = log2 m + 1 ≤ 23, so m · 2^(53 − len) < 2^53
        have hlen : Nat.log2 (b % 2^23) + 1 ≤ 23 := by
          have := (Nat.log2_lt hm0).mpr hm
          omega
        have hlt : b % 2^23 < 2^(Nat.log2 (b % 2^23) + 1) := Nat.lt_log2_self
        have hmul : (b % 2^23) * 2^(53 - (Nat.log2 (b % 2^23) + 1)) < 2^53 := by
          calc (b % 2^23) * 2^(53 - (Nat.log2 (b % 2^23) + 1))
              < 2^(Nat.log2 (b % 2^23) + 1) * 2^(53 - (Nat.log2 (b % 2^23) + 1)) :=
                Nat.mul_lt_mul_of_pos_right hlt (Nat.two_pow_pos _)
            _ = 2^53 := by rw [← Nat.pow_add]; congr 1; omega
        omega
    · omega

theorem allLt_map {f : Nat → Nat} {B B' : Nat} (hf : ∀ x, x < B → f x < B') (l : List Nat) (h : allLt B l) :
    allLt B' (l.map f) := by
  intro y hy
  obtain ⟨x, hx, rfl⟩ := List.mem_map.mp hy
  exact hf x (h x hx)

theorem convCell_lt (wd w x : Nat) (hwd : wd = 4 ∨ wd = 8) (hw : w = 4 ∨ w = 8) (hx : x < 256^wd) : convCell wd w x < 256^w := by
  unfold convCell
  rcases hwd with rfl | rfl <;> rcases hw with rfl | rfl
  · simpa using hx
  · simp only [show (4 : Nat) ≠ 8 by omega, if_false, true_and, if_true]
    have := widenBits_lt x (by simpa using hx)
    simpa using this
  · simp only [show (8 : Nat) ≠ 4 by omega, if_false, false_and, true_and, if_true]
    have := narrowBits_lt x
    simpa using this
  · simpa using hx

/-- the converted content is well-formed for the same type -/
theorem convDat_WF (ty : Ty) (d : Dat) (w : Nat) (hw : w = 4 ∨ w = 8) (h : WF ty d) : WF ty (convDat w d) := by
  induction ty generalizing d with
  | array M =>
    cases d <;> try (simp [WF] at h)
    rename_i wd count cells
    obtain ⟨hwd, hc, hl, ha⟩ := h
    simp only [convDat, WF, List.length_map]
    exact ⟨hw, hc, hl, allLt_map (fun x hx => convCell_lt wd w x hwd hw hx) cells ha⟩
  | constant sz M => cases d <;> try (simp [WF] at h)
                     simp only [convDat, WF]; exact h
  | identity => cases d <;> try (simp [WF] at h)
                simp [convDat, WF]
  | sized t N b ih => cases d <;> try (simp [WF] at h)
                      simp only [convDat, WF]; exact ⟨h.1, h.2.1, h.2.2.1, ih _ h.2.2.2⟩
  | clamp sz N b ih => cases d <;> try (simp [WF] at h)
                       simp only [convDat, WF]; exact ⟨h.1, h.2.1, h.2.2.1, h.2.2.2.1, ih _ h.2.2.2.2⟩
  | backup sz N osz M b ih => cases d <;> try (simp [WF] at h)
                              simp only [convDat, WF]
                              exact ⟨h.1, h.2.1, h.2.2.1, h.2.2.2.1, h.2.2.2.2.1, h.2.2.2.2.2.1, ih _ h.2.2.2.2.2.2⟩
  | affine sz N b ih => cases d <;> try (simp [WF] at h)
                        simp only [convDat, WF]; exact ⟨h.1, h.2.1, ih _ h.2.2⟩
  | thin b ih => cases d <;> try (simp [WF] at h)
                 simp only [convDat, WF]; exact ih _ h

/-- the stored-scalar width of (the array at the bottom of) some content -/
def widthOf : Dat → Option Nat
  | .array wd _ _ => some wd
  | .constant _ | .identity => none
  | .sized _ d | .clamp _ _ d | .backup _ _ _ d | .affine _ d | .thin d => widthOf d

/-- whatever the width of the file, the loaded field holds scalars of its own width -/
theorem convDat_width (w : Nat) (d : Dat) : widthOf (convDat w d) = (widthOf d).map fun _ => w := by
  induction d with
  | array wd count cells => rfl
  | constant v => rfl
  | identity => rfl
  | sized cfg d ih => simpa [convDat, widthOf] using ih
  | clamp lo hi d ih => simpa [convDat, widthOf] using ih
  | backup lo hi df d ih => simpa [convDat, widthOf] using ih
  | affine m d ih => simpa [convDat, widthOf] using ih
  | thin d ih => simpa [convDat, widthOf] using ih

/-- **re-dump of a cross-width load**: the dump of the converted content is a file of the field's own type that loads
    back to exactly that content — nothing of the source file's width survives in the loaded field -/
theorem cross_width_redump (ty : Ty) (d : Dat) (w : Nat) (hw : w = 4 ∨ w = 8) (h : WF ty d) (rest : List Byte) :
    load ty (dump ty (convDat w d) ++ rest) = .ok (convDat w d, rest) :=
  C06.load_dump ty (convDat w d) rest (convDat_WF ty d w hw h)

/-- same width: loading changes nothing -/
theorem convDat_same (d : Dat) (w : Nat) (h : widthOf d = some w ∨ widthOf d = none) : convDat w d = d := by
  induction d with
  | array wd count cells =>
    rcases h with h | h
    · simp only [widthOf, Option.some.injEq] at h
      subst h
      have hid : ∀ x, convCell wd wd x = x := by intro x; simp [convCell]
      simp only [convDat, List.map_id'' hid]
    · simp [widthOf] at h
  | constant v => rfl
  | identity => rfl
  | sized cfg d ih => simp only [convDat]; rw [ih (by simpa [widthOf] using h)]
  | clamp lo hi d ih => simp only [convDat]; rw [ih (by simpa [widthOf] using h)]
  | backup lo hi df d ih => simp only [convDat]; rw [ih (by simpa [widthOf] using h)]
  | affine m d ih => simp only [convDat]; rw [ih (by simpa [widthOf] using h)]
  | thin d ih => simp only [convDat]; rw [ih (by simpa [widthOf] using h)]

-- non-vacuity: a float file's content, as held by a double field
example : WF (.thin (.sized 0xAB020005 2 (.array 1))) (.thin (.sized [2, 1] (.array 4 2 [0x3f800000, 0x00000001]))) := by
  simp [WF, allLt, FOOT]
#guard convDat 8 (.thin (.sized [2, 1] (.array 4 2 [0x3f800000, 0x00000001])))
      == .thin (.sized [2, 1] (.array 8 2 [0x3ff0000000000000, 0x36a0000000000000]))

end Covfie.C07
