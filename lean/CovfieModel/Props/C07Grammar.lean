import CovfieModel.Model.IO
/-! # C07 (grammar part) — the byte stream of a dump always follows the nested header / payload / footer grammar
    `stack ::= H(tag) payload stack? F(tag)`, `H(t) = C04F1EAB t`, `F(t) = C04F1E70 (t + 20000000)`;
    the sequence of tags is determined by the stack type alone (footprint-free layers contribute nothing),
    and the length of every payload is determined by the type (and, for the array, by the width and count words). -/
namespace Covfie.C07
open Covfie.IO

/-- `Gram tags bs`: `bs` is a bracket nest whose tags, outermost first, are `tags`, each bracket being
    header · payload · (inner nest) · footer -/
inductive Gram : List Nat → List Byte → Prop
  | leaf (t : Nat) (payload : List Byte) : Gram [t] (hdr t ++ payload ++ ftr t)
  | node (t : Nat) (ts : List Nat) (payload inner : List Byte) :
      Gram ts inner → Gram (t :: ts) (hdr t ++ (payload ++ inner) ++ ftr t)

/-- the tags a stack type writes, outermost first -/
def tags : Ty → List Nat
  | .array _ => [T_ARRAY]
  | .constant _ _ => [T_CONST]
  | .identity => [T_IDENT]
  | .sized t _ b => t :: tags b
  | .clamp _ _ b => T_CLAMP :: tags b
  | .backup _ _ _ _ b => T_BACKUP :: tags b
  | .affine _ _ b => T_AFFINE :: tags b
  | .thin b => tags b

theorem tags_ne_nil (ty : Ty) : tags ty ≠ [] := by
  induction ty <;> simp_all [tags]

/-- every layer's bytes are a bracket nest with exactly the type's tags -/
theorem dumpB_grammar (ty : Ty) (d : Dat) (h : WF ty d) : Gram (tags ty) (dumpB ty d) := by
  induction ty generalizing d with
  | array M => cases d <;> simp only [WF] at h; exact Gram.leaf _ _
  | constant sz M => cases d <;> simp only [WF] at h; exact Gram.leaf _ _
  | identity => cases d <;> simp only [WF] at h; exact Gram.leaf _ _
  | sized t N b ih =>
    cases d <;> simp only [WF] at h
    simp only [dumpB, wrapD, tags]
    exact Gram.node _ _ _ _ (ih _ h.2.2.2)
  | clamp sz N b ih =>
    cases d <;> simp only [WF] at h
    rename_i lo hi d
    simp only [dumpB, wrapD, tags, List.append_assoc]
    have := Gram.node T_CLAMP _ (words sz lo ++ words sz hi) _ (ih _ h.2.2.2.2)
    simpa only [List.append_assoc] using this
  | backup sz N osz M b ih =>
    cases d <;> simp only [WF] at h
    rename_i lo hi df d
    simp only [dumpB, wrapD, tags, List.append_assoc]
    have := Gram.node T_BACKUP _ (words sz lo ++ (words sz hi ++ words osz df)) _ (ih _ h.2.2.2.2.2.2)
    simpa only [List.append_assoc] using this
  | affine sz N b ih =>
    cases d <;> simp only [WF] at h
    simp only [dumpB, wrapD, tags]
    exact Gram.node _ _ _ _ (ih _ h.2.2)
  | thin b ih =>
    cases d <;> simp only [WF] at h
    simp only [dumpB, tags]
    exact ih _ h

/-- **the whole file** is the global bracket around the stack's nest -/
theorem dump_grammar (ty : Ty) (d : Dat) (h : WF ty d) : Gram (T_FIELD :: tags ty) (dump ty d) := by
  have := Gram.node T_FIELD (tags ty) [] (dumpB ty d) (dumpB_grammar ty d h)
  simpa only [dump, wrapD, List.nil_append] using this

/-- a bracket nest starts with the header magic and its first tag, and ends with the footer of that tag -/
theorem Gram_head (ts : List Nat) (bs : List Byte) (g : Gram ts bs) :
    ∃ t rest mid, ts = t :: rest ∧ bs = hdr t ++ mid ++ ftr t := by
  cases g with
  | leaf t p => exact ⟨t, [], p, rfl, rfl⟩
  | node t ts p i _ => exact ⟨t, ts, p ++ i, rfl, rfl⟩

/-- interpolators and the other footprint-free layers do not change the tag sequence -/
theorem tags_thin (b : Ty) : tags (.thin b) = tags b := rfl

/-- total length of a dump in closed form: 16 bytes of bracket per tag plus the payloads -/
def payloadLen : Ty → Dat → Nat
  | .array _, .array wd _ cells => 4 + 8 + wd * cells.length
  | .constant sz _, .constant v => sz * v.length
  | .identity, .identity => 0
  | .sized _ _ b, .sized cfg d => 8 * cfg.length + payloadLen b d
  | .clamp sz _ b, .clamp lo hi d => sz * lo.length + sz * hi.length + payloadLen b d
  | .backup sz _ osz _ b, .backup lo hi df d => sz * lo.length + sz * hi.length + osz * df.length + payloadLen b d
  | .affine sz _ b, .affine m d => sz * m.length + payloadLen b d
  | .thin b, .thin d => payloadLen b d
  | _, _ => 0

theorem le_len (k w : Nat) : (le k w).length = k := by
  induction k generalizing w with
  | zero => rfl
  | succ k ih => simp [le, ih]

theorem words_length (k : Nat) (xs : List Nat) : (words k xs).length = k * xs.length := by
  induction xs with
  | nil => simp [words]
  | cons x xs ih =>
    simp only [words, List.flatMap_cons, List.length_append, le_len, List.length_cons] at ih ⊢
    rw [ih, Nat.mul_succ]; omega

theorem hdr_length (t : Nat) : (hdr t).length = 8 := by simp [hdr, le_len]
theorem ftr_length (t : Nat) : (ftr t).length = 8 := by simp [ftr, le_len]

theorem dumpB_length (ty : Ty) (d : Dat) (h : WF ty d) :
    (dumpB ty d).length = 16 * (tags ty).length + payloadLen ty d := by
  induction ty generalizing d with
  | array M => cases d <;> simp only [WF] at h
               simp [dumpB, wrapD, tags, payloadLen, hdr_length, ftr_length, le_len, words_length]; omega
  | constant sz M => cases d <;> simp only [WF] at h
                     simp [dumpB, wrapD, tags, payloadLen, hdr_length, ftr_length, words_length]; omega
  | identity => cases d <;> simp only [WF] at h
                simp [dumpB, wrapD, tags, payloadLen, hdr_length, ftr_length]
  | sized t N b ih =>
    cases d <;> simp only [WF] at h
    simp [dumpB, wrapD, tags, payloadLen, hdr_length, ftr_length, words_length, ih _ h.2.2.2]; omega
  | clamp sz N b ih =>
    cases d <;> simp only [WF] at h
    simp [dumpB, wrapD, tags, payloadLen, hdr_length, ftr_length, words_length, ih _ h.2.2.2.2]; omega
  | backup sz N osz M b ih =>
    cases d <;> simp only [WF] at h
    simp [dumpB, wrapD, tags, payloadLen, hdr_length, ftr_length, words_length, ih _ h.2.2.2.2.2.2]; omega
  | affine sz N b ih =>
    cases d <;> simp only [WF] at h
    simp [dumpB, wrapD, tags, payloadLen, hdr_length, ftr_length, words_length, ih _ h.2.2]; omega
  | thin b ih =>
    cases d <;> simp only [WF] at h
    simp [dumpB, tags, payloadLen, ih _ h]

/-- closed form of the file size -/
theorem dump_length (ty : Ty) (d : Dat) (h : WF ty d) :
    (dump ty d).length = 16 * ((tags ty).length + 1) + payloadLen ty d := by
  simp [dump, wrapD, hdr_length, ftr_length, dumpB_length ty d h]; omega

-- non-vacuity: the ATLAS-like stack (affine over linear over row-major float3 array)
example : tags (.affine 4 3 (.thin (.sized T_STRIDED 3 (.array 3)))) = [T_AFFINE, T_STRIDED, T_ARRAY] := rfl
end Covfie.C07
