import CovfieModel.Model.Narrow
/-! # C07 (precision part) — narrowing double → float rounds to nearest (ties to even); widening is exact.
    Stated on the integer significand/exponent pair `(M, E)` (value `M · 2^E`); the bit-packing around it is
    validated against the hardware conversion by the correspondence check.
    The definitions (`rshift`, `narrowME`, `narrowBits`, `widenBits`) live in `Model/Narrow.lean` so that the driver runs them. -/
namespace Covfie.C07

/-- `|M − 2^sh · rshift M sh| ≤ 2^sh / 2`, stated without subtraction -/
theorem rshift_bound (M sh : Nat) :
    2 * M ≤ 2 * (2^sh * rshift M sh) + 2^sh ∧ 2 * (2^sh * rshift M sh) ≤ 2 * M + 2^sh := by
  unfold rshift
  by_cases h0 : sh = 0
  · subst h0; simp
  · simp only [h0, if_false]
    have hp : 0 < 2^sh := Nat.two_pow_pos sh
    have hd := Nat.div_add_mod M (2^sh)
    have hr := Nat.mod_lt M hp
    have hhalf : 2 * (2^sh / 2) = 2^sh := by
      obtain ⟨k, rfl⟩ : ∃ k, sh = k + 1 := ⟨sh - 1, by omega⟩
      rw [Nat.pow_succ]; omega
    generalize 2^sh / 2 = half at *
    generalize M / 2^sh = q at *
    generalize M % 2^sh = r at *
    generalize 2^sh = P at *
    have e1 : P * (q + 1) = P * q + P := by rw [Nat.mul_add, Nat.mul_one]
    split
    · constructor <;> omega
    · split
      · rw [e1]; constructor <;> omega
      · split
        · constructor <;> omega
        · rw [e1]; constructor <;> omega

/-- values exactly representable at the coarser quantum are unchanged (in particular every widened float) -/
theorem rshift_exact (M sh : Nat) (h : M % 2^sh = 0) : 2^sh * rshift M sh = M := by
  unfold rshift
  by_cases h0 : sh = 0
  · subst h0; simp
  · simp only [h0, if_false, h]
    have hp : 0 < 2^sh / 2 := by
      obtain ⟨k, rfl⟩ : ∃ k, sh = k + 1 := ⟨sh - 1, by omega⟩
      rw [Nat.pow_succ]; have := Nat.two_pow_pos k; omega
    simp [hp]
    have := Nat.div_add_mod M (2^sh); rw [h] at this; omega

/-- ties go to the even significand -/
theorem rshift_tie_even (M sh : Nat) (h0 : sh ≠ 0) (h : M % 2^sh = 2^sh / 2) : rshift M sh % 2 = 0 := by
  unfold rshift
  simp only [h0, if_false, h, Nat.lt_irrefl, gt_iff_lt]
  split <;> omega

/-- half-quantum accuracy: `|M·2^E − M'·2^E'| ≤ 2^E' / 2` (scaled by `2^(−E)` to stay in the integers) -/
theorem narrowME_bound (M : Nat) (E : Int) :
    ∃ sh : Nat, (narrowME M E).2 = E + sh ∧
      2 * M ≤ 2 * (2^sh * (narrowME M E).1) + 2^sh ∧ 2 * (2^sh * (narrowME M E).1) ≤ 2 * M + 2^sh :=
  ⟨_, rfl, rshift_bound _ _⟩

-- tests of the model (the harness compares these decisions with `static_cast<float>(double)`):
#guard narrowME (2^52 + 1) (-52) == (2^23, -23)            -- 1 + 2^-52  → 1.0
#guard narrowME (2^52 + 2^28) (-52) == (2^23, -23)         -- tie, even below
#guard narrowME (2^52 + 3 * 2^28) (-52) == (2^23 + 2, -23) -- tie, even above
#guard narrowME 1 (-1074) == (0, -149)                     -- smallest subnormal double → 0
end Covfie.C07
