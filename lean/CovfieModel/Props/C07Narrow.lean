import CovfieModel.Model.Narrow
/-! # C07 (precision part) — narrowing double → float rounds to nearest (ties to even); widening is exact.
    Stated on the integer significand/exponent pair `(M, E)` (value `M · 2^E`); the bit-packing around it is
    validated against the hardware conversion by the correspondence check.
    The definitions (`rshift`, `narrowME`, `narrowBits`, `widenBits`) live in `Model/Narrow.lean` so that the driver runs them. -/
namespace Covfie.C07

/-- `|M − 2^sh · rshift M sh| ≤ 2^sh / 2`, stated without subtraction -/
theorem rshift_bound (M sh : Nat) :
    2 * M ≤ 2 * (2^sh * rshift M sh) + 2^sh ∧ 2 * (2^sh * rshift M sh) ≤ 2 * M + 2^sh := by
  unfold rshift
  by_cases h0 : sh = 0
  · subst h0; simp
  · simp only [h0, if_false]
    have hp : 0 < 2^sh := Nat.two_pow_pos sh
    have hd := Nat.div_add_mod M (2^sh)
    have hr := Nat.mod_lt M hp
    have hhalf : 2 * (2^sh / 2) = 2^sh := by
      obtain ⟨k, rfl⟩ : ∃ k, sh = k + 1 := ⟨sh - 1, by omega⟩
      rw [Nat.pow_succ]; omega
    generalize 2^sh / 2 = half at *
    generalize M / 2^sh = q at *
    generalize M % 2^sh = r at *
    generalize 2^sh = P at *
    have e1 : P * (q + 1) = P * q + P := by rw [Nat.mul_add, Nat.mul_one]
    split
    · constructor <;> omega
    · split
      · rw [e1]; constructor <;> omega
      · split
        · constructor <;> omega
        · rw [e1]; constructor <;> omega

/-- values exactly representable at the coarser quantum are unchanged (in particular every widened float) -/
theorem rshift_exact (M sh : Nat) (h : M % 2^sh = 0) : 2^sh * rshift M sh = M := by
  unfold rshift
  by_cases h0 : sh = 0
  · subst h0; simp
  · simp only [h0, if_false, h]
    have hp : 0 < 2^sh / 2 := by
      obtain ⟨k, rfl⟩ : ∃ k, sh = k + 1 := ⟨sh - 1, by omega⟩
      rw [Nat.pow_succ]; have := Nat.two_pow_pos k; omega
    simp [hp]
    have := Nat.div_add_mod M (2^sh); rw [h] at this; omega

/-- ties go to the even significand -/
theorem rshift_tie_even (M sh : Nat) (h0 : sh ≠ 0) (h : M % 2^sh = 2^sh / 2) : rshift M sh % 2 = 0 := by
  unfold rshift
  simp only [h0, if_false, h, Nat.lt_irrefl, gt_iff_lt]
  split <;> omega

/-- half-quantum accuracy: `|M·2^E − M'·2^E'| ≤ 2^E' / 2` (scaled by `2^(−E)` to stay in the integers) -/
theorem narrowME_bound (M : Nat) (E : Int) :
    ∃ sh : Nat, (narrowME M E).2 = E + sh ∧
      2 * M ≤ 2 * (2^sh * (narrowME M E).1) + 2^sh ∧ 2 * (2^sh * (narrowME M E).1) ≤ 2 * M + 2^sh :=
  ⟨_, rfl, rshift_bound _ _⟩

-- tests of the model (the harness compares these decisions with `static_cast<float>(double)`):
#guard narrowME (2^52 + 1) (-52) == (2^23, -23)            -- 1 + 2^-52  → 1.0
#guard narrowME (2^52 + 2^28) (-52) == (2^23, -23)         -- tie, even below
#guard narrowME (2^52 + 3 * 2^28) (-52) == (2^23 + 2, -23) -- tie, even above
#guard narrowME 1 (-1074) == (0, -149)                     -- smallest subnormal double → 0
end Covfie.C07

/-! ## Bit-pattern layer (`narrowBits`, `widenBits`, `pack32` of `Model/Narrow.lean`)

`narrowBits` decodes a finite binary64 pattern to `(M, E)` (`dec64`), rounds with `narrowME` and packs with `pack32`.
The lemmas below say that packing is the inverse of the binary32 decoder `dec32` on every rounded magnitude that
`narrowME` can produce (normal, subnormal, and the carry `M' = 2^24` into the next binade), so the half-quantum bound of
`narrowME_bound` is a statement about the value that the produced bit pattern denotes. The agreement of `narrowBits` with
`static_cast<float>(double)` itself is the correspondence obligation `narrow_hw`. -/
namespace Covfie.C07

/-- normal result: 24 significant bits -/
theorem dec32_pack32_normal (M' : Nat) (E' : Int) (h1 : 2^23 ≤ M') (h2 : M' < 2^24) (h3 : -149 ≤ E')
    (h4 : (E' + 149).toNat * 2^23 + M' < 0x7f800000) : dec32 (pack32 M' E') = (M', E') := by
  obtain ⟨k, rfl⟩ : ∃ k : Nat, E' = (k : Int) - 149 := ⟨(E' + 149).toNat, by omega⟩
  have hk : ((k : Int) - 149 + 149).toNat = k := by omega
  rw [hk] at h4
  unfold pack32 dec32
  simp only [hk]
  have hlt : ¬ (k * 2^23 + M' ≥ 0x7f800000) := by omega
  simp only [hlt, if_false]
  have e1 : (k * 2^23 + M') / 2^23 % 2^8 = k + 1 := by omega
  have e2 : (k * 2^23 + M') % 2^23 = M' - 2^23 := by omega
  rw [e1, e2]
  have : ¬ (k + 1 = 0) := by omega
  simp only [this, if_false]
  refine Prod.ext ?_ ?_
  · show 2^23 + (M' - 2^23) = M'; omega
  · show ((k + 1 : Nat) : Int) - 150 = (k : Int) - 149; omega

/-- subnormal result: fewer than 24 bits at the quantum 2^−149 -/
theorem dec32_pack32_subnormal (M' : Nat) (h : M' < 2^23) : dec32 (pack32 M' (-149)) = (M', -149) := by
  unfold pack32 dec32
  have h0 : ((-149 : Int) + 149).toNat = 0 := by omega
  simp only [h0, Nat.zero_mul, Nat.zero_add]
  have hlt : ¬ (M' ≥ 0x7f800000) := by omega
  simp only [hlt, if_false]
  have e1 : M' / 2^23 % 2^8 = 0 := by omega
  have e2 : M' % 2^23 = M' := by omega
  simp [e1, e2]

/-- rounding carried out of the significand (`M' = 2^24`): the packed pattern is the power of two of the next binade -/
theorem dec32_pack32_carry (E' : Int) (h3 : -149 ≤ E') (h4 : (E' + 149).toNat * 2^23 + 2^24 < 0x7f800000) :
    dec32 (pack32 (2^24) E') = (2^23, E' + 1) := by
  obtain ⟨k, rfl⟩ : ∃ k : Nat, E' = (k : Int) - 149 := ⟨(E' + 149).toNat, by omega⟩
  have hk : ((k : Int) - 149 + 149).toNat = k := by omega
  rw [hk] at h4
  unfold pack32 dec32
  simp only [hk]
  have hlt : ¬ (k * 2^23 + 2^24 ≥ 0x7f800000) := by omega
  simp only [hlt, if_false]
  have e1 : (k * 2^23 + 2^24) / 2^23 % 2^8 = k + 2 := by omega
  have e2 : (k * 2^23 + 2^24) % 2^23 = 0 := by omega
  rw [e1, e2]
  have : ¬ (k + 2 = 0) := by omega
  simp only [this, if_false]
  refine Prod.ext ?_ ?_
  · show 2^23 + 0 = 2^23; omega
  · show ((k + 2 : Nat) : Int) - 150 = (k : Int) - 149 + 1; omega

/-- anything at or beyond 2^128 packs to the infinity pattern -/
theorem pack32_overflow (M' : Nat) (E' : Int) (h : (E' + 149).toNat * 2^23 + M' ≥ 0x7f800000) : pack32 M' E' = 0x7f800000 := by
  unfold pack32; simp only [h, if_true]

/-- on finite non-zero doubles `narrowBits` is: decode (`dec64`), round (`narrowME`, the function the accuracy theorems are
    about), pack (`pack32`), sign bit carried over -/
theorem narrowBits_finite (b : Nat) (he : b / 2^52 % 2^11 ≠ 2047) (hM : (dec64 b).1 ≠ 0) :
    narrowBits b = (b / 2^63 % 2) * 2^31 + pack32 (narrowME (dec64 b).1 (dec64 b).2).1 (narrowME (dec64 b).1 (dec64 b).2).2 := by
  unfold narrowBits
  simp only [he, hM, if_false]

/-- zeros (and nothing else among the finite doubles) keep only their sign -/
theorem narrowBits_zero (b : Nat) (he : b / 2^52 % 2^11 ≠ 2047) (hM : (dec64 b).1 = 0) : narrowBits b = (b / 2^63 % 2) * 2^31 := by
  unfold narrowBits
  simp only [he, hM, if_false, if_true]

-- evaluation tests of the bit-pattern functions (the same values are in the harness' boundary set)
#guard narrowBits 0x3ff0000000000001 == 0x3f800000                  -- 1 + 2^-52 → 1.0
#guard narrowBits 0x3ff0000010000000 == 0x3f800000                  -- tie → even (down)
#guard narrowBits 0x3ff0000030000000 == 0x3f800002                  -- tie → even (up)
#guard narrowBits 0x3ff0000010000001 == 0x3f800001                  -- just above the tie
#guard narrowBits 0x3fffffffffffffff == 0x40000000                  -- carry into the next binade
#guard narrowBits 0x47efffffefffffff == 0x7f7fffff                  -- just below the overflow threshold → FLT_MAX
#guard narrowBits 0x47effffff0000000 == 0x7f800000                  -- FLT_MAX + half ulp (tie) → even → infinity
#guard narrowBits 0xc7effffff0000000 == 0xff800000
#guard narrowBits 0x36a0000000000000 == 0x00000001                  -- 2^-149
#guard narrowBits 0x3690000000000000 == 0                           -- 2^-150: tie → even → 0
#guard narrowBits 0x3690000000000001 == 0x00000001                  -- just above 2^-150
#guard narrowBits 0x36a8000000000000 == 0x00000002                  -- 1.5·2^-149: tie → even (up)
#guard narrowBits 0x380fffffffffffff == 0x00800000                  -- largest subnormal-range double rounds up to FLT_MIN
#guard narrowBits 0x8000000000000000 == 0x80000000                  -- −0
#guard narrowBits 0x0000000000000001 == 0                           -- double subnormal → +0
#guard narrowBits 0x800fffffffffffff == 0x80000000                  -- negative double subnormal → −0
#guard narrowBits 0x7ff0000000000000 == 0x7f800000
#guard narrowBits 0x7ff0000000000001 == 0x7fc00000                  -- signalling NaN, payload lost → quiet NaN
#guard narrowBits 0xfff4000000000001 == 0xffe00000                  -- payload's top bits kept, quieted
#guard widenBits 0x3f800001 == 0x3ff0000020000000
#guard widenBits 0x00000001 == 0x36a0000000000000                   -- smallest float subnormal, normalised
#guard widenBits 0x007fffff == 0x380fffffc0000000
#guard widenBits 0x80000000 == 0x8000000000000000
#guard widenBits 0x7f800000 == 0x7ff0000000000000
#guard widenBits 0x7fa00001 == 0x7ffc000020000000                   -- signalling NaN → quieted, payload kept
#guard narrowBits (widenBits 0x7f7fffff) == 0x7f7fffff
#guard narrowBits (widenBits 0x00000001) == 0x00000001
#guard (List.range 2000).all fun i => narrowBits (widenBits (i * 1048573 % 0x7f800000)) == i * 1048573 % 0x7f800000
#guard Covfie.IO.convDat 4 (.thin (.sized [2, 1] (.array 8 2 [0x3ff0000010000001, 0x3690000000000000])))
      == .thin (.sized [2, 1] (.array 4 2 [0x3f800001, 0]))
#guard Covfie.IO.convDat 8 (.array 4 1 [0x00000001]) == .array 8 1 [0x36a0000000000000]
end Covfie.C07
