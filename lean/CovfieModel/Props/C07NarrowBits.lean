import CovfieModel.Props.C07NarrowWiden
/-! # C07 (narrowing at bit level) — `static_cast<float>(double)` on bit patterns denotes exactly the
    (significand, exponent) rounding `narrowME`, which is within half a float quantum of the double (ties to even). -/
set_option linter.unusedVariables false
namespace Covfie.C07
open Covfie

/-- decoding a packed magnitude: `k·2^23 + M'` with `M' ≤ 2^24`, and `M' ≥ 2^23` unless `k = 0`, denotes `M' · 2^(k−149)` -/
theorem decode_mag (s k M' : Nat) (hs : s < 2) (hM : M' ≤ 2^24) (hk : k = 0 ∨ 2^23 ≤ M')
    (hfin : k * 2^23 + M' < 0x7f800000) :
    decodeF32 (s * 2^31 + (k * 2^23 + M')) =
      .fin (if s = 1 then -((M' : ℚ) * pow2 ((k : Int) - 149)) else (M' : ℚ) * pow2 ((k : Int) - 149)) := by
  by_cases h1 : M' < 2^23
  · have k0 : k = 0 := by rcases hk with h | h; exact h; omega
    subst k0
    have : s * 2^31 + (0 * 2^23 + M') = s * 2^31 + 0 * 2^23 + M' := by ring
    rw [this, decodeF32_mk s 0 M' hs (by norm_num) h1]
    norm_num
  · by_cases h2 : M' = 2^24
    · subst h2
      have hk2 : k + 2 < 2^8 := by omega
      have : s * 2^31 + (k * 2^23 + 2^24) = s * 2^31 + (k + 2) * 2^23 + 0 := by ring
      rw [this, decodeF32_mk s (k + 2) 0 hs hk2 (by norm_num)]
      have e1 : ¬ (k + 2 = 255) := by omega
      have e2 : ¬ (k + 2 = 0) := by omega
      simp only [e1, e2, if_false]
      have key : ((2^23 + 0 : Nat) : ℚ) * pow2 (((k + 2 : Nat) : Int) - 150) = ((2^24 : Nat) : ℚ) * pow2 ((k : Int) - 149) := by
        have : (((k + 2 : Nat) : Int) - 150) = ((k : Int) - 149) + 1 := by push_cast; ring
        rw [this, pow2_add, show pow2 1 = (2:ℚ)^1 from pow2_nat 1]
        push_cast; ring
      rw [key]
    · have hk1 : k + 1 < 2^8 := by omega
      have : s * 2^31 + (k * 2^23 + M') = s * 2^31 + (k + 1) * 2^23 + (M' - 2^23) := by omega
      rw [this, decodeF32_mk s (k + 1) (M' - 2^23) hs hk1 (by omega)]
      have e1 : ¬ (k + 1 = 255) := by omega
      have e2 : ¬ (k + 1 = 0) := by omega
      simp only [e1, e2, if_false]
      have key : ((2^23 + (M' - 2^23) : Nat) : ℚ) * pow2 (((k + 1 : Nat) : Int) - 150) = (M' : ℚ) * pow2 ((k : Int) - 149) := by
        rw [show 2^23 + (M' - 2^23) = M' by omega]
        have : (((k + 1 : Nat) : Int) - 150) = ((k : Int) - 149) := by push_cast; ring
        rw [this]
      rw [key]

theorem rshift_between (M sh : Nat) : M / 2^sh ≤ rshift M sh ∧ rshift M sh ≤ M / 2^sh + 1 := by
  unfold rshift
  by_cases h0 : sh = 0
  · subst h0; simp
  · simp only [h0, if_false]
    split
    · omega
    · split
      · omega
      · split <;> omega

theorem div_bounds (M a sh : Nat) (h1 : 2^(a + sh) ≤ M) (h2 : M < 2^(a + sh + 1)) :
    2^a ≤ M / 2^sh ∧ M / 2^sh < 2^(a+1) := by
  have hp : 0 < 2^sh := Nat.two_pow_pos sh
  constructor
  · rw [Nat.le_div_iff_mul_le hp, ← Nat.pow_add]; exact h1
  · rw [Nat.div_lt_iff_lt_mul hp, ← Nat.pow_add]
    have : a + 1 + sh = a + sh + 1 := by omega
    rw [this]; exact h2

/-- the result of narrowing a *normal* double, as (significand, exponent): at most 24 bits, at least 24 bits
    unless the exponent sits at the float subnormal quantum -/
theorem narrowME_normal (m e : Nat) (hm : m < 2^52) (he0 : 0 < e) (he : e < 2047) :
    let r := narrowME (2^52 + m) ((e : Int) - 1075)
    r.1 ≤ 2^24 ∧ -149 ≤ r.2 ∧ (r.2 = -149 ∨ 2^23 ≤ r.1) := by
  have hlog : Nat.log2 (2^52 + m) = 52 := log2_eq _ 52 (by omega) (by omega)
  simp only [narrowME, hlog]
  by_cases hbig : 897 ≤ e
  · have hsh : max (52 + 1 - 24) (((-149 : Int) - ((e : Int) - 1075)).toNat) = 29 := by omega
    simp only [hsh]
    obtain ⟨q1, q2⟩ := div_bounds (2^52 + m) 23 29 (by norm_num) (by omega)
    obtain ⟨r1, r2⟩ := rshift_between (2^52 + m) 29
    refine ⟨by omega, by omega, Or.inr (by omega)⟩
  · have hsh : max (52 + 1 - 24) (((-149 : Int) - ((e : Int) - 1075)).toNat) = 926 - e := by omega
    simp only [hsh]
    obtain ⟨r1, r2⟩ := rshift_between (2^52 + m) (926 - e)
    have hq : (2^52 + m) / 2^(926 - e) < 2^23 := by
      rw [Nat.div_lt_iff_lt_mul (Nat.two_pow_pos _)]
      calc 2^52 + m < 2^53 := by omega
        _ = 2^23 * 2^30 := by norm_num
        _ ≤ 2^23 * 2^(926 - e) := Nat.mul_le_mul_left _ (Nat.pow_le_pow_right (by omega) (by omega))
    refine ⟨by omega, by omega, Or.inl (by omega)⟩

/-- **bit-level narrowing is the (significand, exponent) rounding**: for a normal double whose rounded value does not
    overflow the float range, `static_cast<float>` (on bit patterns) denotes exactly `±M'·2^E'` with
    `(M', E') = narrowME (M, E)` -/
theorem narrow_decode_normal (s e m : Nat) (hs : s < 2) (hm : m < 2^52) (he0 : 0 < e) (he : e < 2047)
    (hno : ((narrowME (2^52 + m) ((e : Int) - 1075)).2 + 149).toNat * 2^23 + (narrowME (2^52 + m) ((e : Int) - 1075)).1 < 0x7f800000) :
    decodeF32 (narrowBits (s * 2^63 + e * 2^52 + m)) =
      .fin (if s = 1 then -(((narrowME (2^52 + m) ((e : Int) - 1075)).1 : ℚ) * pow2 (narrowME (2^52 + m) ((e : Int) - 1075)).2)
            else ((narrowME (2^52 + m) ((e : Int) - 1075)).1 : ℚ) * pow2 (narrowME (2^52 + m) ((e : Int) - 1075)).2) := by
  obtain ⟨h1, h2, _⟩ := fields64 s e m hs (by omega) hm
  have h3' : (s * 2^63 + e * 2^52 + m) / 2^63 % 2 = s := by omega
  obtain ⟨b1, b2, b3⟩ := narrowME_normal m e hm he0 he
  generalize hr : narrowME (2^52 + m) ((e : Int) - 1075) = r at *
  unfold narrowBits dec64
  simp only [h1, h2, h3']
  have e1 : ¬ (e = 2047) := by omega
  have e2 : ¬ (e = 0) := by omega
  have e3 : ¬ (2^52 + m = 0) := by omega
  simp only [e1, e2, e3, if_false, hr]
  unfold pack32
  have hno' : ¬ ((r.2 + 149).toNat * 2^23 + r.1 ≥ 0x7f800000) := by omega
  simp only [hno', if_false]
  rw [decode_mag s (r.2 + 149).toNat r.1 hs b1 (by rcases b3 with h | h; exact Or.inl (by omega); exact Or.inr h) hno]
  have : (((r.2 + 149).toNat : Int) - 149) = r.2 := by omega
  rw [this]

/-- half-quantum accuracy at bit level: the narrowed value differs from the double by at most half of the float
    quantum `2^E'` it was rounded to (so it is a nearest multiple of that quantum; ties to even by `rshift_tie_even`) -/
theorem narrow_half_quantum (m e : Nat) (hm : m < 2^52) (he0 : 0 < e) (he : e < 2047) :
    let r := narrowME (2^52 + m) ((e : Int) - 1075)
    |((r.1 : ℚ) * pow2 r.2) - ((2^52 + m : Nat) : ℚ) * pow2 ((e : Int) - 1075)| ≤ pow2 r.2 / 2 := by
  intro r
  obtain ⟨sh, hE, hb1, hb2⟩ := narrowME_bound (2^52 + m) ((e : Int) - 1075)
  have hr2 : r.2 = ((e : Int) - 1075) + sh := hE
  have hp : pow2 r.2 = pow2 ((e : Int) - 1075) * (2:ℚ)^sh := by rw [hr2, pow2_add, pow2_nat]
  have hpos : 0 < pow2 ((e : Int) - 1075) := by rw [pow2_eq_zpow]; positivity
  rw [hp]
  have c1 : (2 * ((2^52 + m : Nat) : ℚ)) ≤ 2 * ((2:ℚ)^sh * (r.1 : ℚ)) + (2:ℚ)^sh := by exact_mod_cast hb1
  have c2 : 2 * ((2:ℚ)^sh * (r.1 : ℚ)) ≤ 2 * ((2^52 + m : Nat) : ℚ) + (2:ℚ)^sh := by exact_mod_cast hb2
  have hfac : (r.1 : ℚ) * (pow2 ((e : Int) - 1075) * (2:ℚ)^sh) - ((2^52 + m : Nat) : ℚ) * pow2 ((e : Int) - 1075) =
      pow2 ((e : Int) - 1075) * ((2:ℚ)^sh * (r.1 : ℚ) - ((2^52 + m : Nat) : ℚ)) := by ring
  rw [hfac, abs_mul, abs_of_pos hpos]
  have habs : |(2:ℚ)^sh * (r.1 : ℚ) - ((2^52 + m : Nat) : ℚ)| ≤ (2:ℚ)^sh / 2 := by
    generalize ((2^52 + m : Nat) : ℚ) = X at c1 c2 ⊢
    generalize (2:ℚ)^sh * (r.1 : ℚ) = SR at c1 c2 ⊢
    generalize (2:ℚ)^sh = S at c1 c2 ⊢
    rw [abs_le]; constructor <;> linarith
  calc pow2 ((e : Int) - 1075) * |(2:ℚ)^sh * (r.1 : ℚ) - ((2^52 + m : Nat) : ℚ)|
      ≤ pow2 ((e : Int) - 1075) * ((2:ℚ)^sh / 2) := mul_le_mul_of_nonneg_left habs hpos.le
    _ = pow2 ((e : Int) - 1075) * (2:ℚ)^sh / 2 := by ring
end Covfie.C07
