import CovfieModel.Props.C07Widen
import CovfieModel.Props.C07Narrow
import Mathlib.Tactic.Ring
/-! # C07 (round trip of the precision conversions) — `narrowBits (widenBits b) = b` for every non-NaN binary32 pattern. -/
namespace Covfie.C07

theorem log2_eq (n k : Nat) (h1 : 2^k ≤ n) (h2 : n < 2^(k+1)) : Nat.log2 n = k := by
  have hn : n ≠ 0 := by have := Nat.two_pow_pos k; omega
  have a : Nat.log2 n < k + 1 := (Nat.log2_lt hn).mpr h2
  have b : ¬ Nat.log2 n < k := by
    intro hlt
    have := (Nat.log2_lt hn).mp hlt
    omega
  omega

theorem narrow_widen_normal (s e m : Nat) (hs : s < 2) (he : e < 2^8) (hm : m < 2^23) (he0 : e ≠ 0) (he1 : e ≠ 255) :
    narrowBits (widenBits (s * 2^31 + e * 2^23 + m)) = s * 2^31 + e * 2^23 + m := by
  rw [widenBits_normal s e m hs he hm he0 he1]
  obtain ⟨h1, h2, h3⟩ := fields64 s (e + 896) (m * 2^29) hs (by omega) (by omega)
  have h3' : (s * 2^63 + (e + 896) * 2^52 + m * 2^29) / 2^63 % 2 = s := by omega
  have hlog : Nat.log2 (2^52 + m * 2^29) = 52 := log2_eq _ 52 (by omega) (by omega)
  unfold narrowBits dec64
  simp only [h1, h2, h3']
  have e1 : ¬ (e + 896 = 2047) := by omega
  have e2 : ¬ (e + 896 = 0) := by omega
  have e3 : ¬ (2^52 + m * 2^29 = 0) := by omega
  simp only [e1, e2, e3, if_false]
  unfold narrowME
  simp only [hlog]
  have hsh : max (52 + 1 - 24) (((-149 : Int) - (((e + 896 : Nat) : Int) - 1075)).toNat) = 29 := by omega
  simp only [hsh]
  have hr : rshift (2^52 + m * 2^29) 29 = 2^23 + m := by
    have hmod : (2^52 + m * 2^29) % 2^29 = 0 := by
      rw [show (2:Nat)^52 = 2^23 * 2^29 by norm_num, ← Nat.add_mul, Nat.mul_mod_left]
    have := rshift_exact (2^52 + m * 2^29) 29 hmod
    have e : (2:Nat)^52 + m * 2^29 = 2^29 * (2^23 + m) := by ring
    exact Nat.eq_of_mul_eq_mul_left (Nat.two_pow_pos 29) (this.trans e)
  simp only [hr]
  unfold pack32
  have hE : ((((e + 896 : Nat) : Int) - 1075 + (29 : Nat)) + 149).toNat = e - 1 := by omega
  simp only [hE]
  have : ¬ ((e - 1) * 2^23 + (2^23 + m) ≥ 0x7f800000) := by omega
  simp only [this, if_false]
  omega

theorem narrow_widen_subnormal (s m : Nat) (hs : s < 2) (hm : m < 2^23) (hm0 : m ≠ 0) :
    narrowBits (widenBits (s * 2^31 + 0 * 2^23 + m)) = s * 2^31 + 0 * 2^23 + m := by
  have g1 : (s * 2^31 + 0 * 2^23 + m) % 2^23 = m := by omega
  have g2 : (s * 2^31 + 0 * 2^23 + m) / 2^23 % 2^8 = 0 := by omega
  have g3 : (s * 2^31 + 0 * 2^23 + m) / 2^31 % 2 = s := by omega
  obtain ⟨hlo, hhi⟩ := log2_bounds m hm0
  have hlen : Nat.log2 m + 1 ≤ 23 := by
    have : Nat.log2 m < 23 := (Nat.log2_lt hm0).mpr hm
    omega
  generalize hL : Nat.log2 m + 1 = len at *
  have hsplit : 2 ^ 53 = 2 ^ len * 2 ^ (53 - len) := by rw [← Nat.pow_add]; congr 1; omega
  have hsplit2 : 2 ^ 52 = 2 ^ (len - 1) * 2 ^ (53 - len) := by rw [← Nat.pow_add]; congr 1; omega
  have hlo' : 2 ^ (len - 1) ≤ m := by rw [← hL]; simpa using hlo
  have hP : 0 < 2 ^ (53 - len) := Nat.two_pow_pos _
  have hge : 2 ^ 52 ≤ m * 2 ^ (53 - len) := by rw [hsplit2]; exact Nat.mul_le_mul_right _ hlo'
  have hlt : m * 2 ^ (53 - len) < 2 ^ 53 := by rw [hsplit]; exact Nat.mul_lt_mul_of_pos_right hhi hP
  have hw : widenBits (s * 2^31 + 0 * 2^23 + m) = s * 2^63 + (len + 873) * 2^52 + (m * 2 ^ (53 - len) - 2^52) := by
    unfold widenBits
    simp only [g1, g2, g3, hm0, if_false, if_true, hL]
    norm_num
  rw [hw]
  obtain ⟨h1, h2, _⟩ := fields64 s (len + 873) (m * 2 ^ (53 - len) - 2^52) hs (by omega) (by omega)
  have h3' : (s * 2^63 + (len + 873) * 2^52 + (m * 2 ^ (53 - len) - 2^52)) / 2^63 % 2 = s := by omega
  unfold narrowBits dec64
  simp only [h1, h2, h3']
  have e1 : ¬ (len + 873 = 2047) := by omega
  have e2 : ¬ (len + 873 = 0) := by omega
  have hM : 2^52 + (m * 2 ^ (53 - len) - 2^52) = m * 2 ^ (53 - len) := by omega
  have e3 : ¬ (m * 2 ^ (53 - len) = 0) := by omega
  simp only [e1, e2, hM, e3, if_false]
  have hlog : Nat.log2 (m * 2 ^ (53 - len)) = 52 := log2_eq _ 52 hge hlt
  unfold narrowME
  simp only [hlog]
  have hsh : max (52 + 1 - 24) (((-149 : Int) - (((len + 873 : Nat) : Int) - 1075)).toNat) = 53 - len := by omega
  simp only [hsh]
  have hr : rshift (m * 2 ^ (53 - len)) (53 - len) = m := by
    have := rshift_exact (m * 2 ^ (53 - len)) (53 - len) (Nat.mul_mod_left _ _)
    exact Nat.eq_of_mul_eq_mul_left hP (this.trans (Nat.mul_comm _ _))
  simp only [hr]
  unfold pack32
  have hE : ((((len + 873 : Nat) : Int) - 1075 + ((53 - len : Nat) : Int)) + 149).toNat = 0 := by omega
  simp only [hE]
  have : ¬ (0 * 2^23 + m ≥ 0x7f800000) := by omega
  simp only [this, if_false]
  omega

theorem narrow_widen_zero (s : Nat) (hs : s < 2) :
    narrowBits (widenBits (s * 2^31 + 0 * 2^23 + 0)) = s * 2^31 + 0 * 2^23 + 0 := by
  have hw : widenBits (s * 2^31 + 0 * 2^23 + 0) = s * 2^63 + 0 * 2^52 + 0 := by
    have h1 : (s * 2^31 + 0 * 2^23 + 0) % 2^23 = 0 := by omega
    have h2 : (s * 2^31 + 0 * 2^23 + 0) / 2^23 % 2^8 = 0 := by omega
    have h3 : (s * 2^31 + 0 * 2^23 + 0) / 2^31 % 2 = s := by omega
    unfold widenBits
    simp only [h1, h2, h3]; norm_num
  rw [hw]
  obtain ⟨h1, h2, _⟩ := fields64 s 0 0 hs (by norm_num) (by norm_num)
  have h3' : (s * 2^63 + 0 * 2^52 + 0) / 2^63 % 2 = s := by omega
  unfold narrowBits dec64
  simp only [h1, h2, h3']
  norm_num

theorem narrow_widen_inf (s : Nat) (hs : s < 2) :
    narrowBits (widenBits (s * 2^31 + 255 * 2^23 + 0)) = s * 2^31 + 255 * 2^23 + 0 := by
  have hw : widenBits (s * 2^31 + 255 * 2^23 + 0) = s * 2^63 + 2047 * 2^52 + 0 := by
    have h1 : (s * 2^31 + 255 * 2^23 + 0) % 2^23 = 0 := by omega
    have h2 : (s * 2^31 + 255 * 2^23 + 0) / 2^23 % 2^8 = 255 := by omega
    have h3 : (s * 2^31 + 255 * 2^23 + 0) / 2^31 % 2 = s := by omega
    unfold widenBits
    simp only [h1, h2, h3]; norm_num
  rw [hw]
  obtain ⟨h1, h2, _⟩ := fields64 s 2047 0 hs (by norm_num) (by norm_num)
  have h3' : (s * 2^63 + 2047 * 2^52 + 0) / 2^63 % 2 = s := by omega
  unfold narrowBits
  simp only [h1, h2, h3']
  norm_num

/-- **float → double → float is the identity** on every non-NaN pattern (in particular a float file loaded into a
    double field and written back narrows to the original words) -/
theorem narrow_widen (b : Nat) (hb : b < 2^32) (hn : ¬ isNaN32 b) : narrowBits (widenBits b) = b := by
  obtain ⟨hb', hs, he, hm, _⟩ := fields32 b hb
  have hn' : ¬ (b / 2^23 % 2^8 = 255 ∧ b % 2^23 ≠ 0) := hn
  clear hn
  generalize b / 2^31 % 2 = s at *
  generalize b / 2^23 % 2^8 = e at *
  generalize b % 2^23 = m at *
  rw [hb']
  by_cases e0 : e = 0
  · subst e0
    by_cases m0 : m = 0
    · subst m0; exact narrow_widen_zero s hs
    · exact narrow_widen_subnormal s m hs hm m0
  · by_cases e1 : e = 255
    · subst e1
      have : m = 0 := by by_contra h; exact hn' ⟨rfl, h⟩
      subst this; exact narrow_widen_inf s hs
    · exact narrow_widen_normal s e m hs he hm e0 e1
end Covfie.C07
