import CovfieModel.Props.C07NarrowBits
/-! # C07 (narrowing is round-to-nearest) — for a normal double the narrowed value is a nearest binary32 value among ALL
    finite floats (by magnitude), not only at the quantum it is rounded to. -/
namespace Covfie.C07
open Covfie

/-- magnitude of a finite binary32 value: `k · 2^e` with `k < 2^24`, `e ≥ −149` -/
def IsF32Mag (z : ℚ) : Prop := ∃ k : Nat, ∃ e : Int, k < 2^24 ∧ -149 ≤ e ∧ z = (k : ℚ) * pow2 e

theorem pow2_pos (e : Int) : 0 < pow2 e := by rw [pow2_eq_zpow]; positivity

/-- a multiple of the quantum within half a quantum of `y` is a nearest multiple -/
theorem nearest_multiple (q y : ℚ) (hq : 0 < q) (a j : Int) (h : |(a : ℚ) * q - y| ≤ q / 2) :
    |(a : ℚ) * q - y| ≤ |(j : ℚ) * q - y| := by
  by_cases e : j = a
  · subst e; exact le_refl _
  · have hd : (1 : ℚ) ≤ |(j : ℚ) - a| := by
      have : (1 : Int) ≤ |j - a| := Int.one_le_abs (sub_ne_zero.mpr e)
      exact_mod_cast this
    have h1 : q ≤ |(j : ℚ) * q - (a : ℚ) * q| := by
      rw [← sub_mul, abs_mul, abs_of_pos hq]
      nlinarith [hd]
    have h2 : |(j : ℚ) * q - (a : ℚ) * q| ≤ |(j : ℚ) * q - y| + |(a : ℚ) * q - y| := by
      have := abs_sub_le ((j : ℚ) * q) y ((a : ℚ) * q)
      rwa [abs_sub_comm y ((a : ℚ) * q)] at this
    linarith

theorem pow2_mono (a b : Int) (h : a ≤ b) : pow2 a ≤ pow2 b := by
  rw [pow2_eq_zpow, pow2_eq_zpow]; exact zpow_le_zpow_right₀ (by norm_num) h

theorem pow2_split (a : Int) (n : Nat) : pow2 (a + n) = (2:ℚ)^n * pow2 a := by
  rw [pow2_add, pow2_nat]; ring

theorem narrowME_exp (m e : Nat) (hm : m < 2^52) (he0 : 0 < e) (he : e < 2047) :
    (narrowME (2^52 + m) ((e : Int) - 1075)).2 = if 897 ≤ e then (e : Int) - 1046 else -149 := by
  have hlog : Nat.log2 (2^52 + m) = 52 := log2_eq _ 52 (by omega) (by omega)
  simp only [narrowME, hlog]
  split <;> omega

/-- **the narrowed value is a nearest binary32 value** (among *all* finite floats, by magnitude; ties are resolved to
    the even significand by `rshift_tie_even`): for a normal double `y = M·2^E`, `x = M'·2^E'` with
    `(M',E') = narrowME M E`, and every float magnitude `z`, `|x − y| ≤ |z − y|` -/
theorem narrow_nearest_normal (m e : Nat) (hm : m < 2^52) (he0 : 0 < e) (he : e < 2047) (z : ℚ) (hz : IsF32Mag z) :
    let r := narrowME (2^52 + m) ((e : Int) - 1075)
    |((r.1 : ℚ) * pow2 r.2) - ((2^52 + m : Nat) : ℚ) * pow2 ((e : Int) - 1075)| ≤
      |z - ((2^52 + m : Nat) : ℚ) * pow2 ((e : Int) - 1075)| := by
  intro r
  have hhalf := narrow_half_quantum m e hm he0 he
  have hexp := narrowME_exp m e hm he0 he
  change |((r.1 : ℚ) * pow2 r.2) - _| ≤ pow2 r.2 / 2 at hhalf
  change r.2 = _ at hexp
  obtain ⟨k, ez, hk, hez, rfl⟩ := hz
  set y : ℚ := ((2^52 + m : Nat) : ℚ) * pow2 ((e : Int) - 1075) with hy
  have hq := pow2_pos r.2
  have hx : ((r.1 : ℚ) * pow2 r.2) = ((r.1 : Int) : ℚ) * pow2 r.2 := by push_cast; ring
  rw [hx] at hhalf ⊢
  by_cases hcase : r.2 ≤ ez
  · -- `z` is a multiple of the quantum
    obtain ⟨n, hn⟩ : ∃ n : Nat, ez = r.2 + n := ⟨(ez - r.2).toNat, by omega⟩
    have hzq : (k : ℚ) * pow2 ez = (((k * 2^n : Nat) : Int) : ℚ) * pow2 r.2 := by
      rw [hn, pow2_split]; push_cast; ring
    rw [hzq]
    exact nearest_multiple (pow2 r.2) y hq (r.1 : Int) ((k * 2^n : Nat) : Int) hhalf
  · -- `z` lies below the binade of the result, whose lower end `2^23·q` is itself a multiple of the quantum
    have hlt : ez < r.2 := by omega
    have hbig : 897 ≤ e := by
      by_contra hne
      rw [if_neg hne] at hexp
      omega
    rw [if_pos hbig] at hexp
    have hb := nearest_multiple (pow2 r.2) y hq (r.1 : Int) ((2^23 : Nat) : Int) hhalf
    -- y ≥ 2^23·q
    have hyb : (((2^23 : Nat) : Int) : ℚ) * pow2 r.2 ≤ y := by
      have e1 : ((e : Int) - 1075) + (29 : Nat) = r.2 := by rw [hexp]; push_cast; ring
      have : pow2 r.2 = (2:ℚ)^29 * pow2 ((e : Int) - 1075) := by rw [← e1, pow2_split]
      rw [this, hy]
      have hp := pow2_pos ((e : Int) - 1075)
      have hM : ((2:ℚ)^52) ≤ ((2^52 + m : Nat) : ℚ) := by push_cast; linarith [(Nat.cast_nonneg m : (0:ℚ) ≤ m)]
      push_cast
      nlinarith [hp, hM]
    -- z < 2^23·q
    have hzb : (k : ℚ) * pow2 ez < (((2^23 : Nat) : Int) : ℚ) * pow2 r.2 := by
      have h1 : pow2 ez ≤ pow2 (r.2 - 1) := pow2_mono _ _ (by omega)
      have h2 : pow2 r.2 = (2:ℚ) * pow2 (r.2 - 1) := by
        have : r.2 = (r.2 - 1) + (1 : Nat) := by push_cast; ring
        rw [this, pow2_split]; simp
      have hk' : (k : ℚ) < 2^24 := by exact_mod_cast hk
      have hp1 := pow2_pos (r.2 - 1)
      have hp2 := pow2_pos ez
      rw [h2]; push_cast
      nlinarith [h1, hk', hp1, hp2]
    have habs1 : |(k : ℚ) * pow2 ez - y| = y - (k : ℚ) * pow2 ez := by
      rw [abs_sub_comm]; exact abs_of_nonneg (by linarith)
    have habs2 : |(((2^23 : Nat) : Int) : ℚ) * pow2 r.2 - y| = y - (((2^23 : Nat) : Int) : ℚ) * pow2 r.2 := by
      rw [abs_sub_comm]; exact abs_of_nonneg (by linarith)
    rw [habs1]; rw [habs2] at hb
    linarith

/-- **end to end**: for a normal double whose rounded value fits the float range, the bit pattern produced by the
    narrowing conversion decodes to `±x` where `x` is a nearest float magnitude to `|y|` among all finite floats -/
theorem narrowBits_nearest (s e m : Nat) (hs : s < 2) (hm : m < 2^52) (he0 : 0 < e) (he : e < 2047)
    (hno : ((narrowME (2^52 + m) ((e : Int) - 1075)).2 + 149).toNat * 2^23 + (narrowME (2^52 + m) ((e : Int) - 1075)).1 < 0x7f800000) :
    ∃ x : ℚ, decodeF32 (narrowBits (s * 2^63 + e * 2^52 + m)) = .fin (if s = 1 then -x else x) ∧
      ∀ z, IsF32Mag z → |x - ((2^52 + m : Nat) : ℚ) * pow2 ((e : Int) - 1075)| ≤ |z - ((2^52 + m : Nat) : ℚ) * pow2 ((e : Int) - 1075)| :=
  ⟨_, narrow_decode_normal s e m hs hm he0 he hno, fun z hz => narrow_nearest_normal m e hm he0 he z hz⟩
end Covfie.C07
