import CovfieModel.Model.Narrow
import CovfieModel.Model.Scalar
import Mathlib.Tactic.Ring
import Mathlib.Tactic.Linarith
import Mathlib.Tactic.NormNum
import Mathlib.Tactic.FieldSimp
import Mathlib.Algebra.Order.Field.Power
import Mathlib.Data.Rat.Lemmas
/-! # C07 (widening) — `static_cast<double>(float)` on bit patterns is exact: every non-NaN binary32 pattern denotes the
    same extended real after widening (normal, subnormal, zero, infinity), proved on the IEEE decoder of `Model/Scalar.lean`. -/
namespace Covfie.C07
open Covfie

theorem pow2_eq_zpow (e : Int) : pow2 e = (2 : ℚ) ^ e := by
  unfold pow2
  split
  · rename_i h
    obtain ⟨n, rfl⟩ := Int.eq_ofNat_of_zero_le h
    simp
  · rename_i h
    have : e = -((-e).toNat : Int) := by omega
    rw [this]
    simp only [neg_neg, Int.toNat_natCast, zpow_neg, zpow_natCast]
    simp

theorem pow2_add (a b : Int) : pow2 (a + b) = pow2 a * pow2 b := by
  simp only [pow2_eq_zpow]; exact zpow_add₀ (by norm_num) a b

theorem pow2_nat (n : Nat) : pow2 (n : Int) = (2 : ℚ) ^ n := by
  rw [pow2_eq_zpow]; simp

theorem fields64 (s e m : Nat) (hs : s < 2) (he : e < 2^11) (hm : m < 2^52) :
    (s * 2^63 + e * 2^52 + m) % 2^52 = m ∧ (s * 2^63 + e * 2^52 + m) / 2^52 % 2^11 = e ∧
    (s * 2^63 + e * 2^52 + m) / 2^(52+11) % 2 = s := by
  refine ⟨by omega, by omega, by omega⟩

theorem fields32 (b : Nat) (hb : b < 2^32) :
    b = (b / 2^31 % 2) * 2^31 + (b / 2^23 % 2^8) * 2^23 + b % 2^23 ∧ b / 2^31 % 2 < 2 ∧ b / 2^23 % 2^8 < 2^8 ∧ b % 2^23 < 2^23
    ∧ b / 2^(23+8) % 2 = b / 2^31 % 2 := by
  refine ⟨by omega, by omega, by omega, by omega, by norm_num⟩

theorem decodeF64_mk (s e m : Nat) (hs : s < 2) (he : e < 2^11) (hm : m < 2^52) :
    decodeF64 (s * 2^63 + e * 2^52 + m) =
      if e = 2047 then (if m = 0 then (if s = 1 then .ninf else .pinf) else .nan)
      else .fin (if s = 1 then -(if e = 0 then (m : ℚ) * pow2 (-1074) else ((2^52 + m : Nat) : ℚ) * pow2 ((e : Int) - 1075))
                 else (if e = 0 then (m : ℚ) * pow2 (-1074) else ((2^52 + m : Nat) : ℚ) * pow2 ((e : Int) - 1075))) := by
  obtain ⟨h1, h2, h3⟩ := fields64 s e m hs he hm
  unfold decodeF64 decodeIEEE
  simp only [h1, h2, h3]
  norm_num
  rw [show ((e : Int) - 1023 - 52) = e - 1075 by ring]

theorem decodeF32_mk (s e m : Nat) (hs : s < 2) (he : e < 2^8) (hm : m < 2^23) :
    decodeF32 (s * 2^31 + e * 2^23 + m) =
      if e = 255 then (if m = 0 then (if s = 1 then .ninf else .pinf) else .nan)
      else .fin (if s = 1 then -(if e = 0 then (m : ℚ) * pow2 (-149) else ((2^23 + m : Nat) : ℚ) * pow2 ((e : Int) - 150))
                 else (if e = 0 then (m : ℚ) * pow2 (-149) else ((2^23 + m : Nat) : ℚ) * pow2 ((e : Int) - 150))) := by
  have h1 : (s * 2^31 + e * 2^23 + m) % 2^23 = m := by omega
  have h2 : (s * 2^31 + e * 2^23 + m) / 2^23 % 2^8 = e := by omega
  have h3 : (s * 2^31 + e * 2^23 + m) / 2^(23+8) % 2 = s := by omega
  unfold decodeF32 decodeIEEE
  simp only [h1, h2, h3]
  norm_num
  rw [show ((e : Int) - 127 - 23) = e - 150 by ring]

/-- a binary32 pattern is a NaN -/
def isNaN32 (b : Nat) : Prop := b / 2^23 % 2^8 = 255 ∧ b % 2^23 ≠ 0

theorem widenBits_normal (s e m : Nat) (hs : s < 2) (he : e < 2^8) (hm : m < 2^23) (he0 : e ≠ 0) (he1 : e ≠ 255) :
    widenBits (s * 2^31 + e * 2^23 + m) = s * 2^63 + (e + 896) * 2^52 + m * 2^29 := by
  have h1 : (s * 2^31 + e * 2^23 + m) % 2^23 = m := by omega
  have h2 : (s * 2^31 + e * 2^23 + m) / 2^23 % 2^8 = e := by omega
  have h3 : (s * 2^31 + e * 2^23 + m) / 2^31 % 2 = s := by omega
  unfold widenBits
  simp only [h1, h2, h3, he0, he1, if_false]

theorem widen_exact_normal (s e m : Nat) (hs : s < 2) (he : e < 2^8) (hm : m < 2^23) (he0 : e ≠ 0) (he1 : e ≠ 255) :
    decodeF64 (widenBits (s * 2^31 + e * 2^23 + m)) = decodeF32 (s * 2^31 + e * 2^23 + m) := by
  rw [widenBits_normal s e m hs he hm he0 he1, decodeF64_mk s (e + 896) (m * 2^29) hs (by omega) (by omega),
      decodeF32_mk s e m hs he hm]
  have e1 : ¬ (e + 896 = 2047) := by omega
  have e2 : ¬ (e + 896 = 0) := by omega
  simp only [e1, e2, he0, he1, if_false]
  have key : ((2^52 + m * 2^29 : Nat) : ℚ) * pow2 (((e + 896 : Nat) : Int) - 1075) = ((2^23 + m : Nat) : ℚ) * pow2 ((e : Int) - 150) := by
    have : ((e : Int) - 150) = (((e + 896 : Nat) : Int) - 1075) + 29 := by push_cast; ring
    rw [this, pow2_add, show pow2 29 = (2:ℚ)^29 from pow2_nat 29]
    push_cast; ring
  rw [key]

theorem log2_bounds (m : Nat) (hm : m ≠ 0) : 2 ^ Nat.log2 m ≤ m ∧ m < 2 ^ (Nat.log2 m + 1) :=
  ⟨Nat.log2_self_le hm, (Nat.log2_lt hm).mp (Nat.lt_succ_self _)⟩

theorem widen_exact_subnormal (s m : Nat) (hs : s < 2) (hm : m < 2^23) (hm0 : m ≠ 0) :
    decodeF64 (widenBits (s * 2^31 + 0 * 2^23 + m)) = decodeF32 (s * 2^31 + 0 * 2^23 + m) := by
  have h1 : (s * 2^31 + 0 * 2^23 + m) % 2^23 = m := by omega
  have h2 : (s * 2^31 + 0 * 2^23 + m) / 2^23 % 2^8 = 0 := by omega
  have h3 : (s * 2^31 + 0 * 2^23 + m) / 2^31 % 2 = s := by omega
  obtain ⟨hlo, hhi⟩ := log2_bounds m hm0
  have hlen : Nat.log2 m + 1 ≤ 23 := by
    have : Nat.log2 m < 23 := (Nat.log2_lt hm0).mpr hm
    omega
  -- normalised significand: 2^52 ≤ m·2^(53−len) < 2^53
  have hsplit : 2 ^ 53 = 2 ^ (Nat.log2 m + 1) * 2 ^ (53 - (Nat.log2 m + 1)) := by
    rw [← Nat.pow_add]; congr 1; omega
  have hsplit2 : 2 ^ 52 = 2 ^ Nat.log2 m * 2 ^ (53 - (Nat.log2 m + 1)) := by
    rw [← Nat.pow_add]; congr 1; omega
  have hP : 0 < 2 ^ (53 - (Nat.log2 m + 1)) := Nat.two_pow_pos _
  have hge : 2 ^ 52 ≤ m * 2 ^ (53 - (Nat.log2 m + 1)) := by rw [hsplit2]; exact Nat.mul_le_mul_right _ hlo
  have hlt : m * 2 ^ (53 - (Nat.log2 m + 1)) < 2 ^ 53 := by rw [hsplit]; exact Nat.mul_lt_mul_of_pos_right hhi hP
  have hw : widenBits (s * 2^31 + 0 * 2^23 + m) =
      s * 2^63 + (Nat.log2 m + 1 + 873) * 2^52 + (m * 2 ^ (53 - (Nat.log2 m + 1)) - 2^52) := by
    unfold widenBits
    simp only [h1, h2, h3, hm0, if_false, if_true]
    norm_num
  rw [hw, decodeF64_mk s _ _ hs (by omega) (by omega), decodeF32_mk s 0 m hs (by norm_num) hm]
  have e1 : ¬ (Nat.log2 m + 1 + 873 = 2047) := by omega
  have e2 : ¬ (Nat.log2 m + 1 + 873 = 0) := by omega
  simp only [e1, e2, if_false, if_true, show ¬ ((0:Nat) = 255) by norm_num]
  have key : ((2^52 + (m * 2 ^ (53 - (Nat.log2 m + 1)) - 2^52) : Nat) : ℚ) * pow2 (((Nat.log2 m + 1 + 873 : Nat) : Int) - 1075) =
      (m : ℚ) * pow2 (-149) := by
    rw [show 2^52 + (m * 2 ^ (53 - (Nat.log2 m + 1)) - 2^52) = m * 2 ^ (53 - (Nat.log2 m + 1)) by omega]
    have hx : ((-149 : Int)) = ((53 - (Nat.log2 m + 1) : Nat) : Int) + (((Nat.log2 m + 1 + 873 : Nat) : Int) - 1075) := by
      have : ((53 - (Nat.log2 m + 1) : Nat) : Int) = 53 - ((Nat.log2 m + 1 : Nat) : Int) := by omega
      rw [this]; push_cast; ring
    rw [hx, pow2_add, pow2_nat]
    push_cast; ring
  rw [key]

theorem widen_exact_zero (s : Nat) (hs : s < 2) :
    decodeF64 (widenBits (s * 2^31 + 0 * 2^23 + 0)) = decodeF32 (s * 2^31 + 0 * 2^23 + 0) := by
  have hw : widenBits (s * 2^31 + 0 * 2^23 + 0) = s * 2^63 + 0 * 2^52 + 0 := by
    have h1 : (s * 2^31 + 0 * 2^23 + 0) % 2^23 = 0 := by omega
    have h2 : (s * 2^31 + 0 * 2^23 + 0) / 2^23 % 2^8 = 0 := by omega
    have h3 : (s * 2^31 + 0 * 2^23 + 0) / 2^31 % 2 = s := by omega
    unfold widenBits
    simp only [h1, h2, h3]; norm_num
  rw [hw, decodeF64_mk s 0 0 hs (by norm_num) (by norm_num), decodeF32_mk s 0 0 hs (by norm_num) (by norm_num)]
  norm_num

theorem widen_exact_inf (s : Nat) (hs : s < 2) :
    decodeF64 (widenBits (s * 2^31 + 255 * 2^23 + 0)) = decodeF32 (s * 2^31 + 255 * 2^23 + 0) := by
  have hw : widenBits (s * 2^31 + 255 * 2^23 + 0) = s * 2^63 + 2047 * 2^52 + 0 := by
    have h1 : (s * 2^31 + 255 * 2^23 + 0) % 2^23 = 0 := by omega
    have h2 : (s * 2^31 + 255 * 2^23 + 0) / 2^23 % 2^8 = 255 := by omega
    have h3 : (s * 2^31 + 255 * 2^23 + 0) / 2^31 % 2 = s := by omega
    unfold widenBits
    simp only [h1, h2, h3]; norm_num
  rw [hw, decodeF64_mk s 2047 0 hs (by norm_num) (by norm_num), decodeF32_mk s 255 0 hs (by norm_num) (by norm_num)]
  norm_num

/-- **widening is exact**: every non-NaN binary32 pattern denotes the same extended real after `static_cast<double>` -/
theorem widen_exact (b : Nat) (hb : b < 2^32) (hn : ¬ isNaN32 b) : decodeF64 (widenBits b) = decodeF32 b := by
  obtain ⟨hb', hs, he, hm, _⟩ := fields32 b hb
  have hn' : ¬ (b / 2^23 % 2^8 = 255 ∧ b % 2^23 ≠ 0) := hn
  clear hn
  generalize b / 2^31 % 2 = s at *
  generalize b / 2^23 % 2^8 = e at *
  generalize b % 2^23 = m at *
  rw [hb']
  by_cases e0 : e = 0
  · subst e0
    by_cases m0 : m = 0
    · subst m0; exact widen_exact_zero s hs
    · exact widen_exact_subnormal s m hs hm m0
  · by_cases e1 : e = 255
    · subst e1
      have : m = 0 := by by_contra h; exact hn' ⟨rfl, h⟩
      subst this; exact widen_exact_inf s hs
    · exact widen_exact_normal s e m hs he hm e0 e1

end Covfie.C07
