import CovfieModel.Lemmas.IOReject
/-! # C08 — Truncated or mis-tagged input is rejected -/
namespace Covfie.C08
open Covfie.IO

/-- every proper prefix of a valid dump (a writer interrupted at any byte) is rejected -/
theorem load_prefix_rejects (ty : Ty) (d : Dat) (h : WF ty d) (n : Nat) (hn : n < (dump ty d).length) :
    ∀ a r, load ty ((dump ty d).take n) ≠ .ok (a, r) :=
  prefix_rejected (load ty) (PL_load ty) (dump ty d) d
    (by have := load_dump ty d [] h; simpa using this) n hn

/-- a dump in which one global header/footer word, one per-layer header/footer word, or the float-width word
    (to a value other than 4 and 8) has been altered -/
inductive FieldAlt (ty : Ty) (d : Dat) : List Byte → Prop
  | global (bs) : AltW T_FIELD (dumpB ty d) bs → FieldAlt ty d bs
  | layer (bs) : Alt ty d bs → FieldAlt ty d (wrapD T_FIELD bs)

theorem load_altered_rejects (ty : Ty) (d : Dat) (bs : List Byte) (h : WF ty d) (ha : FieldAlt ty d bs)
    (rest : List Byte) : IsErr (load ty (bs ++ rest)) := by
  cases ha with
  | global bs hw =>
    exact wrapP_alt _ _ _ _ _ d (by decide) (fun r => loadB_dumpB ty d r h) hw
  | layer bs hl =>
    exact wrapP_body_err _ _ _ _ (by decide) (loadB_alt ty d bs hl h _)

/-- two stacks that are identical down to some layer and carry different tags there -/
inductive Diverge : Ty → Ty → Prop
  | arrayL (M b) : tagOf b ≠ T_ARRAY → (∀ c, b ≠ .thin c) → Diverge (.array M) b
  | constL (sz M b) : tagOf b ≠ T_CONST → (∀ c, b ≠ .thin c) → Diverge (.constant sz M) b
  | identL (b) : tagOf b ≠ T_IDENT → (∀ c, b ≠ .thin c) → Diverge .identity b
  | sizedL (t N a b) : tagOf b ≠ t → (∀ c, b ≠ .thin c) → Diverge (.sized t N a) b
  | clampL (sz N a b) : tagOf b ≠ T_CLAMP → (∀ c, b ≠ .thin c) → Diverge (.clamp sz N a) b
  | backupL (sz N osz M a b) : tagOf b ≠ T_BACKUP → (∀ c, b ≠ .thin c) → Diverge (.backup sz N osz M a) b
  | affineL (sz N a b) : tagOf b ≠ T_AFFINE → (∀ c, b ≠ .thin c) → Diverge (.affine sz N a) b
  | thinL (a b) : Diverge a b → Diverge (.thin a) b
  | thinR (a b) : Diverge a b → Diverge a (.thin b)
  | sized (t N a b) : Diverge a b → Diverge (.sized t N a) (.sized t N b)
  | clamp (sz N a b) : Diverge a b → Diverge (.clamp sz N a) (.clamp sz N b)
  | backup (sz N osz M a b) : Diverge a b → Diverge (.backup sz N osz M a) (.backup sz N osz M b)
  | affine (sz N a b) : Diverge a b → Diverge (.affine sz N a) (.affine sz N b)

/-- a non-thin reader fails on a bracket that opens with a different tag -/
theorem loadB_wrong_tag (b : Ty) (t : Nat) (B rest : List Byte) (hne : tagOf b ≠ t) (hnt : ∀ c, b ≠ .thin c)
    (ht : t < 256^4) : IsErr (loadB b (wrapD t B ++ rest)) := by
  have key : ∀ {α} (body : Parser α), IsErr (wrapP (tagOf b) body (wrapD t B ++ rest)) := by
    intro α body
    unfold wrapP wrapD hdr
    apply bindP_err
    simp only [List.append_assoc]
    exact pHdr_alt2 _ t _ (fun e => hne e.symm) ht
  cases b with
  | thin c => exact absurd rfl (hnt c)
  | array M => simp only [loadB]; exact key _
  | constant sz M => simp only [loadB]; exact key _
  | identity => simp only [loadB]; exact key _
  | sized t' N a => simp only [loadB]; exact key _
  | clamp sz N a => simp only [loadB]; exact key _
  | backup sz N osz M a => simp only [loadB]; exact key _
  | affine sz N a => simp only [loadB]; exact key _

/-- loading a dump written by an incompatible layer stack is rejected -/
theorem loadB_incompatible (ty ty' : Ty) (hd : Diverge ty ty') (d : Dat) (h : WF ty d) :
    ∀ rest, IsErr (loadB ty' (dumpB ty d ++ rest)) := by
  induction hd generalizing d with
  | arrayL M b hne hnt => intro rest; cases d <;> try (simp [WF] at h)
                          simp only [dumpB]; exact loadB_wrong_tag b _ _ _ hne hnt (by decide)
  | constL sz M b hne hnt => intro rest; cases d <;> try (simp [WF] at h)
                             simp only [dumpB]; exact loadB_wrong_tag b _ _ _ hne hnt (by decide)
  | identL b hne hnt => intro rest; cases d <;> try (simp [WF] at h)
                        simp only [dumpB]; exact loadB_wrong_tag b _ _ _ hne hnt (by decide)
  | sizedL t N a b hne hnt => intro rest; cases d <;> try (simp [WF] at h)
                              simp only [dumpB]; exact loadB_wrong_tag b _ _ _ hne hnt (by simp [FOOT] at h ⊢; omega)
  | clampL sz N a b hne hnt => intro rest; cases d <;> try (simp [WF] at h)
                               simp only [dumpB]; exact loadB_wrong_tag b _ _ _ hne hnt (by decide)
  | backupL sz N osz M a b hne hnt => intro rest; cases d <;> try (simp [WF] at h)
                                      simp only [dumpB]; exact loadB_wrong_tag b _ _ _ hne hnt (by decide)
  | affineL sz N a b hne hnt => intro rest; cases d <;> try (simp [WF] at h)
                                simp only [dumpB]; exact loadB_wrong_tag b _ _ _ hne hnt (by decide)
  | thinL a b _ ih => intro rest; cases d <;> try (simp [WF] at h)
                      simp only [dumpB]; exact ih _ h rest
  | thinR a b _ ih => intro rest; simp only [loadB]; exact bindP_err _ _ _ (ih d h rest)
  | sized t N a b _ ih =>
    intro rest; cases d <;> try (simp [WF] at h)
    rename_i cfg d
    obtain ⟨ht, hl, hc, hw⟩ := h
    simp only [loadB, dumpB]
    apply wrapP_body_err _ _ _ _ ht
    simp only [List.append_assoc]
    rw [← hl]
    apply bindP_ok_err _ _ _ _ _ (readN_words 8 cfg _ hc)
    exact bindP_err _ _ _ (ih d hw _)
  | clamp sz N a b _ ih =>
    intro rest; cases d <;> try (simp [WF] at h)
    rename_i lo hi d
    obtain ⟨hl1, hl2, hc1, hc2, hw⟩ := h
    simp only [loadB, dumpB]
    apply wrapP_body_err _ _ _ _ (by decide)
    simp only [List.append_assoc]
    rw [← hl1]
    apply bindP_ok_err _ _ _ _ _ (readN_words sz lo _ hc1)
    rw [hl1, ← hl2]
    apply bindP_ok_err _ _ _ _ _ (readN_words sz hi _ hc2)
    exact bindP_err _ _ _ (ih d hw _)
  | backup sz N osz M a b _ ih =>
    intro rest; cases d <;> try (simp [WF] at h)
    rename_i lo hi df d
    obtain ⟨hl1, hl2, hl3, hc1, hc2, hc3, hw⟩ := h
    simp only [loadB, dumpB]
    apply wrapP_body_err _ _ _ _ (by decide)
    simp only [List.append_assoc]
    rw [← hl1]
    apply bindP_ok_err _ _ _ _ _ (readN_words sz lo _ hc1)
    rw [hl1, ← hl2]
    apply bindP_ok_err _ _ _ _ _ (readN_words sz hi _ hc2)
    rw [← hl3]
    apply bindP_ok_err _ _ _ _ _ (readN_words osz df _ hc3)
    exact bindP_err _ _ _ (ih d hw _)
  | affine sz N a b _ ih =>
    intro rest; cases d <;> try (simp [WF] at h)
    rename_i m d
    obtain ⟨hl, hc, hw⟩ := h
    simp only [loadB, dumpB]
    apply wrapP_body_err _ _ _ _ (by decide)
    simp only [List.append_assoc]
    rw [← hl]
    apply bindP_ok_err _ _ _ _ _ (readN_words sz m _ hc)
    exact bindP_err _ _ _ (ih d hw _)

theorem load_incompatible_rejects (ty ty' : Ty) (hd : Diverge ty ty') (d : Dat) (h : WF ty d) (rest : List Byte) :
    IsErr (load ty' (dump ty d ++ rest)) :=
  wrapP_body_err _ _ _ _ (by decide) (loadB_incompatible ty ty' hd d h _)

/-! ## The float-width word swapped between 4 and 8: the unrestricted statement is FALSE (format finding) -/
/-- a 4-element `double1` array whose 3rd and 4th values carry the footer words -/
def wsTy : Ty := .array 1
def wsDat : Dat := .array 8 4 [0x3ff0000000000000, 0x4000000000000000,
  (0xCB010000 <<< 32) ||| 0xC04F1E70, (0xCB000000 <<< 32) ||| 0xC04F1E70]
/-- the same bytes with the width word 8 replaced by 4 -/
def wsAltered : List Byte := wrapD T_FIELD (wrapD T_ARRAY (le 4 4 ++ le 8 4 ++ words 8 [0x3ff0000000000000,
  0x4000000000000000, (0xCB010000 <<< 32) ||| 0xC04F1E70, (0xCB000000 <<< 32) ||| 0xC04F1E70]))
example : WF wsTy wsDat := by simp [wsTy, wsDat, WF, allLt]
set_option maxRecDepth 100000 in
/-- witness: the altered stream is ACCEPTED — a 4-element field is returned and the real footers are left unread -/
theorem widthswap_accepts_witness :
    load wsTy wsAltered = .ok (.array 4 4 [0, 0x3ff00000, 0, 0x40000000], ftr T_ARRAY ++ ftr T_FIELD) := by
  rfl

end Covfie.C08
