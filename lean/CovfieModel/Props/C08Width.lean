import CovfieModel.Lemmas.IOWidth
/-! # C08 (float-width word swapped between 8 and 4)

The property demands that a stream whose float-width word was altered is rejected. For replacement values other
than 4 and 8 that is `Covfie.C08.load_altered_rejects`. For the swap 8 ↔ 4 the unrestricted statement is FALSE
(`Covfie.C08.widthswap_accepts_witness`, Props/C08.lean): the format has no length or checksum, so a payload that
carries the footer words where the shorter read ends is accepted. What *is* true is proved here: the swap is
rejected whenever the payload does not mimic the footer magic at that offset (`…_partial`), and the swap 4 → 8 of
a whole file is rejected whenever the array has more than four scalars (the reader runs off the end). -/
namespace Covfie.C08
open Covfie.IO

/-- the array bracket with width word `w'`, count `n` and a payload written at width `wd` -/
def arrBytes (w' n wd : Nat) (cells : List Nat) : List Byte := wrapD T_ARRAY (le 4 w' ++ le 8 n ++ words wd cells)

/-- the payload does not carry the footer magic at the offset where the 4-byte reads end -/
def NoMimic (n M : Nat) (cells : List Nat) : Prop :=
  ∀ v r, rd 4 ((words 8 cells).drop (4 * (n * M))) = .ok (v, r) → v ≠ MAGF

instance (n M : Nat) (cells : List Nat) : Decidable (NoMimic n M cells) :=
  match h : rd 4 ((words 8 cells).drop (4 * (n * M))) with
  | .ok (v, r) => if hv : v = MAGF then isFalse (fun hm => hm v r h hv) else
      isTrue (fun v' r' h' => by rw [h] at h'; cases h'; exact hv)
  | .error _ => isTrue (fun v' r' h' => by rw [h] at h'; cases h')

/-- **8 → 4, array level**: a double array whose width word is replaced by 4 is rejected, provided the payload
    does not mimic the footer magic where the shorter read ends -/
theorem array_8to4_rejects_partial (M n : Nat) (cells : List Nat) (hwf : WF (.array M) (.array 8 n cells))
    (hpos : 0 < n * M) (hm : NoMimic n M cells) (rest : List Byte) :
    IsErr (loadB (.array M) (arrBytes 4 n 8 cells ++ rest)) := by
  obtain ⟨_, hl, hlen, _⟩ := hwf
  have hlen8 : (words 8 cells).length = 8 * (n * M) := by rw [words_len, hlen]
  simp only [loadB, arrBytes, wrapP, wrapD, List.append_assoc]
  rw [bindP_ok _ _ _ _ _ (pHdr_ok T_ARRAY _ (by decide))]
  -- the body parser succeeds, consuming half of the payload
  have hbody : ∃ vs, (bindP (rd 4) fun wd => if wd = 4 ∨ wd = 8 then
        bindP (rd 8) fun n => bindP (readN (rd wd) (n * M)) fun cells => pureP (Dat.array wd n cells)
      else failP .badWidth) (le 4 4 ++ (le 8 n ++ (words 8 cells ++ (ftr T_ARRAY ++ rest)))) =
      .ok (.array 4 n vs, (words 8 cells).drop (4 * (n * M)) ++ (ftr T_ARRAY ++ rest)) := by
    obtain ⟨vs, hvs⟩ := readN_total 4 (n * M) (words 8 cells ++ (ftr T_ARRAY ++ rest))
      (by simp only [List.length_append, hlen8]; omega)
    refine ⟨vs, ?_⟩
    rw [bindP_ok _ _ _ _ _ (rd_le 4 4 _ (by decide))]
    simp only [true_or, if_true]
    rw [bindP_ok _ _ _ _ _ (rd_le 8 n _ hl), bindP_ok _ _ _ _ _ hvs]
    simp only [pureP]
    rw [List.drop_append_of_le_length (by rw [hlen8]; omega)]
  obtain ⟨vs, hvs⟩ := hbody
  rw [bindP_ok _ _ _ _ _ hvs]
  -- the footer check reads four payload bytes
  apply bindP_err
  unfold pFtr
  apply bindP_err
  unfold expect
  obtain ⟨v, hv⟩ := rd_total 4 ((words 8 cells).drop (4 * (n * M))) (by rw [List.length_drop, hlen8]; omega)
  rw [bindP_ok _ _ _ _ _ (rd_append 4 _ _ v _ hv)]
  simp only [hm v _ hv, if_false]
  exact ⟨_, rfl⟩

/-- **8 → 4, whole file** (array directly beneath the field bracket) -/
theorem load_widthswap_8to4_partial (M n : Nat) (cells : List Nat) (hwf : WF (.array M) (.array 8 n cells))
    (hpos : 0 < n * M) (hm : NoMimic n M cells) (rest : List Byte) :
    IsErr (load (.array M) (wrapD T_FIELD (arrBytes 4 n 8 cells) ++ rest)) :=
  wrapP_body_err _ _ _ _ (by decide) (array_8to4_rejects_partial M n cells hwf hpos hm _)

/-- **4 → 8, whole file**: a float array file whose width word is replaced by 8 is rejected as soon as it holds
    more than four scalars: the reader needs `8·n·M` bytes and only `4·n·M + 16` remain -/
theorem load_widthswap_4to8 (M n : Nat) (cells : List Nat) (hwf : WF (.array M) (.array 4 n cells))
    (hbig : 4 < n * M) : IsErr (load (.array M) (wrapD T_FIELD (arrBytes 8 n 4 cells))) := by
  obtain ⟨_, hl, hlen, _⟩ := hwf
  have hlen4 : (words 4 cells).length = 4 * (n * M) := by rw [words_len, hlen]
  have := wrapP_body_err T_FIELD (loadB (.array M)) (arrBytes 8 n 4 cells) [] (by decide) ?_
  · simpa [load] using this
  simp only [loadB, arrBytes, wrapP, wrapD, List.append_assoc]
  rw [bindP_ok _ _ _ _ _ (pHdr_ok T_ARRAY _ (by decide))]
  apply bindP_err
  rw [bindP_ok _ _ _ _ _ (rd_le 4 8 _ (by decide))]
  simp only [or_true, if_true]
  rw [bindP_ok _ _ _ _ _ (rd_le 8 n _ hl)]
  apply bindP_err
  apply readN_short
  simp only [List.length_append, hlen4, ftr, le_length, List.length_nil]
  omega

-- non-vacuity: the hypotheses are satisfiable (an ordinary 2-element double array) …
example : WF (.array 1) (.array 8 2 [0x3ff0000000000000, 0x4000000000000000]) ∧ 0 < 2 * 1 ∧
    NoMimic 2 1 [0x3ff0000000000000, 0x4000000000000000] := by
  refine ⟨by simp [WF, allLt], by decide, by decide⟩
-- … and necessary: the witness payload of `widthswap_accepts_witness` does mimic the footer
example : ¬ NoMimic 4 1 [0x3ff0000000000000, 0x4000000000000000,
    (0xCB010000 <<< 32) ||| 0xC04F1E70, (0xCB000000 <<< 32) ||| 0xC04F1E70] := by decide
end Covfie.C08
