import CovfieModel.Model.Algebra
import CovfieModel.Model.Stack
import Mathlib.Data.List.OfFn
import Mathlib.Tactic.Ring
import Mathlib.Algebra.BigOperators.Fin
import Mathlib.Algebra.BigOperators.Ring.Finset
/-! # C09 — The affine layer maps x to Ax+t and affine transforms compose as functions (any N, any commutative ring) -/
namespace Covfie.C09
variable {α : Type} [CommRing α]

theorem sumFin_eq (n : Nat) (f : Fin n → α) : sumFin n f = ∑ k, f k := by
  unfold sumFin
  rw [← List.sum_ofFn, List.ofFn_eq_map]
  induction (List.finRange n) using List.reverseRecOn with
  | nil => simp
  | append_singleton l a ih => simp [List.foldl_append, ih]

/-- applying the N×(N+1) matrix (A | t) to x gives A·x + t -/
theorem affApply_spec {N : Nat} (A : Fin N → Fin (N+1) → α) (v : Fin N → α) (i : Fin N) :
    affApply A v i = (∑ k : Fin N, A i (Fin.castSucc k) * v k) + A i (Fin.last N) := by
  unfold affApply
  rw [sumFin_eq, Fin.sum_univ_castSucc]
  simp

/-- the product of two affine transforms applied to a vector = apply the right factor, then the left -/
theorem affMul_apply {N : Nat} (P Q : Fin N → Fin (N+1) → α) (v : Fin N → α) (i : Fin N) :
    affApply (affMul P Q) v i = affApply P (affApply Q v) i := by
  simp only [affApply_spec]
  unfold affMul matMul
  simp only [sumFin_eq, Fin.sum_univ_castSucc, embed]
  simp [Finset.sum_add_distrib, Finset.mul_sum, Finset.sum_mul, mul_add, add_mul]
  rw [Finset.sum_comm]
  have h0 : (∑ x : Fin N, if (x : ℕ) = N then P i (Fin.last N) * v x else 0) = 0 :=
    Finset.sum_eq_zero (fun x _ => by simp [Nat.ne_of_lt x.isLt])
  rw [h0]
  simp only [mul_assoc]
  ring

/-- hence products of any length act as the composed function -/
theorem affMul_apply3 {N : Nat} (P Q R : Fin N → Fin (N+1) → α) (v : Fin N → α) :
    affApply (affMul (affMul P Q) R) v = affApply P (affApply Q (affApply R v)) := by
  funext i; rw [affMul_apply, affMul_apply]

theorem sum_diag {N : Nat} (f : Fin N → α) (i : Fin N) : (∑ k : Fin N, if (i : ℕ) = (k : ℕ) then f k else 0) = f i := by
  rw [Finset.sum_eq_single i]
  · simp
  · intro b _ hb; have : (i : ℕ) ≠ (b : ℕ) := fun e => hb (Fin.ext e.symm); simp [this]
  · simp

theorem identity_apply {N : Nat} (v : Fin N → α) (i : Fin N) : affApply (affId N) v i = v i := by
  rw [affApply_spec]
  simp [affId, Nat.ne_of_lt i.isLt, sum_diag]
theorem translation_apply {N : Nat} (t v : Fin N → α) (i : Fin N) : affApply (affTranslation t) v i = v i + t i := by
  rw [affApply_spec]
  simp [affTranslation, affId, Nat.ne_of_lt (Fin.isLt _), sum_diag]
theorem scaling_apply {N : Nat} (s v : Fin N → α) (i : Fin N) : affApply (affScaling s) v i = s i * v i := by
  rw [affApply_spec]
  simp only [affScaling, affId, Fin.val_castSucc, Fin.val_last, Nat.ne_of_lt i.isLt, if_false, add_zero]
  rw [Finset.sum_eq_single i]
  · simp
  · intro b _ hb; have : (i : ℕ) ≠ (b : ℕ) := fun e => hb (Fin.ext e.symm); simp [this]
  · simp

end Covfie.C09

/-! ### associativity -/
namespace Covfie.C09
variable {α : Type} [CommRing α]

/-- an affine matrix is determined by its action on vectors -/
theorem affApply_inj {N : Nat} (A B : Fin N → Fin (N+1) → α) (h : ∀ v, affApply A v = affApply B v) : A = B := by
  funext i j
  have h0 := congrFun (h (fun _ => 0)) i
  simp only [affApply_spec] at h0
  have hl : A i (Fin.last N) = B i (Fin.last N) := by simpa using h0
  refine Fin.lastCases (motive := fun j => A i j = B i j) hl (fun k => ?_) j
  have hk := congrFun (h (fun m => if m = k then 1 else 0)) i
  simp only [affApply_spec] at hk
  simpa [hl] using hk

/-- composition of affine transforms is associative, so products of any length act as the composed function whatever
    the association order -/
theorem affMul_assoc {N : Nat} (P Q R : Fin N → Fin (N+1) → α) : affMul (affMul P Q) R = affMul P (affMul Q R) := by
  apply affApply_inj
  intro v
  funext i
  have e : affApply (affMul Q R) v = affApply Q (affApply R v) := funext (affMul_apply Q R v)
  rw [affMul_apply, affMul_apply, affMul_apply, e]

/-- a product of four transforms (the longest chain the correspondence exercises) acts as the four factors applied in turn -/
theorem affMul_apply4 {N : Nat} (P Q R S : Fin N → Fin (N+1) → α) (v : Fin N → α) :
    affApply (affMul (affMul (affMul P Q) R) S) v = affApply P (affApply Q (affApply R (affApply S v))) := by
  funext i; rw [affMul_apply, affMul_apply, affMul_apply]
end Covfie.C09

/-! ### the layer of the stack model -/
namespace Covfie.C09
open Covfie

/-- the row-wise evaluation used by the stack model's affine layer (`affineL`) is the model's `affApply` -/
theorem affineRow_eq_affApply {N : Nat} (A : Fin N → Fin (N+1) → ℚ) (v : Fin N → ℚ) (i : Fin N) :
    affineRow (List.ofFn (A i)) (List.ofFn v) = affApply A v i := by
  have hx : List.ofFn v ++ [1] = List.ofFn (fun k : Fin (N+1) => if h : k.val < N then v ⟨k.val, h⟩ else (1:ℚ)) := by
    rw [List.ofFn_succ' (n := N)]
    simp [List.concat_eq_append]
  unfold affineRow affApply sumFin
  rw [hx, List.ofFn_eq_map, List.ofFn_eq_map, List.zipWith_map, List.zipWith_self, List.foldl_map]

/-- the affine layer queries what lies beneath at `A·x + t` -/
theorem affine_layer {N : Nat} (A : Fin N → Fin (N+1) → ℚ) (x : Fin N → ℚ) (bk : Backend) :
    affineL (List.ofFn fun i => List.ofFn (A i)) bk ((List.ofFn x).map Num.fin) =
      bk (List.ofFn fun i => Num.fin (affApply A x i)) := by
  have hm : mapO finOf ((List.ofFn x).map Num.fin) = some (List.ofFn x) := by
    induction (List.ofFn x) with
    | nil => rfl
    | cons a as ih => simp [mapO, finOf, ih]
  unfold affineL
  rw [hm]
  simp only [List.map_ofFn]
  congr 1
  apply List.ofFn_inj.mpr
  funext i
  simp only [Function.comp]
  rw [affineRow_eq_affApply]
end Covfie.C09
