import CovfieModel.Props.C09Round
/-! # C09 — a product of two affine transforms, applied to a vector, in floating point

`(P * Q) * v` as the library computes it (`affine::operator*(affine)` embeds both factors, multiplies with the loop of
`matrix::operator*`, and `affine::operator*(vector)` applies the result) is, under the standard model, within
`((1+u)^(2(N+1)) − 1) · |P|(|Q||v|)` of the exact `P (Q v)` (`affChain_round`) — the bound `γ_c |A1||A2||v|` with
`c = 2 (N+1)` that the correspondence judge uses for chains of two factors. -/
namespace Covfie.C09
open Covfie Covfie.C03

def termE (p : Ex × Ex) : Ex := Ex.mul p.1 p.2
def exAccE (ps : List (Ex × Ex)) (acc : Ex) : Ex := ps.foldl (fun acc q => Ex.add acc (termE q)) acc
def flE (rnd : ℚ → ℚ) (p : Ex × Ex) : Fl rnd × Fl rnd := (⟨p.1.fl rnd⟩, ⟨p.2.fl rnd⟩)
def exactE (p : Ex × Ex) : ℚ × ℚ := (p.1.exact, p.2.exact)
def magE (p : Ex × Ex) : ℚ × ℚ := (p.1.mag, p.2.mag)

theorem accE_facts (rnd : ℚ → ℚ) (C : ℕ) (ps : List (Ex × Ex)) (hC : ∀ p ∈ ps, p.1.cnt + p.2.cnt ≤ C)
    (acc : Ex) (accF : Fl rnd) (hF : acc.fl rnd = accF.val) :
    (exAccE ps acc).fl rnd = ((ps.map (flE rnd)).foldl (fun (acc : Fl rnd) p => acc + p.1 * p.2) accF).val ∧
    (exAccE ps acc).exact = (ps.map exactE).foldl (fun (acc : ℚ) p => acc + p.1 * p.2) acc.exact ∧
    (exAccE ps acc).mag = (ps.map magE).foldl (fun (acc : ℚ) p => acc + p.1 * p.2) acc.mag ∧
    (exAccE ps acc).cnt ≤ max acc.cnt (C + 1) + ps.length := by
  induction ps generalizing acc accF with
  | nil => exact ⟨hF, rfl, rfl, by simp [exAccE]⟩
  | cons q ps ih =>
    have hq : q.1.cnt + q.2.cnt ≤ C := hC q (by simp)
    have hF' : (Ex.add acc (termE q)).fl rnd = (accF + (flE rnd q).1 * (flE rnd q).2).val := by
      show rnd (acc.fl rnd + rnd (q.1.fl rnd * q.2.fl rnd)) = _
      rw [hF]; rfl
    obtain ⟨h1, h2, h3, h4⟩ := ih (fun p hp => hC p (by simp [hp])) (Ex.add acc (termE q)) _ hF'
    refine ⟨?_, ?_, ?_, ?_⟩
    · simpa [exAccE] using h1
    · simpa [exAccE, Ex.exact, termE, exactE] using h2
    · simpa [exAccE, Ex.mag, termE, magE] using h3
    · have h4' : (exAccE (q :: ps) acc).cnt ≤ max (Ex.add acc (termE q)).cnt (C + 1) + ps.length := h4
      have hc : (Ex.add acc (termE q)).cnt = max acc.cnt (q.1.cnt + q.2.cnt + 1) + 1 := by simp [Ex.cnt, termE]
      simp only [List.length_cons]
      omega

def exDotE : List (Ex × Ex) → Ex
  | [] => Ex.lit 0
  | p :: ps => exAccE ps (termE p)

theorem dotE_facts (rnd : ℚ → ℚ) (hid : ∀ x, rnd (rnd x) = rnd x) (C : ℕ) (l : List (Ex × Ex))
    (hC : ∀ p ∈ l, p.1.cnt + p.2.cnt ≤ C) :
    (exDotE l).fl rnd = (dotF (l.map (flE rnd))).val ∧ (exDotE l).exact = dotF (l.map exactE) ∧
    (exDotE l).mag = dotF (l.map magE) ∧ (exDotE l).cnt ≤ C + l.length := by
  cases l with
  | nil => exact ⟨rfl, rfl, abs_zero, by simp [exDotE, Ex.cnt]⟩
  | cons p ps =>
    have hF : (termE p).fl rnd = ((0 : Fl rnd) + (flE rnd p).1 * (flE rnd p).2).val := by
      show rnd (p.1.fl rnd * p.2.fl rnd) = rnd (0 + rnd (p.1.fl rnd * p.2.fl rnd))
      rw [zero_add, hid]
    obtain ⟨h1, h2, h3, h4⟩ := accE_facts rnd C ps (fun q hq => hC q (by simp [hq])) (termE p) _ hF
    have hp : p.1.cnt + p.2.cnt ≤ C := hC p (by simp)
    refine ⟨?_, ?_, ?_, ?_⟩
    · simpa [exDotE, dotF] using h1
    · simpa [exDotE, dotF, termE, Ex.exact, exactE] using h2
    · simpa [exDotE, dotF, termE, Ex.mag, magE] using h3
    · have h4' : (exDotE (p :: ps)).cnt ≤ max (termE p).cnt (C + 1) + ps.length := h4
      have : (termE p).cnt = p.1.cnt + p.2.cnt + 1 := by simp [termE, Ex.cnt]
      simp only [List.length_cons]
      omega

/-- a dot product whose operands are themselves rounded expressions of depth ≤ C -/
theorem dotE_round (u : ℚ) (rnd : ℚ → ℚ) (h : StdModel u rnd) (hid : ∀ x, rnd (rnd x) = rnd x) (C : ℕ) (l : List (Ex × Ex))
    (hC : ∀ p ∈ l, p.1.cnt + p.2.cnt ≤ C) :
    |(dotF (l.map (flE rnd))).val - dotF (l.map exactE)| ≤ g u (C + l.length) * dotF (l.map magE) := by
  obtain ⟨h1, h2, h3, h4⟩ := dotE_facts rnd hid C l hC
  have hb := (eval_bound u rnd h (exDotE l)).1
  rw [h1, h2, h3] at hb
  exact le_trans hb (mul_le_mul_of_nonneg_right (g_mono u h.1 h4) (by rw [← h3]; exact mag_nonneg _))

def toFl (rnd : ℚ → ℚ) {n m : Nat} (A : Fin n → Fin m → ℚ) : Fin n → Fin m → Fl rnd := fun i k => ⟨A i k⟩
def absM {n m : Nat} (A : Fin n → Fin m → ℚ) : Fin n → Fin m → ℚ := fun i k => |A i k|

theorem embed_toFl (rnd : ℚ → ℚ) {N : Nat} (A : Fin N → Fin (N+1) → ℚ) (a b : Fin (N+1)) :
    embed (toFl rnd A) a b = ⟨embed A a b⟩ := by
  unfold embed toFl
  split
  · rfl
  · split <;> rfl

theorem embed_abs {N : Nat} (A : Fin N → Fin (N+1) → ℚ) (a b : Fin (N+1)) : embed (absM A) a b = |embed A a b| := by
  unfold embed absM
  split
  · rfl
  · split <;> simp

/-- entry `(i,k)` of the product, as an expression -/
def entryEx {N : Nat} (P Q : Fin N → Fin (N+1) → ℚ) (i : Fin N) (k : Fin (N+1)) : Ex :=
  exDotE ((List.finRange (N+1)).map fun j => (Ex.lit (embed P (Fin.castSucc i) j), Ex.lit (embed Q j k)))

theorem entry_facts (rnd : ℚ → ℚ) (hid : ∀ x, rnd (rnd x) = rnd x) {N : Nat} (P Q : Fin N → Fin (N+1) → ℚ) (i : Fin N) (k : Fin (N+1)) :
    (entryEx P Q i k).fl rnd = (affMul (toFl rnd P) (toFl rnd Q) i k).val ∧
    (entryEx P Q i k).exact = affMul P Q i k ∧
    (entryEx P Q i k).mag = affMul (absM P) (absM Q) i k ∧
    (entryEx P Q i k).cnt ≤ N + 1 := by
  obtain ⟨h1, h2, h3, h4⟩ := dotE_facts rnd hid 0
    ((List.finRange (N+1)).map fun j => (Ex.lit (embed P (Fin.castSucc i) j), Ex.lit (embed Q j k)))
    (by intro p hp; obtain ⟨j, _, rfl⟩ := List.mem_map.mp hp; simp [Ex.cnt])
  refine ⟨?_, ?_, ?_, ?_⟩
  · rw [entryEx, h1]
    unfold affMul matMul
    rw [sumFin_eq_dot, List.map_map]
    congr 2
    apply List.map_congr_left
    intro j _
    simp only [Function.comp, flE, Ex.fl, embed_toFl]
  · rw [entryEx, h2]
    unfold affMul matMul
    rw [sumFin_eq_dot, List.map_map]
    rfl
  · rw [entryEx, h3]
    unfold affMul matMul
    rw [sumFin_eq_dot, List.map_map]
    congr 1
    apply List.map_congr_left
    intro j _
    simp only [Function.comp, magE, Ex.mag, embed_abs]
  · simpa [entryEx] using h4

/-- **`(P * Q) * v` in floating point**: within `((1+u)^(2(N+1)) − 1) · |P|(|Q||v|)` of the exact `P (Q v)` -/
theorem affChain_round (u : ℚ) (rnd : ℚ → ℚ) (h : StdModel u rnd) (hid : ∀ x, rnd (rnd x) = rnd x) {N : Nat}
    (P Q : Fin N → Fin (N+1) → ℚ) (v : Fin N → ℚ) (i : Fin N) :
    |(affApply (affMul (toFl rnd P) (toFl rnd Q)) (fun k => (⟨v k⟩ : Fl rnd)) i).val - affApply P (affApply Q v) i| ≤
      g u (2 * (N + 1)) * affApply (absM P) (affApply (absM Q) (fun k => |v k|)) i := by
  let l : List (Ex × Ex) := (List.finRange (N+1)).map fun k => (entryEx P Q i k, Ex.lit (hom v k))
  have hC : ∀ p ∈ l, p.1.cnt + p.2.cnt ≤ N + 1 := by
    intro p hp
    obtain ⟨k, _, rfl⟩ := List.mem_map.mp hp
    have := (entry_facts rnd hid P Q i k).2.2.2
    simpa [Ex.cnt] using this
  have key := dotE_round u rnd h hid (N + 1) l hC
  have e1 : affApply (affMul (toFl rnd P) (toFl rnd Q)) (fun k => (⟨v k⟩ : Fl rnd)) i = dotF (l.map (flE rnd)) := by
    unfold affApply
    rw [sumFin_eq_dot, List.map_map]
    congr 1
    apply List.map_congr_left
    intro k _
    simp only [Function.comp, flE, Ex.fl, (entry_facts rnd hid P Q i k).1, hom]
    split <;> rfl
  have e2 : affApply P (affApply Q v) i = dotF (l.map exactE) := by
    rw [← affMul_apply]
    unfold affApply
    rw [sumFin_eq_dot, List.map_map]
    congr 1
    apply List.map_congr_left
    intro k _
    simp only [Function.comp, exactE, Ex.exact, (entry_facts rnd hid P Q i k).2.1, hom]
  have e3 : affApply (absM P) (affApply (absM Q) (fun k => |v k|)) i = dotF (l.map magE) := by
    rw [← affMul_apply]
    unfold affApply
    rw [sumFin_eq_dot, List.map_map]
    congr 1
    apply List.map_congr_left
    intro k _
    simp only [Function.comp, magE, Ex.mag, (entry_facts rnd hid P Q i k).2.2.1, hom]
    split <;> simp
  rw [e1, e2, e3]
  have hlen : l.length = N + 1 := by simp [l]
  rw [hlen] at key
  have : N + 1 + (N + 1) = 2 * (N + 1) := by ring
  rw [this] at key
  exact key

/-- component `k` of the homogeneous vector `(Q v, 1)`, as an expression -/
def applyEx {N : Nat} (Q : Fin N → Fin (N+1) → ℚ) (v : Fin N → ℚ) (k : Fin (N+1)) : Ex :=
  if h : k.val < N then exDotE ((List.finRange (N+1)).map fun j => (Ex.lit (Q ⟨k.val, h⟩ j), Ex.lit (hom v j))) else Ex.lit 1

theorem apply_facts (rnd : ℚ → ℚ) (hid : ∀ x, rnd (rnd x) = rnd x) {N : Nat} (Q : Fin N → Fin (N+1) → ℚ) (v : Fin N → ℚ) (k : Fin (N+1)) :
    (applyEx Q v k).fl rnd = (hom (affApply (toFl rnd Q) (fun k => (⟨v k⟩ : Fl rnd))) k).val ∧
    (applyEx Q v k).exact = hom (affApply Q v) k ∧
    (applyEx Q v k).mag = hom (affApply (absM Q) (fun k => |v k|)) k ∧
    (applyEx Q v k).cnt ≤ N + 1 := by
  have hpos : ∀ {α : Type} [OfNat α 1] (f : Fin N → α) (hk : k.val < N), hom f k = f ⟨k.val, hk⟩ := by
    intro α _ f hk; simp [hom, hk]
  have hneg : ∀ {α : Type} [OfNat α 1] (f : Fin N → α) (_ : ¬ k.val < N), hom f k = 1 := by
    intro α _ f hk; simp [hom, hk]
  unfold applyEx
  by_cases hk : k.val < N
  · simp only [dif_pos hk]
    obtain ⟨h1, h2, h3, h4⟩ := dotE_facts rnd hid 0
      ((List.finRange (N+1)).map fun j => (Ex.lit (Q ⟨k.val, hk⟩ j), Ex.lit (hom v j)))
      (by intro p hp; obtain ⟨j, _, rfl⟩ := List.mem_map.mp hp; simp [Ex.cnt])
    refine ⟨?_, ?_, ?_, ?_⟩
    · rw [h1, hpos _ hk]
      unfold affApply
      rw [sumFin_eq_dot, List.map_map]
      congr 2
      apply List.map_congr_left
      intro j _
      simp only [Function.comp, flE, Ex.fl, toFl, hom]
      split <;> rfl
    · rw [h2, hpos _ hk]
      unfold affApply
      rw [sumFin_eq_dot, List.map_map]
      rfl
    · rw [h3, hpos _ hk]
      unfold affApply
      rw [sumFin_eq_dot, List.map_map]
      congr 1
      apply List.map_congr_left
      intro j _
      simp only [Function.comp, magE, Ex.mag, absM, hom]
      split <;> simp
    · simpa using h4
  · simp only [dif_neg hk]
    refine ⟨?_, ?_, ?_, by simp [Ex.cnt]⟩
    · rw [hneg _ hk]; rfl
    · rw [hneg _ hk]; rfl
    · rw [hneg _ hk]; exact abs_one

/-- **`P * (Q * v)` in floating point** (apply the right factor, then the left): the same bound -/
theorem affSeq_round (u : ℚ) (rnd : ℚ → ℚ) (h : StdModel u rnd) (hid : ∀ x, rnd (rnd x) = rnd x) {N : Nat}
    (P Q : Fin N → Fin (N+1) → ℚ) (v : Fin N → ℚ) (i : Fin N) :
    |(affApply (toFl rnd P) (affApply (toFl rnd Q) (fun k => (⟨v k⟩ : Fl rnd))) i).val - affApply P (affApply Q v) i| ≤
      g u (2 * (N + 1)) * affApply (absM P) (affApply (absM Q) (fun k => |v k|)) i := by
  let l : List (Ex × Ex) := (List.finRange (N+1)).map fun k => (Ex.lit (P i k), applyEx Q v k)
  have hC : ∀ p ∈ l, p.1.cnt + p.2.cnt ≤ N + 1 := by
    intro p hp
    obtain ⟨k, _, rfl⟩ := List.mem_map.mp hp
    have := (apply_facts rnd hid Q v k).2.2.2
    simpa [Ex.cnt] using this
  have key := dotE_round u rnd h hid (N + 1) l hC
  have e1 : affApply (toFl rnd P) (affApply (toFl rnd Q) (fun k => (⟨v k⟩ : Fl rnd))) i = dotF (l.map (flE rnd)) := by
    unfold affApply
    rw [sumFin_eq_dot, List.map_map]
    congr 1
    apply List.map_congr_left
    intro k _
    have hk := (apply_facts rnd hid Q v k).1
    simp only [Function.comp, flE, Ex.fl, hk]
    rfl
  have e2 : affApply P (affApply Q v) i = dotF (l.map exactE) := by
    unfold affApply
    rw [sumFin_eq_dot, List.map_map]
    congr 1
    apply List.map_congr_left
    intro k _
    have hk := (apply_facts rnd hid Q v k).2.1
    simp only [Function.comp, exactE, Ex.exact, hk]
    rfl
  have e3 : affApply (absM P) (affApply (absM Q) (fun k => |v k|)) i = dotF (l.map magE) := by
    unfold affApply
    rw [sumFin_eq_dot, List.map_map]
    congr 1
    apply List.map_congr_left
    intro k _
    have hk := (apply_facts rnd hid Q v k).2.2.1
    simp only [Function.comp, magE, Ex.mag, hk]
    rfl
  rw [e1, e2, e3]
  have hlen : l.length = N + 1 := by simp [l]
  rw [hlen] at key
  have : N + 1 + (N + 1) = 2 * (N + 1) := by ring
  rw [this] at key
  exact key

/-- **"the product applied to a vector equals applying the right factor and then the left", in floating point**: the two
    ways of computing differ by at most twice the bound -/
theorem affChain_vs_seq (u : ℚ) (rnd : ℚ → ℚ) (h : StdModel u rnd) (hid : ∀ x, rnd (rnd x) = rnd x) {N : Nat}
    (P Q : Fin N → Fin (N+1) → ℚ) (v : Fin N → ℚ) (i : Fin N) :
    |(affApply (affMul (toFl rnd P) (toFl rnd Q)) (fun k => (⟨v k⟩ : Fl rnd)) i).val -
      (affApply (toFl rnd P) (affApply (toFl rnd Q) (fun k => (⟨v k⟩ : Fl rnd))) i).val| ≤
      2 * (g u (2 * (N + 1)) * affApply (absM P) (affApply (absM Q) (fun k => |v k|)) i) := by
  have a := affChain_round u rnd h hid P Q v i
  have b := affSeq_round u rnd h hid P Q v i
  have t := abs_sub_le (affApply (affMul (toFl rnd P) (toFl rnd Q)) (fun k => (⟨v k⟩ : Fl rnd)) i).val
    (affApply P (affApply Q v) i) (affApply (toFl rnd P) (affApply (toFl rnd Q) (fun k => (⟨v k⟩ : Fl rnd))) i).val
  rw [abs_sub_comm (affApply P (affApply Q v) i)] at t
  linarith

end Covfie.C09
