import CovfieModel.Props.C09
import CovfieModel.Props.C03Round
/-! # C09 — "within rounding", proved under the standard model of floating-point arithmetic

`affApply` (the model of `affine::operator*(vector)`: `t = 0; for k: t += A(i,k) * r(k)` with `r = (v, 1)`) is polymorphic
in the scalar; at `Fl rnd` it is the floating-point evaluation of the loop.  Under the standard model (relative error `u`
per operation) and idempotence of the rounding (`rnd (rnd x) = rnd x`: the first `0 + t` is exact), every output component
is within `((1+u)^(N+1) − 1) · (|A| · |r|)_i` of the exact `A·x + t` (`affApply_round`).  With `gamma_bound` this is the
bound `γ_{N+1} · |A||r|` that the correspondence judge applies to `apply` / `layer` results (its additional slack covers
the subnormal range, where the relative model does not hold). -/
namespace Covfie.C09
open Covfie Covfie.C03

/-- `t = 0; for p in l: t += p.1 * p.2` -/
def dotF {α : Type} [Add α] [Mul α] [OfNat α 0] (l : List (α × α)) : α := l.foldl (fun acc p => acc + p.1 * p.2) 0

theorem sumFin_eq_dot {α : Type} [Add α] [Mul α] [OfNat α 0] (n : Nat) (a r : Fin n → α) :
    sumFin n (fun k => a k * r k) = dotF ((List.finRange n).map fun k => (a k, r k)) := by
  unfold sumFin dotF
  rw [List.foldl_map]

def term (p : ℚ × ℚ) : Ex := Ex.mul (Ex.lit p.1) (Ex.lit p.2)
def flp (rnd : ℚ → ℚ) (p : ℚ × ℚ) : Fl rnd × Fl rnd := (⟨p.1⟩, ⟨p.2⟩)
def absp (p : ℚ × ℚ) : ℚ × ℚ := (|p.1|, |p.2|)

/-- the accumulation from a given start, as an expression -/
def exAcc (ps : List (ℚ × ℚ)) (acc : Ex) : Ex := ps.foldl (fun acc q => Ex.add acc (term q)) acc

theorem acc_facts (rnd : ℚ → ℚ) (ps : List (ℚ × ℚ)) (acc : Ex) (accF : Fl rnd) (hF : acc.fl rnd = accF.val) :
    (exAcc ps acc).fl rnd = ((ps.map (flp rnd)).foldl (fun (acc : Fl rnd) p => acc + p.1 * p.2) accF).val ∧
    (exAcc ps acc).exact = ps.foldl (fun (acc : ℚ) p => acc + p.1 * p.2) acc.exact ∧
    (exAcc ps acc).mag = (ps.map absp).foldl (fun (acc : ℚ) p => acc + p.1 * p.2) acc.mag ∧
    (exAcc ps acc).cnt ≤ max acc.cnt 1 + ps.length := by
  induction ps generalizing acc accF with
  | nil => exact ⟨hF, rfl, rfl, by simp [exAcc]⟩
  | cons q ps ih =>
    have hF' : (Ex.add acc (term q)).fl rnd = (accF + (flp rnd q).1 * (flp rnd q).2).val := by
      show rnd (acc.fl rnd + rnd (q.1 * q.2)) = _
      rw [hF]; rfl
    obtain ⟨h1, h2, h3, h4⟩ := ih (Ex.add acc (term q)) _ hF'
    refine ⟨?_, ?_, ?_, ?_⟩
    · simpa [exAcc] using h1
    · simpa [exAcc, Ex.exact, term] using h2
    · simpa [exAcc, Ex.mag, term, absp] using h3
    · have h4' : (exAcc (q :: ps) acc).cnt ≤ max (Ex.add acc (term q)).cnt 1 + ps.length := h4
      have hc : (Ex.add acc (term q)).cnt = max acc.cnt 1 + 1 := by simp [Ex.cnt, term]
      simp only [List.length_cons]
      omega

/-- the whole dot product: the first product starts the accumulation (`0 + t` is exact) -/
def exDot : List (ℚ × ℚ) → Ex
  | [] => Ex.lit 0
  | p :: ps => exAcc ps (term p)

/-- **dot product of `n` terms**: within `((1+u)^n − 1) · Σ|a_k||r_k|` of the exact value -/
theorem dot_round (u : ℚ) (rnd : ℚ → ℚ) (h : StdModel u rnd) (hid : ∀ x, rnd (rnd x) = rnd x) (l : List (ℚ × ℚ)) :
    |(dotF (l.map (flp rnd))).val - dotF l| ≤ g u l.length * dotF (l.map absp) := by
  cases l with
  | nil =>
    show |(0 : ℚ) - 0| ≤ g u 0 * 0
    simp
  | cons p ps =>
    have hF : (term p).fl rnd = ((0 : Fl rnd) + (flp rnd p).1 * (flp rnd p).2).val := by
      show rnd (p.1 * p.2) = rnd (0 + rnd (p.1 * p.2))
      rw [zero_add, hid]
    obtain ⟨h1, h2, h3, h4⟩ := acc_facts rnd ps (term p) _ hF
    have hb := (eval_bound u rnd h (exDot (p :: ps))).1
    have e1 : (exDot (p :: ps)).fl rnd = (dotF ((p :: ps).map (flp rnd))).val := by
      simpa [exDot, dotF] using h1
    have e2 : (exDot (p :: ps)).exact = dotF (p :: ps) := by
      simpa [exDot, dotF, term, Ex.exact] using h2
    have e3 : (exDot (p :: ps)).mag = dotF ((p :: ps).map absp) := by
      simpa [exDot, dotF, term, Ex.mag, absp] using h3
    have e4 : (exDot (p :: ps)).cnt ≤ (p :: ps).length := by
      have : (term p).cnt = 1 := by simp [term, Ex.cnt]
      have h4' : (exDot (p :: ps)).cnt ≤ max (term p).cnt 1 + ps.length := h4
      simp only [List.length_cons]
      omega
    rw [e1, e2, e3] at hb
    exact le_trans hb (mul_le_mul_of_nonneg_right (g_mono u h.1 e4) (by rw [← e3]; exact mag_nonneg _))

/-- homogeneous coordinate vector `(v, 1)` -/
def hom {α : Type} [OfNat α 1] {N : Nat} (v : Fin N → α) : Fin (N+1) → α :=
  fun k => if h : k.val < N then v ⟨k.val, h⟩ else 1

/-- **the affine layer's coordinate map, component `i`**: the floating-point `A·(v,1)` is within
    `((1+u)^(N+1) − 1) · (|A|·(|v|,1))_i` of the exact one -/
theorem affApply_round (u : ℚ) (rnd : ℚ → ℚ) (h : StdModel u rnd) (hid : ∀ x, rnd (rnd x) = rnd x) {N : Nat}
    (A : Fin N → Fin (N+1) → ℚ) (v : Fin N → ℚ) (i : Fin N) :
    |(affApply (fun i k => (⟨A i k⟩ : Fl rnd)) (fun k => (⟨v k⟩ : Fl rnd)) i).val - affApply A v i| ≤
      g u (N + 1) * affApply (fun i k => |A i k|) (fun k => |v k|) i := by
  have key := dot_round u rnd h hid ((List.finRange (N+1)).map fun k => (A i k, hom v k))
  have e1 : affApply (fun i k => (⟨A i k⟩ : Fl rnd)) (fun k => (⟨v k⟩ : Fl rnd)) i =
      dotF (((List.finRange (N+1)).map fun k => (A i k, hom v k)).map (flp rnd)) := by
    unfold affApply
    rw [sumFin_eq_dot, List.map_map]
    congr 1
    apply List.map_congr_left
    intro k _
    simp only [Function.comp, flp, hom]
    split <;> rfl
  have e2 : affApply A v i = dotF ((List.finRange (N+1)).map fun k => (A i k, hom v k)) := by
    unfold affApply
    rw [sumFin_eq_dot]
    rfl
  have e3 : affApply (fun i k => |A i k|) (fun k => |v k|) i =
      dotF (((List.finRange (N+1)).map fun k => (A i k, hom v k)).map absp) := by
    unfold affApply
    rw [sumFin_eq_dot, List.map_map]
    congr 1
    apply List.map_congr_left
    intro k _
    simp only [Function.comp, absp, hom]
    split <;> simp
  rw [e1, e2, e3]
  simpa using key

end Covfie.C09
