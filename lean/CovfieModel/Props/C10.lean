import CovfieModel.Model.Stack
import CovfieModel.Props.C01
import CovfieModel.Props.C02
import Mathlib.Tactic.Linarith
import Mathlib.Algebra.Order.Field.Basic
/-! # C10 — Clamping makes every coordinate safe -/
namespace Covfie.C10

/-- `a ≤ b` on non-NaN numbers -/
def le (a b : Num) : Prop := Num.lt b a = false ∧ a.isNan = false ∧ b.isNan = false

/-- for every coordinate value whatsoever (±∞ included, NaN excluded) the clamped value lies in the box -/
theorem clamp_in_box (lo hi x : Num) (hb : le lo hi) (hx : x.isNan = false) :
    le lo (clampNum lo hi x) ∧ le (clampNum lo hi x) hi := by
  obtain ⟨h1, h2, h3⟩ := hb
  unfold clampNum
  cases lo <;> cases hi <;> cases x <;> simp_all [le, Num.lt, Num.isNan] <;>
    (try split_ifs) <;> simp_all [Num.lt, Num.isNan] <;> (try constructor) <;> (try linarith)

/-- inside the box the coordinate is unchanged -/
theorem clamp_id_inside (lo hi x : Num) (h1 : le lo x) (h2 : le x hi) : clampNum lo hi x = x := by
  unfold clampNum; simp [h1.1, h2.1]

/-- clamping twice is clamping once -/
theorem clamp_idem (lo hi x : Num) (hb : le lo hi) (hx : x.isNan = false) :
    clampNum lo hi (clampNum lo hi x) = clampNum lo hi x := by
  obtain ⟨h1, h2⟩ := clamp_in_box lo hi x hb hx
  exact clamp_id_inside lo hi _ h1 h2

/-- the clamped field queries its backend at the component-wise clamp and returns that value -/
theorem clamp_eval (lo hi : List Num) (b : Backend) (c : List Num) :
    clampL lo hi b c = b (zip3With clampNum lo hi c) := rfl

example : clampNum (.fin 0) (.fin 4) .pinf = .fin 4 ∧ clampNum (.fin 0) (.fin 4) .ninf = .fin 0 ∧
    clampNum (.fin 0) (.fin 4) (.fin 3) = .fin 3 := by decide
end Covfie.C10

/-! ## clamp_safe: composition with C01 for array-backed row-major storage -/
namespace Covfie.C10

/-- integer box `lo ≤ hi` inside the extents `sz` -/
def BoxIn : List Nat → List Nat → List Nat → Prop
  | [], [], [] => True
  | l :: ls, h :: hs, s :: ss => l ≤ h ∧ h < s ∧ BoxIn ls hs ss
  | _, _, _ => False

def natNums (xs : List Nat) : List Num := xs.map fun (n : Nat) => Num.fin (n : Rat)
def intNums (zs : List Int) : List Num := zs.map fun (z : Int) => Num.fin (z : Rat)

/-- one component: whatever integer comes in, the clamped value is a natural number below the extent -/
theorem clamp_component (l h s : Nat) (z : Int) (hlh : l ≤ h) (hs : h < s) :
    ∃ n, natOf (clampNum (.fin (l : Rat)) (.fin (h : Rat)) (.fin (z : Rat))) = .ok n ∧ n < s := by
  unfold clampNum
  simp only [Num.lt]
  by_cases h1 : (z : Rat) < (l : Rat)
  · refine ⟨l, ?_, by omega⟩
    simp [h1, natOf]
  · by_cases h2 : (h : Rat) < (z : Rat)
    · refine ⟨h, ?_, hs⟩
      simp [h1, h2, natOf]
    · have hz1 : (l : Int) ≤ z := by
        have : (l : Rat) ≤ (z : Rat) := not_lt.mp h1
        exact_mod_cast this
      have hz2 : z ≤ (h : Int) := by
        have : (z : Rat) ≤ (h : Rat) := not_lt.mp h2
        exact_mod_cast this
      refine ⟨z.toNat, ?_, by omega⟩
      have h0 : (0 : Int) ≤ z := by omega
      simp [h1, h2, natOf, h0]

/-- all components: the clamped coordinate converts to natural numbers inside the box of extents -/
theorem clamp_inBox (lo hi sz : List Nat) (zs : List Int) (hb : BoxIn lo hi sz) (hl : zs.length = sz.length) :
    ∃ cs, mapE natOf (zip3With clampNum (natNums lo) (natNums hi) (intNums zs)) = .ok cs ∧ InBox sz cs := by
  induction lo generalizing hi sz zs with
  | nil =>
    cases hi <;> cases sz <;> simp [BoxIn] at hb
    cases zs with
    | nil => exact ⟨[], rfl, trivial⟩
    | cons z zs => simp at hl
  | cons l ls ih =>
    cases hi with
    | nil => simp [BoxIn] at hb
    | cons h hs =>
      cases sz with
      | nil => simp [BoxIn] at hb
      | cons s ss =>
        cases zs with
        | nil => simp at hl
        | cons z zs =>
          obtain ⟨hlh, hhs, hb'⟩ := hb
          obtain ⟨n, hn, hns⟩ := clamp_component l h s z hlh hhs
          obtain ⟨cs, hcs, hin⟩ := ih hs ss zs hb' (by simpa using hl)
          refine ⟨n :: cs, ?_, ⟨hns, hin⟩⟩
          simp only [natNums, intNums, List.map_cons, zip3With, mapE] at hcs ⊢
          rw [hn, hcs]

/-- **clamp_safe** for row-major array storage: with an integer box inside the extents, a lookup of
    `clamp<strided<array>>` succeeds for every integer coordinate whatsoever, touches exactly one cell, and that cell
    lies inside the storage (composition with C01: the index arithmetic at width `w` is exact and in range) -/
theorem clamp_safe_strided (cv : Conv) (w : Nat) (lo hi sz : List Nat) (zs : List Int) (cells : List (List Num))
    (hb : BoxIn lo hi sz) (hl : zs.length = sz.length) (hfit : prod sz ≤ 2^w) (hst : prod sz ≤ cells.length) :
    ∃ v i, eval cv (.clamp (.strided w .array)) (.box (natNums lo) (natNums hi) (.sized sz (.array cells))) (intNums zs)
        = .ok (v, [i]) ∧ i < cells.length := by
  obtain ⟨cs, hcs, hin⟩ := clamp_inBox lo hi sz zs hb hl
  have hidx : stridedIdxW w sz cs = stridedIdx sz cs := Covfie.C01.strided_code w sz cs hin hfit
  have hlt : stridedIdx sz cs < cells.length := Nat.lt_of_lt_of_le (Covfie.C01.strided_in_storage sz cs hin) hst
  refine ⟨cells[stridedIdx sz cs], stridedIdx sz cs, ?_, hlt⟩
  simp only [eval, clampL, layoutL, hcs, hidx, arrayB]
  simp [hlt]

end Covfie.C10

/-! ## clamp beneath an interpolator -/
namespace Covfie.C10
open Covfie.C02

theorem natNums_eq_intNums (ns : List Nat) : natNums ns = intNums (ns.map fun (n : Nat) => (n : Int)) := by
  simp [natNums, intNums]

/-- `mapE` succeeds when the function succeeds on every element -/
theorem mapE_ok_of_forall {α β ε} (f : α → Except ε β) (l : List α) (h : ∀ a ∈ l, ∃ b, f a = .ok b) :
    ∃ r, mapE f l = .ok r := by
  induction l with
  | nil => exact ⟨[], rfl⟩
  | cons a as ih =>
    obtain ⟨b, hb⟩ := h a List.mem_cons_self
    obtain ⟨bs, hbs⟩ := ih (fun x hx => h x (List.mem_cons_of_mem _ hx))
    exact ⟨b :: bs, by simp [mapE, hb, hbs]⟩

theorem truncIdx_ok (qs : List Rat) (hq : ∀ q ∈ qs, 0 ≤ q) :
    mapE truncIdx (qs.map Num.fin) = .ok (qs.map fun q => (q.floor.toNat, q - (q.floor : Rat))) := by
  induction qs with
  | nil => rfl
  | cons q qs ih =>
    have h0 : 0 ≤ q := hq q List.mem_cons_self
    simp only [List.map_cons, mapE, truncIdx, h0, if_true, ih (fun x hx => hq x (List.mem_cons_of_mem _ hx))]

theorem addBits_eq_natNums (is : List Nat) (bs : List Bool) :
    addBits is bs = natNums (List.zipWith (fun i b => i + (if b then 1 else 0)) is bs) := by
  induction is generalizing bs with
  | nil => simp [addBits, natNums]
  | cons i is ih =>
    cases bs with
    | nil => simp [addBits, natNums]
    | cons b bs =>
      have := ih bs
      simp only [addBits, natNums] at this ⊢
      simp [this]

/-- **clamp beneath an interpolator**: with the integer box inside the extents, `linear<clamp<strided<array>>>`
    succeeds for every finite real coordinate `x ≥ 0`, and every cell it reads lies inside the storage -/
theorem linear_clamp_safe (cv : Conv) (w : Nat) (lo hi sz : List Nat) (qs : List Rat) (cells : List (List Num))
    (hb : BoxIn lo hi sz) (hl : qs.length = sz.length) (hq : ∀ q ∈ qs, 0 ≤ q)
    (hfit : prod sz ≤ 2^w) (hst : prod sz ≤ cells.length) :
    ∃ v t, eval cv (.linear (.clamp (.strided w .array)))
        (.thin (.box (natNums lo) (natNums hi) (.sized sz (.array cells)))) (qs.map Num.fin) = .ok (v, t)
      ∧ ∀ i ∈ t, i < cells.length := by
  set bk : Backend := eval cv (.clamp (.strided w .array)) (.box (natNums lo) (natNums hi) (.sized sz (.array cells))) with hbk
  set is : List Nat := (qs.map fun q => (q.floor.toNat, q - (q.floor : Rat))).map (·.1) with his
  have hislen : is.length = sz.length := by simp [his, hl]
  -- every corner query succeeds with a one-element trace inside the storage
  have hcorner : ∀ bs ∈ corners (qs.map Num.fin).length, ∃ v i, bk (addBits is bs) = .ok (v, [i]) ∧ i < cells.length := by
    intro bs hbs
    have hbl : bs.length = sz.length := by rw [corners_length _ bs hbs]; simp [hl]
    rw [addBits_eq_natNums, natNums_eq_intNums]
    exact clamp_safe_strided cv w lo hi sz _ cells hb (by simp [hislen, hbl]) hfit hst
  have hall : ∀ bs ∈ corners (qs.map Num.fin).length, ∃ r, cornerQuery bk is bs = .ok r := by
    intro bs hbs
    obtain ⟨v, i, hvi, _⟩ := hcorner bs hbs
    exact ⟨(bs, (v, [i])), by simp [cornerQuery, hvi]⟩
  obtain ⟨rs, hrs⟩ := mapE_ok_of_forall _ _ hall
  have hlin : ∃ v, linearL bk (qs.map Num.fin) = .ok (v, rs.flatMap (·.2.2)) := by
    simp only [linearL, truncIdx_ok qs hq]
    rw [← his, hrs]
    exact ⟨_, rfl⟩
  obtain ⟨v, hv⟩ := hlin
  have hev : eval cv (.linear (.clamp (.strided w .array)))
      (.thin (.box (natNums lo) (natNums hi) (.sized sz (.array cells)))) (qs.map Num.fin)
      = .ok (v, rs.flatMap (·.2.2)) := by
    rw [eval_linear]; exact hv
  refine ⟨v, rs.flatMap (·.2.2), hev, ?_⟩
  · intro i hi
    simp only [List.mem_flatMap] at hi
    obtain ⟨r, hr, hir⟩ := hi
    obtain ⟨bs, hbs, hq'⟩ := mapE_mem _ _ _ hrs r hr
    obtain ⟨v, j, hvj, hj⟩ := hcorner bs hbs
    simp [cornerQuery, hvj] at hq'
    subst hq'
    simp at hir
    omega

end Covfie.C10

namespace Covfie.C10
/-- on finite values the layer's clamp is `max lo (min hi x)` — the one-line definition the exhaustive narrow-type sweeps of the
    harness evaluate for every value of an 8- or 16-bit coordinate type -/
theorem clampNum_eq_max_min (lo hi x : ℚ) (h : lo ≤ hi) : clampNum (.fin lo) (.fin hi) (.fin x) = .fin (max lo (min hi x)) := by
  simp only [clampNum, Num.lt, decide_eq_true_eq]
  by_cases h1 : x < lo
  · simp only [h1, if_true]
    congr 1
    rw [min_eq_right (by linarith), max_eq_left (le_of_lt h1)]
  · simp only [h1, if_false]
    by_cases h2 : hi < x
    · simp only [h2, if_true]
      congr 1
      rw [min_eq_left (le_of_lt h2), max_eq_right h]
    · simp only [h2, if_false]
      congr 1
      rw [min_eq_right (not_lt.mp h2), max_eq_right (not_lt.mp h1)]
end Covfie.C10
