import CovfieModel.Model.Stack
import Mathlib.Tactic.Linarith
import Mathlib.Algebra.Order.Field.Basic
/-! # C10 — Clamping makes every coordinate safe -/
namespace Covfie.C10

/-- `a ≤ b` on non-NaN numbers -/
def le (a b : Num) : Prop := Num.lt b a = false ∧ a.isNan = false ∧ b.isNan = false

/-- for every coordinate value whatsoever (±∞ included, NaN excluded) the clamped value lies in the box -/
theorem clamp_in_box (lo hi x : Num) (hb : le lo hi) (hx : x.isNan = false) :
    le lo (clampNum lo hi x) ∧ le (clampNum lo hi x) hi := by
  obtain ⟨h1, h2, h3⟩ := hb
  unfold clampNum
  cases lo <;> cases hi <;> cases x <;> simp_all [le, Num.lt, Num.isNan] <;>
    (try split_ifs) <;> simp_all [Num.lt, Num.isNan] <;> (try constructor) <;> (try linarith)

/-- inside the box the coordinate is unchanged -/
theorem clamp_id_inside (lo hi x : Num) (h1 : le lo x) (h2 : le x hi) : clampNum lo hi x = x := by
  unfold clampNum; simp [h1.1, h2.1]

/-- clamping twice is clamping once -/
theorem clamp_idem (lo hi x : Num) (hb : le lo hi) (hx : x.isNan = false) :
    clampNum lo hi (clampNum lo hi x) = clampNum lo hi x := by
  obtain ⟨h1, h2⟩ := clamp_in_box lo hi x hb hx
  exact clamp_id_inside lo hi _ h1 h2

/-- the clamped field queries its backend at the component-wise clamp and returns that value -/
theorem clamp_eval (lo hi : List Num) (b : Backend) (c : List Num) :
    clampL lo hi b c = b (zip3With clampNum lo hi c) := rfl

example : clampNum (.fin 0) (.fin 4) .pinf = .fin 4 ∧ clampNum (.fin 0) (.fin 4) .ninf = .fin 0 ∧
    clampNum (.fin 0) (.fin 4) (.fin 3) = .fin 3 := by decide
end Covfie.C10
