import CovfieModel.Model.Stack
/-! # C11 — Out-of-range lookups return the default without touching the backend -/
namespace Covfie.C11

/-- outside the closed box: the default value, and an empty trace — the backend is not queried -/
theorem backup_outside (lo hi df : List Num) (b : Backend) (c : List Num) (h : outside lo hi c = true) :
    backupL lo hi df b c = .ok (df, []) := by simp [backupL, h]

/-- the result does not depend on the backend at all in that case (even one that would fail) -/
theorem backup_outside_any_backend (lo hi df : List Num) (b₁ b₂ : Backend) (c : List Num)
    (h : outside lo hi c = true) : backupL lo hi df b₁ c = backupL lo hi df b₂ c := by
  simp [backupL, h]

/-- inside the closed box: exactly the backend's value (and trace) at that coordinate -/
theorem backup_inside (lo hi df : List Num) (b : Backend) (c : List Num) (h : outside lo hi c = false) :
    backupL lo hi df b c = b c := by simp [backupL, h]

/-- `outside` is exactly "some component below its lower or above its upper bound" -/
theorem outside_iff (lo hi c : List Num) :
    outside lo hi c = true ↔ ∃ t ∈ zip3With (fun l h x => (l, h, x)) lo hi c, Num.lt t.2.2 t.1 = true ∨ Num.lt t.2.1 t.2.2 = true := by
  unfold outside
  induction lo generalizing hi c with
  | nil => simp [zip3With]
  | cons l ls ih =>
    cases hi with
    | nil => simp [zip3With]
    | cons h hs =>
      cases c with
      | nil => simp [zip3With]
      | cons x xs =>
        simp only [zip3With, List.any_cons, Bool.or_eq_true, List.mem_cons, exists_eq_or_imp]
        rw [ih hs xs]
        simp

example : outside [.fin 0, .fin 0] [.fin 4, .fin 4] [.fin 4, .fin 0] = false ∧
    outside [.fin 0, .fin 0] [.fin 4, .fin 4] [.fin 5, .fin 0] = true := by decide
end Covfie.C11
