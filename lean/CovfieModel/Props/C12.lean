import CovfieModel.Lemmas.HeapRefine
/-! # C12 — Fields stay independent values under any history of construct / copy / move / assign / write /
    layout conversion / dump-load / destroy -/
namespace Covfie.C12
open Covfie.Heap

/-- after any operation sequence every live field holds exactly the values the plain value model holds … -/
theorem history_refines (ops : List Op) :
    abs (ops.foldl cstep cinit) = ops.foldl astep (abs cinit) := by
  suffices ∀ s, HInv s → abs (ops.foldl cstep s) = ops.foldl astep (abs s) from this _ inv_cinit
  induction ops with
  | nil => intro s _; rfl
  | cons op ops ih =>
    intro s h
    simp only [List.foldl_cons]
    rw [ih _ (inv_step s h op), refine_step s h op]

/-- … and the storage discipline holds: no two live fields share a buffer, every allocated buffer is owned by
    exactly one live field (no leak), nothing was freed twice or used after being freed. -/
theorem history_inv (ops : List Op) : HInv (ops.foldl cstep cinit) := inv_history ops

/-- a write to one field is never visible through another (value model: only slot `i` changes) -/
theorem write_not_visible_elsewhere (s : AState) (i j k v : Nat) (h : j ≠ i) : astep s (.write i k v) j = s j := by
  simp only [astep]
  cases hs : s i with
  | none => rfl
  | some val =>
    cases val with
    | moved n => rfl
    | live c => by_cases hk : k < c.length <;> simp [hk, upd, h]

/-- self-assignment leaves the field unchanged -/
theorem self_copy_assign (s : AState) (i : Nat) : astep s (.copyAssign i i) = s := by
  simp only [astep]; cases s i <;> simp
theorem self_move_assign (s : AState) (i : Nat) : astep s (.moveAssign i i) = s := by
  simp only [astep]; cases s i <;> simp

/-- a layout conversion builds exactly the source's value in the destination and touches nothing else -/
theorem convert_value (s : AState) (d i : Nat) (c : List Nat) (hd : s d = none) (hs : s i = some (.live c)) :
    astep s (.convert d i) d = some (.live c) ∧ ∀ j, j ≠ d → astep s (.convert d i) j = s j := by
  simp only [astep, hd, hs]
  exact ⟨by simp [upd], fun j hj => by simp [upd, hj]⟩

/-- a dump / load round trip reproduces the source's value in the destination (whatever the destination held)
    and touches nothing else -/
theorem dumpLoad_value (s : AState) (d i : Nat) (c : List Nat) (hs : s i = some (.live c)) :
    astep s (.dumpLoad d i) d = some (.live c) ∧ ∀ j, j ≠ d → astep s (.dumpLoad d i) j = s j := by
  simp only [astep, hs]
  exact ⟨by simp [upd], fun j hj => by simp [upd, hj]⟩

/-- loading a field's own dump back into it leaves it unchanged -/
theorem self_dumpLoad (s : AState) (i : Nat) : astep s (.dumpLoad i i) = s := by
  simp only [astep]
  cases hs : s i with
  | none => rfl
  | some v =>
    cases v with
    | moved n => rfl
    | live c => funext j; by_cases e : j = i <;> simp [upd, e, hs]

/-- no leak: once every slot has been destroyed the heap is empty -/
theorem no_leak_when_all_destroyed (ops : List Op) (hall : ∀ i, (ops.foldl cstep cinit).slots i = none) (a : Addr) :
    (ops.foldl cstep cinit).heap a = none := by
  have h := history_inv ops
  cases hh : (ops.foldl cstep cinit).heap a with
  | none => rfl
  | some b =>
    obtain ⟨i, n, hi⟩ := h.owned a (by simp [hh])
    rw [hall i] at hi; simp at hi

/-- non-vacuity: a history mixing all operation kinds, including self-assignment and use of a moved-from slot -/
def exOps : List Op := [.ctor 0 3, .write 0 1 7, .copyCtor 1 0, .write 1 0 9, .moveCtor 2 0, .copyAssign 0 1,
  .copyAssign 0 0, .moveAssign 1 2, .write 1 2 5, .dtor 2, .moveAssign 0 0, .convert 2 1, .write 2 0 4, .dumpLoad 0 2,
  .dumpLoad 2 2, .convert 3 0, .moveCtor 4 3, .convert 5 3, .dumpLoad 5 3]
example : (exOps.foldl astep (abs cinit)) 0 = some (.live [4, 7, 5]) ∧
          (exOps.foldl astep (abs cinit)) 1 = some (.live [0, 7, 5]) ∧
          (exOps.foldl astep (abs cinit)) 2 = some (.live [4, 7, 5]) ∧
          (exOps.foldl astep (abs cinit)) 3 = some (.moved 3) ∧
          (exOps.foldl astep (abs cinit)) 5 = none := by decide
end Covfie.C12
