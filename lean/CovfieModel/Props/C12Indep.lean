import CovfieModel.Props.C12
/-! # C12 / C16 — operations on different fields do not interfere, in any interleaving

`Op.slots a` are the fields an operation names.  In the value model an operation changes nothing outside them
(`astep_frame`) and what it does to them depends on nothing outside them (`astep_local`).  Hence operations naming disjoint
fields commute (`astep_comm`), and for threads that work on fields of their own, every interleaving leaves each thread's
fields exactly as that thread's program alone leaves them (`interleaving_eq_alone`) — the value-level statement behind the
"threads on objects of their own" runs of C16 (`life_harness.cpp`) and the independence half of C12.  By `history_refines`
the concrete ownership machine follows the value model on every history. -/
namespace Covfie.C12
open Covfie.Heap

/-- the fields an operation names -/
def Op.slots : Op → List Nat
  | .ctor i _ | .dtor i | .write i _ _ => [i]
  | .copyCtor d s | .moveCtor d s | .copyAssign d s | .moveAssign d s | .convert d s | .dumpLoad d s => [d, s]

/-- an operation changes no field it does not name -/
theorem astep_frame (s : AState) (a : Op) (j : Nat) (h : j ∉ Op.slots a) : astep s a j = s j := by
  cases a <;> simp only [Op.slots, List.mem_cons, List.not_mem_nil, or_false, not_or] at h <;> simp only [astep]
  case ctor i n => cases s i <;> simp [upd, h]
  case dtor i => simp [upd, h]
  case write i k v =>
    cases s i with
    | none => rfl
    | some val => cases val <;> simp only [] <;> (try split) <;> simp [upd, h]
  case copyCtor d r => cases s d <;> cases s r <;> simp [upd, h]
  case moveCtor d r => cases s d <;> cases s r <;> simp [upd, h]
  case copyAssign d r => cases s d <;> cases s r <;> simp only [] <;> (try split) <;> simp [upd, h]
  case moveAssign d r => cases s d <;> cases s r <;> simp only [] <;> (try split) <;> simp [upd, h]
  case convert d r =>
    cases s d <;> cases s r <;> (try rfl) <;> (rename_i v; cases v) <;> (try rfl) <;> simp [upd, h]
  case dumpLoad d r =>
    cases hr : s r with
    | none => rfl
    | some v => cases v <;> simp [upd, h]

/-- what an operation does to the fields it names depends on those fields only -/
theorem astep_local (s s' : AState) (a : Op) (h : ∀ i ∈ Op.slots a, s i = s' i) :
    ∀ i ∈ Op.slots a, astep s a i = astep s' a i := by
  intro i hi
  cases a <;> simp only [Op.slots, List.mem_cons, List.not_mem_nil, or_false, forall_eq_or_imp, forall_eq] at h hi <;>
    simp only [astep]
  case ctor j n => subst hi; rw [← h]; cases s i <;> simp [upd, h]
  case dtor j => subst hi; simp [upd]
  case write j k v =>
    subst hi; rw [← h]
    cases s i with
    | none => simpa using h
    | some val => cases val <;> simp only [] <;> (try split) <;> simp [upd, h]
  all_goals
    obtain ⟨hd, hs⟩ := h
    (try rw [← hd]); (try rw [← hs])
    rename_i d r
    cases s d <;> cases s r <;> (try simp only []) <;> (try split) <;> (try (rename_i v; cases v)) <;>
      rcases hi with rfl | rfl <;> first | rfl | simp [upd, hd, hs] | (simp [upd]; simp_all)

/-- operations naming disjoint sets of fields commute -/
theorem astep_comm (s : AState) (a b : Op) (h : ∀ i ∈ Op.slots a, i ∉ Op.slots b) :
    astep (astep s a) b = astep (astep s b) a := by
  funext j
  by_cases ha : j ∈ Op.slots a
  · have hb : j ∉ Op.slots b := h j ha
    rw [astep_frame _ b j hb]
    exact astep_local s (astep s b) a (fun i hi => (astep_frame s b i (h i hi)).symm) j ha
  · by_cases hb : j ∈ Op.slots b
    · rw [astep_frame _ a j ha]
      exact (astep_local s (astep s a) b (fun i hi => (astep_frame s a i (fun hia => h i hia hi)).symm) j hb).symm
    · rw [astep_frame _ b j hb, astep_frame _ a j ha, astep_frame _ a j ha, astep_frame _ b j hb]

/-- the program of thread `t` inside a trace of (thread, operation) pairs -/
def progOf (t : Nat) (tr : List (Nat × Op)) : List Op := (tr.filter (fun p => p.1 = t)).map (·.2)

/-- **threads that work on fields of their own**: `J` is a set of fields that thread `t`'s operations stay inside and
    that no other thread's operation names.  Then, whatever the interleaving, the fields in `J` end up exactly as thread
    `t`'s program alone leaves them. -/
theorem interleaving_eq_alone (t : Nat) (J : Nat → Prop) (tr : List (Nat × Op))
    (hin : ∀ p ∈ tr, p.1 = t → ∀ i ∈ Op.slots p.2, J i)
    (hout : ∀ p ∈ tr, p.1 ≠ t → ∀ i ∈ Op.slots p.2, ¬ J i)
    (s s' : AState) (hs : ∀ i, J i → s i = s' i) :
    ∀ i, J i → (tr.map (·.2)).foldl astep s i = (progOf t tr).foldl astep s' i := by
  induction tr generalizing s s' with
  | nil => exact hs
  | cons p rest ih =>
    have hin' : ∀ q ∈ rest, q.1 = t → ∀ i ∈ Op.slots q.2, J i := fun q hq => hin q (by simp [hq])
    have hout' : ∀ q ∈ rest, q.1 ≠ t → ∀ i ∈ Op.slots q.2, ¬ J i := fun q hq => hout q (by simp [hq])
    by_cases hp : p.1 = t
    · have hstep : ∀ i, J i → astep s p.2 i = astep s' p.2 i := by
        intro i hi
        by_cases hm : i ∈ Op.slots p.2
        · exact astep_local s s' p.2 (fun k hk => hs k (hin p (by simp) hp k hk)) i hm
        · rw [astep_frame s p.2 i hm, astep_frame s' p.2 i hm]; exact hs i hi
      have := ih hin' hout' (astep s p.2) (astep s' p.2) hstep
      simpa [progOf, hp] using this
    · have hstep : ∀ i, J i → astep s p.2 i = s' i := by
        intro i hi
        rw [astep_frame s p.2 i (fun hm => hout p (by simp) hp i hm hi)]
        exact hs i hi
      have := ih hin' hout' (astep s p.2) s' hstep
      simpa [progOf, hp] using this

/-- in particular from one common start: each thread sees its own sequential result, in every interleaving -/
theorem interleaving_eq_alone' (t : Nat) (J : Nat → Prop) (tr : List (Nat × Op))
    (hin : ∀ p ∈ tr, p.1 = t → ∀ i ∈ Op.slots p.2, J i)
    (hout : ∀ p ∈ tr, p.1 ≠ t → ∀ i ∈ Op.slots p.2, ¬ J i) (s : AState) (i : Nat) (hi : J i) :
    (tr.map (·.2)).foldl astep s i = (progOf t tr).foldl astep s i :=
  interleaving_eq_alone t J tr hin hout s s (fun _ _ => rfl) i hi

/-- the same for the concrete ownership machine (buffers, allocator, pointers), from the empty heap: whatever the
    interleaving, what thread `t`'s fields hold is what its program alone produces -/
theorem concrete_interleaving (t : Nat) (J : Nat → Prop) (tr : List (Nat × Op))
    (hin : ∀ p ∈ tr, p.1 = t → ∀ i ∈ Op.slots p.2, J i)
    (hout : ∀ p ∈ tr, p.1 ≠ t → ∀ i ∈ Op.slots p.2, ¬ J i) (i : Nat) (hi : J i) :
    abs ((tr.map (·.2)).foldl cstep cinit) i = abs ((progOf t tr).foldl cstep cinit) i := by
  rw [history_refines, history_refines]
  exact interleaving_eq_alone' t J tr hin hout (abs cinit) i hi

-- non-vacuity: two threads, fields {0,1} and {2,3}
example : (([(0, Op.ctor 0 2), (1, Op.ctor 2 3), (0, Op.write 0 1 7), (1, Op.copyCtor 3 2), (0, Op.convert 1 0)] : List (Nat × Op)).map
    (·.2)).foldl astep (fun _ => none) 1 = some (.live [0, 7]) := by decide
end Covfie.C12
