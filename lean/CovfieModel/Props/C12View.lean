import CovfieModel.Lemmas.HeapRefine
/-! C12 (views): a view is a snapshot `(address, size)` of the owning record it was taken from — the raw pointer of
`array::non_owning_data_t` — and nothing else of the field *object*.  Consequences proved here for every reachable
state of the ownership machine:

* `view_reads_owner`     a view whose buffer is still allocated reads exactly the value of the one field that owns
                         that buffer now (whoever that is after moves);
* `view_survives_moveCtor`, `view_survives_moveAssign`
                         moving the owning field elsewhere leaves the view valid and reading the same cells, now those
                         of the destination (the harnesses relocate the field object after taking the view);
* `view_frame`           an operation that does not name the owner of the view's buffer cannot change what the view
                         reads (no write to another field is visible through it, no other field's destruction or
                         assignment frees it). -/
namespace Covfie.Heap

structure View where
  addr : Addr
  size : Nat
  deriving DecidableEq

/-- taking a view of slot `i` (only a field that owns a buffer has one) -/
def viewOf (s : CState) (i : Nat) : Option View :=
  match s.slots i with
  | some ⟨n, some a⟩ => some ⟨a, n⟩
  | _ => none

/-- what the view reads; `none` = dangling -/
def View.read (s : CState) (v : View) : Option (List Nat) := s.heap v.addr

/-- the slots an operation names -/
def Op.names : Op → Nat → Bool
  | .ctor i _, k => k == i
  | .dtor i, k => k == i
  | .copyCtor d s, k => k == d || k == s
  | .moveCtor d s, k => k == d || k == s
  | .copyAssign d s, k => k == d || k == s
  | .moveAssign d s, k => k == d || k == s
  | .write i _ _, k => k == i
  | .convert d s, k => k == d || k == s
  | .dumpLoad d s, k => k == d || k == s

theorem viewOf_some (s : CState) (i : Nat) (v : View) (h : viewOf s i = some v) : s.slots i = some ⟨v.size, some v.addr⟩ := by
  unfold viewOf at h
  split at h
  · rename_i n a hs
    cases h; exact hs
  · cases h

theorem view_reads_owner (s : CState) (h : HInv s) (v : View) (buf : List Nat) (hr : v.read s = some buf) :
    ∃ i n, s.slots i = some ⟨n, some v.addr⟩ ∧ abs s i = some (.live buf) ∧
      ∀ j nj, s.slots j = some ⟨nj, some v.addr⟩ → j = i := by
  have hne : s.heap v.addr ≠ none := by unfold View.read at hr; simp [hr]
  obtain ⟨i, n, hs⟩ := h.owned v.addr hne
  refine ⟨i, n, hs, ?_, ?_⟩
  · unfold View.read at hr
    simp [abs, hs, hr]
  · intro j nj hj
    exact h.noalias j i nj n v.addr hj hs

/-- a live field's view is never dangling -/
theorem view_valid (s : CState) (h : HInv s) (i : Nat) (v : View) (hv : viewOf s i = some v) :
    ∃ buf, v.read s = some buf ∧ buf.length = v.size := by
  have hs := viewOf_some s i v hv
  exact h.live i v.size v.addr hs

theorem view_survives_moveCtor (s : CState) (i j : Nat) (v : View) (hv : viewOf s i = some v) (hj : s.slots j = none) :
    v.read (cstep s (.moveCtor j i)) = v.read s ∧ viewOf (cstep s (.moveCtor j i)) j = some v := by
  have hs := viewOf_some s i v hv
  simp [cstep, hj, hs, View.read, viewOf]

theorem view_survives_moveAssign (s : CState) (h : HInv s) (i j : Nat) (v : View) (hv : viewOf s i = some v)
    (d : Own) (hj : s.slots j = some d) (hne : j ≠ i) :
    v.read (cstep s (.moveAssign j i)) = v.read s ∧ viewOf (cstep s (.moveAssign j i)) j = some v := by
  have hs := viewOf_some s i v hv
  have hdp : d.ptr ≠ some v.addr := by
    intro hd
    have : s.slots j = some ⟨d.size, some v.addr⟩ := by rw [hj, ← hd]
    exact hne (h.noalias j i d.size v.size v.addr this hs)
  constructor
  · simp only [cstep, hj, hs, hne, if_false, View.read]
    cases hp : d.ptr with
    | none => simp [free]
    | some a =>
      have ha : a ≠ v.addr := by intro e; exact hdp (by rw [hp, e])
      simp only [free]
      split <;> simp [upd, Ne.symm ha]
  · simp [cstep, hj, hs, hne, viewOf]

/-- `free` of a pointer other than `a` leaves `a` alone -/
theorem free_other (s : CState) (p : Option Addr) (a : Addr) (hp : p ≠ some a) : (free s p).heap a = s.heap a := by
  cases p with
  | none => rfl
  | some b =>
    have hb : a ≠ b := by intro e; exact hp (by rw [e])
    simp only [free]
    split <;> simp [upd, hb]

/-- frame property: an operation that does not name the owner of the view's buffer does not change what the view reads -/
theorem view_frame (s : CState) (h : HInv s) (i : Nat) (v : View) (hv : viewOf s i = some v) (op : Op)
    (hn : op.names i = false) : v.read (cstep s op) = v.read s := by
  have hs := viewOf_some s i v hv
  have hfresh : v.addr ≠ s.next := by
    intro e
    exact fresh_not_ptr s h i v.size (by rw [← e]; exact hs)
  -- the buffer of any other slot is a different one
  have other : ∀ k (o : Own), s.slots k = some o → k ≠ i → o.ptr ≠ some v.addr := by
    intro k o hk hki hp
    have : s.slots k = some ⟨o.size, some v.addr⟩ := by rw [hk, ← hp]
    exact hki (h.noalias k i o.size v.size v.addr this hs)
  unfold View.read
  cases op with
  | ctor k n =>
    simp only [cstep]
    split
    · rfl
    · simp [upd, hfresh]
  | dtor k =>
    have hk : k ≠ i := by intro e; simp [Op.names, e] at hn
    simp only [cstep]
    split
    · rfl
    · rename_i o ho
      exact free_other s o.ptr v.addr (other k o ho hk)
  | copyCtor d src =>
    simp only [cstep]
    split
    · simp [upd, hfresh]
    · rfl
  | moveCtor d src =>
    simp only [cstep]
    split <;> rfl
  | copyAssign d src =>
    have hd : d ≠ i := by intro e; simp [Op.names, e] at hn
    simp only [cstep]
    split
    · rename_i dd o hdd ho
      split
      · rfl
      · have := free_other { s with heap := upd s.heap s.next (some (srcBuf s o)), next := s.next + 1 } dd.ptr v.addr
          (other d dd hdd hd)
        simp only [this, upd, hfresh, if_false]
    · rfl
  | moveAssign d src =>
    have hd : d ≠ i := by intro e; simp [Op.names, e] at hn
    simp only [cstep]
    split
    · rename_i dd o hdd ho
      split
      · rfl
      · exact free_other s dd.ptr v.addr (other d dd hdd hd)
    · rfl
  | write k kk val =>
    have hk : k ≠ i := by intro e; simp [Op.names, e] at hn
    simp only [cstep]
    split
    · rename_i n a hka
      have hav : a ≠ v.addr := by
        intro e
        exact other k ⟨n, some a⟩ hka hk (by simp [e])
      split
      · split
        · simp [upd, Ne.symm hav]
        · rfl
      · rfl
    · rfl
  | convert d src =>
    simp only [cstep]
    split
    · split
      · simp [upd, hfresh]
      · rfl
    · rfl
  | dumpLoad d src =>
    have hd : d ≠ i := by intro e; simp [Op.names, e] at hn
    simp only [cstep]
    split
    · split
      · split
        · simp [upd, hfresh]
        · rename_i dd hdd
          show (free _ dd.ptr).heap v.addr = s.heap v.addr
          rw [free_other _ _ _ (other d dd hdd hd)]
          simp [upd, hfresh]
      · rfl
    · rfl

/-- the same for every reachable state: after any history, a view taken then stays readable, and keeps reading the
    same cells, across every further operation that does not name its owner -/
theorem view_frame_reachable (ops : List Op) (i : Nat) (v : View) (hv : viewOf (ops.foldl cstep cinit) i = some v)
    (op : Op) (hn : op.names i = false) :
    v.read (cstep (ops.foldl cstep cinit) op) = v.read (ops.foldl cstep cinit) ∧
      ∃ buf, v.read (ops.foldl cstep cinit) = some buf ∧ buf.length = v.size :=
  ⟨view_frame _ (inv_history ops) i v hv op hn, view_valid _ (inv_history ops) i v hv⟩

/-- non-vacuity: a field, its view, a relocation; the view still reads the written cell -/
example :
    let s := [Op.ctor 0 3, .write 0 1 7].foldl cstep cinit
    (viewOf s 0).map (fun v => v.read (cstep s (.moveCtor 5 0))) = some (some [0, 7, 0]) := by decide

end Covfie.Heap
