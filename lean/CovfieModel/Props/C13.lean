import CovfieModel.Model.Kinds
/-! # C13 — Every well-kinded composition supports the whole field API (kind model; the C++ type checker is
    tied in by the compile matrix, `harness/props/c13.py`, through the `kindcheck` driver) -/
namespace Covfie.C13
open Covfie.Kinds

/-- unfolding: a layered stack is analysed by one `step` over the analysis of what lies beneath -/
theorem kind_layer (outer b : KStack)
    (h : analyse outer = step outer (analyse b)) :
    kind outer = match kind b with | .error e => .error e | .ok k => layerKind outer k := by
  unfold kind; rw [h]; unfold step; cases (analyse b).1 <;> rfl

/-- compositionality, for every layer: kind and lookup verdict of `L b` depend on `b` only through `kind b`, `lookupErr b` -/
theorem analyse_compositional (outer outer' b b' : KStack)
    (h : analyse outer = step outer (analyse b)) (h' : analyse outer' = step outer' (analyse b'))
    (hk : layerKind outer = layerKind outer') (hl : layerLookup outer = layerLookup outer')
    (e1 : kind b = kind b') (e2 : lookupErr b = lookupErr b') : analyse outer = analyse outer' := by
  have : analyse b = analyse b' := by
    unfold kind at e1; unfold lookupErr at e2; exact Prod.ext e1 e2
  rw [h, h', this]; unfold step; rw [hk, hl]

theorem wellKinded_iff (s : KStack) : wellKinded s = true ↔ (∃ k, kind s = .ok k) ∧ lookupErr s = none := by
  unfold wellKinded
  cases hk : kind s <;> cases hl : lookupErr s <;> simp

/-- the specification of compatibility is met by the mechanism -/
theorem compatible_conv : ∀ (d s : KStack), compatible d s = true → conv d s = true := by
  intro d
  induction d with
  | layout l a n b ih =>
    intro s h
    cases s with
    | layout l' a' n' b' =>
      cases b <;> cases b' <;> simp [compatible] at h
      obtain ⟨⟨⟨h1, h2⟩, _⟩, _⟩ := h
      simp [conv, h1, h2]
    | _ => simp [compatible] at h
  | interp i a n b ih =>
    intro s h
    cases s with
    | interp i' a' n' b' =>
      simp only [compatible, Bool.and_eq_true] at h
      simp [conv, ih b' h.2]
    | _ => simp [compatible] at h
  | affine b ih =>
    intro s h
    cases s with
    | affine b' =>
      simp only [compatible, Bool.and_eq_true] at h
      simp [conv, h.1, ih b' h.2]
    | _ => simp [compatible] at h
  | _ => intro s h; simp [compatible] at h

theorem compatible_convertible (d s : KStack) (h : compatible d s = true) : convertible d s = true := by
  unfold convertible; simp [compatible_conv d s h]

/-- **every well-kinded stack whose view fits supports every API operation the property claims for it** -/
theorem wellKinded_supports (s : KStack) (h : wellKinded s = true) (hv : viewFits s = true) (op : ApiOp)
    (ha : applicable s op = true) : supports s op = true := by
  obtain ⟨⟨k, hk⟩, hl⟩ := (wellKinded_iff s).mp h
  unfold supports; rw [hk]
  cases op <;> simp_all [applicable, compatible_convertible]

/-- a violated `static_assert` / constraint rejects every operation -/
theorem declared_violation_rejects_all (s : KStack) (e : KindErr) (h : kind s = .error e) (op : ApiOp) :
    supports s op = false := by
  unfold supports; rw [h]

/-- **ill-kinded compositions are rejected**: no program can look a value up through one -/
theorem illKinded_rejected (s : KStack) (h : wellKinded s = false) : supports s .at = false := by
  unfold supports
  unfold wellKinded at h
  cases hk : kind s with
  | error e => rfl
  | ok k =>
    rw [hk] at h
    cases hl : lookupErr s with
    | none => rw [hl] at h; simp at h
    | some e => simp

/-- a view that exceeds `field_view`'s 256-byte limit cannot be created or queried -/
theorem viewTooLarge_rejected (s : KStack) (h : viewFits s = false) : supports s .view = false ∧ supports s .at = false := by
  unfold supports; cases kind s <;> simp [h]


/-- the eight layer constructors all analyse by one `step` (so `kind_layer` / `analyse_compositional` apply to each) -/
theorem analyse_layout (l : Lay) (a : SK) (n : Nat) (b : KStack) : analyse (.layout l a n b) = step (.layout l a n b) (analyse b) := rfl
theorem analyse_clamp (b : KStack) : analyse (.clamp b) = step (.clamp b) (analyse b) := rfl
theorem analyse_backup (b : KStack) : analyse (.backup b) = step (.backup b) (analyse b) := rfl
theorem analyse_affine (b : KStack) : analyse (.affine b) = step (.affine b) (analyse b) := rfl
theorem analyse_shuffle (p : List Nat) (b : KStack) : analyse (.shuffle p b) = step (.shuffle p b) (analyse b) := rfl
theorem analyse_cast (t : SK) (b : KStack) : analyse (.cast t b) = step (.cast t b) (analyse b) := rfl
theorem analyse_deref (b : KStack) : analyse (.deref b) = step (.deref b) (analyse b) := rfl
theorem analyse_interp (i : Itp) (a : SK) (n : Nat) (b : KStack) : analyse (.interp i a n b) = step (.interp i a n b) (analyse b) := rfl

/-- the stack directly beneath a layer -/
def sub : KStack → Option KStack
  | .layout _ _ _ b | .clamp b | .backup b | .affine b | .shuffle _ b | .cast _ b | .deref b | .interp _ _ _ b => some b
  | _ => none

theorem analyse_sub (s b : KStack) (h : sub s = some b) : analyse s = step s (analyse b) := by
  cases s <;> simp [sub] at h <;> subst h <;> rfl

/-- **compositionality for every layer constructor**: the declared kind of a layered stack is the layer's rule applied
    to the kind of the stack beneath -/
theorem kind_compositional (s b : KStack) (h : sub s = some b) :
    kind s = match kind b with | .error e => .error e | .ok k => layerKind s k :=
  kind_layer s b (analyse_sub s b h)

/-- replacing the stack beneath a layer by one of the same kind and lookup verdict changes nothing -/
theorem kind_congr_layout (l : Lay) (a : SK) (n : Nat) (b b' : KStack) (e1 : kind b = kind b') (e2 : lookupErr b = lookupErr b') :
    analyse (.layout l a n b) = analyse (.layout l a n b') :=
  analyse_compositional _ _ b b' rfl rfl (by funext k; rfl) (by funext k; rfl) e1 e2
theorem kind_congr_interp (i : Itp) (a : SK) (n : Nat) (b b' : KStack) (e1 : kind b = kind b') (e2 : lookupErr b = lookupErr b') :
    analyse (.interp i a n b) = analyse (.interp i a n b') :=
  analyse_compositional _ _ b b' rfl rfl (by funext k; rfl) (by funext k; cases i <;> rfl) e1 e2
theorem kind_congr_clamp (b b' : KStack) (e1 : kind b = kind b') (e2 : lookupErr b = lookupErr b') : analyse (.clamp b) = analyse (.clamp b') :=
  analyse_compositional _ _ b b' rfl rfl (by funext k; rfl) (by funext k; rfl) e1 e2
theorem kind_congr_backup (b b' : KStack) (e1 : kind b = kind b') (e2 : lookupErr b = lookupErr b') : analyse (.backup b) = analyse (.backup b') :=
  analyse_compositional _ _ b b' rfl rfl (by funext k; rfl) (by funext k; rfl) e1 e2
theorem kind_congr_affine (b b' : KStack) (e1 : kind b = kind b') (e2 : lookupErr b = lookupErr b') : analyse (.affine b) = analyse (.affine b') :=
  analyse_compositional _ _ b b' rfl rfl (by funext k; rfl) (by funext k; rfl) e1 e2
theorem kind_congr_shuffle (p : List Nat) (b b' : KStack) (e1 : kind b = kind b') (e2 : lookupErr b = lookupErr b') :
    analyse (.shuffle p b) = analyse (.shuffle p b') :=
  analyse_compositional _ _ b b' rfl rfl (by funext k; rfl) (by funext k; rfl) e1 e2
theorem kind_congr_cast (t : SK) (b b' : KStack) (e1 : kind b = kind b') (e2 : lookupErr b = lookupErr b') : analyse (.cast t b) = analyse (.cast t b') :=
  analyse_compositional _ _ b b' rfl rfl (by funext k; rfl) (by funext k; rfl) e1 e2
theorem kind_congr_deref (b b' : KStack) (e1 : kind b = kind b') (e2 : lookupErr b = lookupErr b') : analyse (.deref b) = analyse (.deref b') :=
  analyse_compositional _ _ b b' rfl rfl (by funext k; rfl) (by funext k; rfl) e1 e2

/-- well-kindedness is hereditary: a stack whose declared kind exists is built on one whose declared kind exists, and a
    well-kinded stack is built on a well-kinded stack -/
theorem kind_sub (s b : KStack) (k : Kind) (hs : sub s = some b) (h : kind s = .ok k) : ∃ kb, kind b = .ok kb := by
  rw [kind_compositional s b hs] at h
  cases hb : kind b with
  | error e => rw [hb] at h; simp at h
  | ok kb => exact ⟨kb, rfl⟩
theorem wellKinded_sub (s b : KStack) (hs : sub s = some b) (h : wellKinded s = true) : wellKinded b = true := by
  obtain ⟨⟨k, hk⟩, hl⟩ := (wellKinded_iff s).mp h
  obtain ⟨kb, hkb⟩ := kind_sub s b k hs hk
  refine (wellKinded_iff b).mpr ⟨⟨kb, hkb⟩, ?_⟩
  have ha := analyse_sub s b hs
  unfold lookupErr at hl ⊢; unfold kind at hkb
  rw [ha] at hl; unfold step at hl; rw [hkb] at hl
  cases hb : (analyse b).2 with
  | none => rfl
  | some e => rw [hb] at hl; simp at hl

/-- monotonicity of the support table -/
theorem supports_concept_of_any (s : KStack) (op : ApiOp) (h : supports s op = true) : supports s .concept = true := by
  unfold supports at h ⊢; cases hk : kind s with
  | error e => rw [hk] at h; simp at h
  | ok k => rfl
theorem supports_view_of_at (s : KStack) (h : supports s .at = true) : supports s .view = true := by
  unfold supports at h ⊢; cases hk : kind s with
  | error e => rw [hk] at h; simp at h
  | ok k => rw [hk] at h; simp at h ⊢; exact h.1
theorem supports_at_wellKinded (s : KStack) (h : supports s .at = true) : wellKinded s = true := by
  cases hw : wellKinded s with
  | true => rfl
  | false => rw [illKinded_rejected s hw] at h; simp at h
/-- a conversion is only ever supported from a well-kinded source -/
theorem supports_convert_src (s src : KStack) (h : supports s (.convertFrom src) = true) : wellKinded src = true := by
  unfold supports at h; cases hk : kind s with
  | error e => rw [hk] at h; simp at h
  | ok k => rw [hk] at h; simp at h; exact h.1
/-- compatibility is symmetric (a conversion claimed one way is claimed back: C05 `convert_back`) -/
theorem dec_comm {α : Type} [DecidableEq α] (a b : α) : decide (a = b) = decide (b = a) := by
  rw [decide_eq_decide]; exact eq_comm
theorem compatible_symm : ∀ (d s : KStack), compatible d s = compatible s d := by
  intro d
  induction d with
  | layout l a n b ih =>
    intro s; cases s with
    | layout l' a' n' b' =>
      cases b <;> cases b' <;> simp only [compatible]
      rw [Bool.eq_iff_iff]; simp only [Bool.and_eq_true, decide_eq_true_eq]
      constructor <;> (intro h; obtain ⟨⟨⟨h1, h3⟩, h4⟩, h5⟩ := h; exact ⟨⟨⟨h1.symm, h3.symm⟩, h4.symm⟩, h5.symm⟩)
    | _ => cases b <;> simp [compatible]
  | interp i a n b ih =>
    intro s; cases s with
    | interp i' a' n' b' => simp only [compatible, ih b', dec_comm n n']
    | _ => simp [compatible]
  | affine b ih =>
    intro s; cases s with
    | affine b' =>
      simp only [compatible, ih b']
      have : inputEq b b' = inputEq b' b := by
        unfold inputEq; cases kind b <;> cases kind b' <;> simp only []
        rename_i k k'
        rw [Bool.eq_iff_iff]; simp only [decide_eq_true_eq]
        exact ⟨fun h => ⟨h.1.symm, h.2.symm⟩, fun h => ⟨h.1.symm, h.2.symm⟩⟩
      rw [this]
    | _ => simp [compatible]
  | _ => intro s; cases s <;> simp [compatible]

/-- dimension facts: interpolators and wrappers keep N; casts keep M; storage orders set N -/
theorem interp_dims (i : Itp) (a : SK) (n : Nat) (b : KStack) (kb k : Kind) (hb : kind b = .ok kb)
    (h : kind (.interp i a n b) = .ok k) : k.inDim = kb.inDim ∧ k.outDim = kb.outDim ∧ k.inSk = a ∧ a.isFloat = true := by
  rw [kind_compositional _ b rfl, hb] at h
  simp only [layerKind] at h
  repeat (split at h; · simp at h)
  injection h with h; subst h
  rename_i h1 h2 h3 h4
  refine ⟨by simp at h4; simpa using h4, rfl, rfl, by simpa using h2⟩
theorem cast_dims (t : SK) (b : KStack) (kb k : Kind) (hb : kind b = .ok kb) (h : kind (.cast t b) = .ok k) :
    k.inDim = kb.inDim ∧ k.outDim = kb.outDim ∧ k.outSk = t := by
  rw [kind_compositional _ b rfl, hb] at h
  simp only [layerKind] at h; injection h with h; subst h; simp
theorem layout_dims (l : Lay) (a : SK) (n : Nat) (b : KStack) (kb k : Kind) (hb : kind b = .ok kb)
    (h : kind (.layout l a n b) = .ok k) : k.inDim = n ∧ 0 < n ∧ k.outDim = kb.outDim ∧ (l = .hilbert → n = 2) := by
  rw [kind_compositional _ b rfl, hb] at h
  simp only [layerKind] at h
  repeat (split at h; · simp at h)
  injection h with h; subst h
  rename_i h1 h2
  refine ⟨rfl, Nat.pos_of_ne_zero h1, rfl, fun hl => ?_⟩
  cases Nat.decEq n 2 with
  | isTrue e => exact e
  | isFalse ne => exact absurd ⟨hl, ne⟩ h2

/-! ### `stated`: which stacks the documented kinds speak about -/
/-- a storage order directly over memory is always within the documented kinds … -/
theorem stated_layout_array (l : Lay) (a : SK) (n : Nat) (s : SK) (m : Nat) : stated (.layout l a n (.array s m)) = true := by
  simp only [stated, kind, analyse]
  by_cases hm : m = 0 <;> simp [hm, SK.isFloat]
/-- … wrappers other than storage orders never change it … -/
theorem stated_wrapper (b : KStack) (p : List Nat) (t : SK) (i : Itp) (a : SK) (n : Nat) :
    stated (.clamp b) = stated b ∧ stated (.backup b) = stated b ∧ stated (.affine b) = stated b ∧
    stated (.shuffle p b) = stated b ∧ stated (.cast t b) = stated b ∧ stated (.deref b) = stated b ∧
    stated (.interp i a n b) = stated b := ⟨rfl, rfl, rfl, rfl, rfl, rfl, rfl⟩
/-- … and a storage order over a float-indexed interpolator is outside them -/
theorem unstated_layout_over_interp (l : Lay) (a : SK) (n : Nat) (i : Itp) (c : SK) (b : KStack) (k : Kind)
    (h : kind (.interp i c 1 b) = .ok k) : stated (.layout l a n (.interp i c 1 b)) = false := by
  have hk : k.inSk.isFloat = true := by
    rw [kind_compositional _ b rfl] at h
    cases hb : kind b with
    | error e => rw [hb] at h; simp at h
    | ok kb =>
      rw [hb] at h
      simp only [layerKind] at h
      repeat (split at h; · simp at h)
      injection h with h; subst h
      rename_i h1 h2 h3 h4
      simpa using h2
  simp only [stated, h, hk]
  simp
example : stated (.layout .mortonT .u64 3 (.interp .linear .f32 1 (.array .f32 3))) = false := by decide

-- the ATLAS-like stack of the test suite and measured view sizes (tests of the model, compared with sizeof by the harness)
def atlas : KStack := .affine (.interp .linear .f32 3 (.layout .strided .u64 3 (.array .f32 3)))
example : kind atlas = .ok ⟨.f32, 3, false, .f32, 3, false⟩ := by rfl
example : wellKinded atlas = true := by rfl
example : stated atlas = true := by decide
example : viewSize atlas = .ok (88, 8) := by rfl
example : viewSize (.backup (.layout .strided .u64 3 (.array .f32 3))) = .ok (104, 8) := by rfl
example : kind (.layout .hilbert .u64 3 (.array .f32 1)) = .error .hilbertNeeds2D := by rfl
example : kind (.interp .linear .f32 3 (.identity .u64 3)) = .error .linearNeedsFloatValues := by rfl
example : kind (.interp .nn .f32 2 (.layout .strided .u64 3 (.array .f32 3))) = .error .interpDimMismatch := by rfl
example : wellKinded (.clamp (.array .f32 3)) = false ∧ supports (.clamp (.array .f32 3)) .dump = true := by decide
example : lookupErr (.shuffle [0, 1] (.layout .strided .u64 3 (.array .f32 3))) = some .shuffleArity := by rfl
example : supports (.layout .strided .u32 2 (.array .f32 3)) (.convertFrom (.layout .mortonF .u32 2 (.array .f32 3))) = true := by decide
example : supports (.layout .strided .u32 2 (.array .f32 3)) (.convertFrom (.layout .mortonF .u64 2 (.array .f32 3))) = false := by decide
example : supports (.layout .mortonT .u64 2 (.array .f32 3)) (.convertFrom (.layout .mortonF .u64 2 (.array .f32 3))) = true := by decide
example : applicable atlas (.convertFrom (.affine (.interp .nn .f32 3 (.layout .mortonF .u64 3 (.array .f32 3))))) = true := by decide
end Covfie.C13
