import CovfieModel.Model.Kinds
/-! # C13 — Every well-kinded composition supports the whole field API (kind model; the C++ type checker is
    tied in by the compile matrix) -/
namespace Covfie.C13
open Covfie.Kinds

/-- well-kindedness is hereditary: a well-kinded stack is built on a well-kinded stack -/
theorem kind_sub (s : KStack) (k : Kind) (h : kind s = .ok k) :
    match s with
    | .layout _ _ _ b | .clamp b | .backup b | .affine b | .shuffle _ b | .cast _ b | .deref b | .interp _ _ b =>
        ∃ kb, kind b = .ok kb
    | _ => True := by
  cases s <;> simp only [kind] at h ⊢ <;> try trivial
  all_goals
    split at h
    · simp at h
    · exact ⟨_, by assumption⟩

/-- compositionality: the kind of a layered stack depends on the stack beneath only through its kind -/
theorem kind_compositional (l : Lay) (a : SK) (n : Nat) (b b' : KStack) (h : kind b = kind b') :
    kind (.layout l a n b) = kind (.layout l a n b') := by
  simp only [kind, h]; cases kind b' <;> rfl
theorem kind_compositional_interp (i : Itp) (a : SK) (b b' : KStack) (h : kind b = kind b') :
    kind (.interp i a b) = kind (.interp i a b') := by
  simp only [kind, h]; cases kind b' <;> rfl
theorem kind_compositional_clamp (b b' : KStack) (h : kind b = kind b') : kind (.clamp b) = kind (.clamp b') := by
  simp only [kind, h]; cases kind b' <;> rfl

/-- every well-kinded stack whose view fits supports every API operation -/
theorem wellKinded_supports (s : KStack) (k : Kind) (h : kind s = .ok k) (hv : viewFits s = true) (op : ApiOp) :
    supports s op = true := by
  unfold supports; rw [h]; cases op <;> simp [hv]

/-- ill-kinded compositions are rejected (support nothing) -/
theorem illKinded_rejected (s : KStack) (e : KindErr) (h : kind s = .error e) (op : ApiOp) : supports s op = false := by
  unfold supports; rw [h]

/-- dimension facts: interpolators and wrappers keep N; casts keep M; storage orders set N -/
theorem interp_dims (i : Itp) (a : SK) (b : KStack) (kb k : Kind) (hb : kind b = .ok kb)
    (h : kind (.interp i a b) = .ok k) : k.inDim = kb.inDim ∧ k.outDim = kb.outDim ∧ k.inSk = a := by
  simp only [kind, hb, layerKind] at h
  split at h
  · simp at h
  · split at h
    · simp at h
    · injection h with h; subst h; simp
theorem cast_dims (t : SK) (b : KStack) (kb k : Kind) (hb : kind b = .ok kb) (h : kind (.cast t b) = .ok k) :
    k.inDim = kb.inDim ∧ k.outDim = kb.outDim ∧ k.outSk = t := by
  simp only [kind, hb, layerKind] at h; injection h with h; subst h; simp

-- the ATLAS-like stack of the test suite and measured view sizes (tests of the model, compared with sizeof by the harness)
def atlas : KStack := .affine (.interp .linear .f32 (.layout .strided .u64 3 (.array .f32 3)))
example : kind atlas = .ok ⟨.f32, 3, false, .f32, 3, false⟩ := by rfl
example : viewSize atlas = .ok (88, 8) := by rfl
example : viewSize (.backup (.layout .strided .u64 3 (.array .f32 3))) = .ok (104, 8) := by rfl
example : kind (.layout .hilbert .u64 3 (.array .f32 1)) = .error .hilbertNeeds2D := by rfl
example : kind (.interp .linear .f32 (.identity .u64 3)) = .error .linearNeedsFloatValues := by rfl
end Covfie.C13
