import CovfieModel.Lemmas.Strided
import CovfieModel.Lemmas.MortonPdep
import CovfieModel.Lemmas.HilbertList
import Mathlib.Data.Fintype.EquivFin
import Mathlib.Data.Fintype.Prod
/-! # C14 — Storage orders follow their published curves -/
namespace Covfie.C14

/-! ## Row-major: position of (c₁ … c_N) is Σ_k c_k · Π_{l>k} N_l -/
/-- `stridedIdx` *is* that sum (head term `c · Π tail` plus the sum for the tail) … -/
theorem strided_closed_form (s : Nat) (ss : List Nat) (c : Nat) (cs : List Nat) :
    stridedIdx (s :: ss) (c :: cs) = c * prod ss + stridedIdx ss cs := rfl
/-- … and the code's loop, accumulating in a `w`-bit coordinate type, computes it whenever the cell count fits. -/
theorem strided_code_eq_closed_form (w : Nat) (sz c : List Nat) (h : InBox sz c) (hfit : prod sz ≤ 2^w) :
    stridedIdxW w sz c = stridedIdx sz c := strided_nowrap w sz c h hfit

/-! ## Morton: bit-interleave with the first coordinate least significant, identically in both implementations -/
theorem morton_bit_interleave (c : List Nat) (hN : 0 < c.length) (p : Nat) :
    (mortonLoop c).testBit p =
      (decide (p / c.length < 64 / c.length) && (c.getD (p % c.length) 0).testBit (p / c.length)) :=
  mortonLoop_testBit c hN p
theorem morton_bmi2_eq_portable (c : List Nat) (hN : 0 < c.length)
    (hc : ∀ j, j < c.length → c.getD j 0 < 2^(64 / c.length)) : mortonPdep c = mortonLoop c :=
  mortonPdep_eq_loop c hN hc

/-! ## Hilbert: every cell of a 2^k × 2^k square exactly once, from the origin, edge-adjacent steps -/
/-- the code's iterative loop is the recursive curve -/
theorem hilbert_code_eq_curve (sx sy x y k : Nat) (hk : hilN sx sy = 2^k) (hk63 : k ≤ 63)
    (hx : x < 2^k) (hy : y < 2^k) : hilbertIdx [sx, sy] [x, y] = hilR k x y :=
  hilbertIdx_eq sx sy x y k hk hk63 hx hy
theorem hilbert_range (k x y : Nat) : hilR k x y < 4^k := hilR_lt k x y
theorem hilbert_visits_once (k x y x' y' : Nat) (hx : x < 2^k) (hy : y < 2^k) (hx' : x' < 2^k) (hy' : y' < 2^k)
    (h : hilR k x y = hilR k x' y') : x = x' ∧ y = y' := hilR_inj k x y x' y' hx hy hx' hy' h
theorem hilbert_starts_at_origin (k x y : Nat) (hx : x < 2^k) (hy : y < 2^k) :
    hilR k x y = 0 ↔ x = 0 ∧ y = 0 := hilR_zero_iff k x y hx hy
theorem hilbert_consecutive_adjacent (k x y x' y' : Nat) (hx : x < 2^k) (hy : y < 2^k) (hx' : x' < 2^k) (hy' : y' < 2^k)
    (h : hilR k x y + 1 = hilR k x' y') : adj x y x' y' := hilR_adj k x y x' y' hx hy hx' hy' h

/-- every position is visited: an injective map from the `4^k` cells into `[0, 4^k)` is onto -/
theorem hilbert_visits_all (k d : Nat) (hd : d < 4^k) : ∃ x y, x < 2^k ∧ y < 2^k ∧ hilR k x y = d := by
  let f : Fin (2^k) × Fin (2^k) → Fin (4^k) := fun p => ⟨hilR k p.1 p.2, hilR_lt k _ _⟩
  have hinj : Function.Injective f := by
    rintro ⟨x, y⟩ ⟨x', y'⟩ e
    have e' : hilR k x y = hilR k x' y' := by simpa [f] using congrArg Fin.val e
    obtain ⟨r1, r2⟩ := hilR_inj k x y x' y' x.isLt y.isLt x'.isLt y'.isLt e'
    exact Prod.ext (Fin.ext r1) (Fin.ext r2)
  have hcard : Fintype.card (Fin (2^k) × Fin (2^k)) = Fintype.card (Fin (4^k)) := by
    simp [← Nat.mul_pow]
  obtain ⟨⟨x, y⟩, e⟩ := ((Fintype.bijective_iff_injective_and_card f).mpr ⟨hinj, hcard⟩).2 ⟨d, hd⟩
  exact ⟨x, y, x.isLt, y.isLt, by simpa [f] using congrArg Fin.val e⟩

example : mortonLoop [5, 3] = 0b011011 := by decide
example : (List.range 16).map (fun d => ((List.range 4).flatMap fun x => (List.range 4).filterMap fun y =>
    if hilR 2 x y = d then some (x, y) else none)) =
  [[(0,0)],[(1,0)],[(1,1)],[(0,1)],[(0,2)],[(0,3)],[(1,3)],[(1,2)],[(2,2)],[(2,3)],[(3,3)],[(3,2)],[(3,1)],[(2,1)],[(2,0)],[(3,0)]] := by decide
end Covfie.C14
