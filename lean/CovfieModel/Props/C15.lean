import CovfieModel.Model.Stack
import CovfieModel.Props.C01
import CovfieModel.Props.C02
import CovfieModel.Props.C03
import CovfieModel.Lemmas.Strided
import CovfieModel.Lemmas.NdMap
import CovfieModel.Lemmas.MortonList
import Mathlib.Data.Rat.Defs
import Mathlib.Data.Rat.Lemmas
/-! # C15 — No undefined behaviour on the documented domain (the arithmetic conditions the evaluator instruments:
    out-of-bounds index, negative index, float→integer conversion out of range). Partial: everything else
    (uninitialised reads, lifetime, missing return, …) is observed by the sanitizer builds of the harness. -/
namespace Covfie.C15

def coordOf (c : List Nat) : List Num := c.map fun (n : Nat) => Num.fin (n : Rat)

theorem natOf_natCast (n : Nat) : natOf (.fin (n : Rat)) = .ok n := by
  simp [natOf, Rat.den_natCast, Rat.num_natCast]

theorem mapE_natOf_coordOf (c : List Nat) : mapE natOf (coordOf c) = .ok c := by
  induction c with
  | nil => rfl
  | cons n ns ih =>
    unfold coordOf at ih ⊢
    simp only [List.map_cons, mapE, natOf_natCast, ih]

theorem arrayB_in_range (cells : List (List Num)) (i : Nat) (h : i < cells.length) :
    arrayB cells [.fin (i : Rat)] = .ok (cells[i], [i]) := by
  simp [arrayB, Rat.den_natCast, Rat.num_natCast, h]

/-- a row-major array-backed field: every in-range integer coordinate is looked up without any of the modelled
    UB conditions, and the only cell touched is the row-major one, inside the storage -/
theorem strided_array_safe (cv : Conv) (w : Nat) (sz c : List Nat) (cells : List (List Num))
    (hc : InBox sz c) (hlen : cells.length = prod sz) (hfit : prod sz ≤ 2^w) :
    ∃ v, eval cv (.strided w .array) (.sized sz (.array cells)) (coordOf c) = .ok (v, [stridedIdx sz c]) ∧
         stridedIdx sz c < cells.length := by
  have hlt : stridedIdx sz c < cells.length := by rw [hlen]; exact strided_lt sz c hc
  refine ⟨cells[stridedIdx sz c], ?_, hlt⟩
  simp only [eval, layoutL, mapE_natOf_coordOf, strided_nowrap w sz c hc hfit]
  exact arrayB_in_range cells _ hlt

#guard (eval (fun x => .ok x) (.strided 64 .array) (.sized [2, 2] (.array [[.fin 1], [.fin 2], [.fin 3], [.fin 4]]))
    (coordOf [1, 0])) matches .ok ([.fin 3], [2])
end Covfie.C15

namespace Covfie.C15
/-- Morton-backed array field (portable index): in-range coordinates touch one cell inside the curve storage -/
theorem morton_array_safe (cv : Conv) (sz c : List Nat) (cells : List (List Num)) (k : Nat)
    (hc : InBox sz c) (hN : 0 < sz.length) (hk : ∀ s ∈ sz, s ≤ 2^k) (hlen : cells.length = 2^(k * sz.length)) :
    ∃ v, eval cv (.mortonF .array) (.sized sz (.array cells)) (coordOf c) = .ok (v, [mortonLoop c]) ∧
         mortonLoop c < cells.length := by
  have hl := InBox_length sz c hc
  have hlt : mortonLoop c < cells.length := by
    rw [hlen, ← hl]
    apply mortonLoop_lt c k (by omega)
    intro j hj
    -- every coordinate is below its extent, hence below 2^k
    have : ∀ (sz c : List Nat), InBox sz c → (∀ s ∈ sz, s ≤ 2^k) → ∀ j, j < c.length → c.getD j 0 < 2^k := by
      intro sz
      induction sz with
      | nil => intro c h; cases c <;> simp_all [InBox]
      | cons s ss ih =>
        intro c h hb j hj
        cases c with
        | nil => simp [InBox] at h
        | cons x xs =>
          cases j with
          | zero => simp; exact Nat.lt_of_lt_of_le h.1 (hb s List.mem_cons_self)
          | succ j => simp only [List.getD_cons_succ]; exact ih xs h.2 (fun t ht => hb t (List.mem_cons_of_mem _ ht)) j (by simpa using hj)
    exact this sz c hc hk j hj
  refine ⟨cells[mortonLoop c], ?_, hlt⟩
  simp only [eval, layoutL, mapE_natOf_coordOf]
  exact arrayB_in_range cells _ hlt
end Covfie.C15

namespace Covfie.C15
/-! ## Every storage order, and the interpolator above it -/

/-- any storage order over an array: one in-range cell is touched -/
theorem layout_array_safe (idx : List Nat → Nat) (cells : List (List Num)) (c : List Nat) (h : idx c < cells.length) :
    layoutL idx (arrayB cells) (coordOf c) = .ok (cells[idx c], [idx c]) := by
  simp only [layoutL, mapE_natOf_coordOf]
  exact arrayB_in_range cells _ h

theorem mapE_ok_of_forall {α β ε} (f : α → Except ε β) (Q : β → Prop) (l : List α)
    (h : ∀ a ∈ l, ∃ b, f a = .ok b ∧ Q b) : ∃ bs, mapE f l = .ok bs ∧ ∀ b ∈ bs, Q b := by
  induction l with
  | nil => exact ⟨[], rfl, by simp⟩
  | cons a as ih =>
    obtain ⟨b, hb, qb⟩ := h a List.mem_cons_self
    obtain ⟨bs, hbs, qbs⟩ := ih (fun x hx => h x (List.mem_cons_of_mem _ hx))
    refine ⟨b :: bs, by simp [mapE, hb, hbs], ?_⟩
    intro x hx
    rcases List.mem_cons.mp hx with rfl | hx
    · exact qb
    · exact qbs x hx

/-- the interpolator is safe whenever each of its `2^N` corner lookups is: it fails nowhere and touches only
    cells the corner lookups touch -/
theorem linear_safe (bk : Backend) (c : List Num) (parts : List (Nat × Rat)) (hp : mapE truncIdx c = .ok parts)
    (P : Nat → Prop)
    (hb : ∀ bs ∈ corners c.length, ∃ v t, bk (addBits (parts.map (·.1)) bs) = .ok (v, t) ∧ ∀ i ∈ t, P i) :
    ∃ v t, linearL bk c = .ok (v, t) ∧ ∀ i ∈ t, P i := by
  unfold linearL
  rw [hp]
  simp only []
  obtain ⟨rs, hrs, hq⟩ := mapE_ok_of_forall (cornerQuery bk (parts.map (·.1))) (fun r => ∀ i ∈ r.2.2, P i)
    (corners c.length) (by
      intro bs hbs
      obtain ⟨v, t, hvt, hP⟩ := hb bs hbs
      exact ⟨(bs, (v, t)), by simp [cornerQuery, hvt], hP⟩)
  rw [hrs]
  refine ⟨_, _, rfl, ?_⟩
  intro i hi
  obtain ⟨r, hr, hir⟩ := List.mem_flatMap.mp hi
  exact hq r hr i hir

theorem corners_mem_length (N : Nat) (bs : List Bool) (h : bs ∈ corners N) : bs.length = N := by
  induction N generalizing bs with
  | zero => simp [corners] at h; subst h; rfl
  | succ n ih =>
    simp only [corners, List.mem_flatMap] at h
    obtain ⟨cs, hcs, hb⟩ := h
    simp at hb
    rcases hb with rfl | rfl <;> simp [ih cs hcs]

theorem addBits_eq_coordOf (is : List Nat) (bs : List Bool) :
    addBits is bs = coordOf (List.zipWith (fun i b => i + (if b then 1 else 0)) is bs) := by
  induction is generalizing bs with
  | nil => simp [addBits, coordOf]
  | cons i is ih =>
    cases bs with
    | nil => simp [addBits, coordOf]
    | cons b bs =>
      have := ih bs
      simp only [addBits, coordOf] at this ⊢
      simp

/-- **linear interpolation over a row-major array**: for coordinates whose integer parts `i_k` satisfy
    `i_k + 1 < extent_k` (i.e. `0 ≤ x_k < extent_k − 1`) the lookup hits none of the modelled UB conditions and
    every one of the `2^N` cells it reads lies inside the storage -/
theorem linear_strided_array_safe (cv : Conv) (w : Nat) (sz : List Nat) (cells : List (List Num)) (c : List Num)
    (parts : List (Nat × Rat)) (hp : mapE truncIdx c = .ok parts)
    (hbox : InBox sz ((parts.map (·.1)).map (· + 1)))
    (hlen : cells.length = prod sz) (hfit : prod sz ≤ 2^w) :
    ∃ v t, eval cv (.linear (.strided w .array)) (.thin (.sized sz (.array cells))) c = .ok (v, t) ∧
      ∀ i ∈ t, i < cells.length := by
  simp only [eval]
  apply linear_safe _ c parts hp
  intro bs hbs
  have hl : bs.length = (parts.map (·.1)).length := by
    rw [corners_mem_length _ _ hbs, List.length_map, C02.mapE_length truncIdx c parts hp]
  have hin := C03.neighbours_in_box sz (parts.map (·.1)) bs hbox hl
  rw [addBits_eq_coordOf]
  have hlt : stridedIdx sz (List.zipWith (fun i b => i + (if b then 1 else 0)) (parts.map (·.1)) bs) < cells.length := by
    rw [hlen]; exact strided_lt sz _ hin
  have e := layout_array_safe (stridedIdxW w sz) cells _ (by rw [strided_nowrap w sz _ hin hfit]; exact hlt)
  refine ⟨_, _, e, ?_⟩
  intro i hi
  simp only [List.mem_singleton] at hi
  rw [hi, strided_nowrap w sz _ hin hfit]; exact hlt

/-- Hilbert-backed array field: an in-range coordinate touches one cell inside the `4^k` curve storage -/
theorem hilbert_array_safe (cv : Conv) (sx sy x y k : Nat) (cells : List (List Num))
    (hk : hilN sx sy = 2^k) (hk63 : k ≤ 63) (hx : x < sx) (hy : y < sy) (hsx : sx ≤ 2^k) (hsy : sy ≤ 2^k)
    (hlen : cells.length = 4^k) :
    ∃ v, eval cv (.hilbert .array) (.sized [sx, sy] (.array cells)) (coordOf [x, y]) =
        .ok (v, [hilbertIdx [sx, sy] [x, y]]) ∧ hilbertIdx [sx, sy] [x, y] < cells.length := by
  have hlt : hilbertIdx [sx, sy] [x, y] < cells.length := by
    rw [hlen]; exact C01.hilbert_in_storage sx sy x y k hk hk63 hx hy hsx hsy
  exact ⟨_, by simp only [eval]; exact layout_array_safe _ cells _ hlt, hlt⟩

/-- BMI2 Morton over an array: same cell as the portable loop, inside the storage -/
theorem mortonT_array_safe (cv : Conv) (sz c : List Nat) (cells : List (List Num)) (k : Nat)
    (hc : InBox sz c) (hN : 0 < sz.length) (hk : ∀ s ∈ sz, s ≤ 2^k) (hk64 : k ≤ 64 / sz.length)
    (hlen : cells.length = 2^(k * sz.length)) :
    ∃ v, eval cv (.mortonT .array) (.sized sz (.array cells)) (coordOf c) = .ok (v, [mortonLoop c]) ∧
         mortonLoop c < cells.length := by
  have hl := InBox_length sz c hc
  have hb : ∀ j, j < c.length → c.getD j 0 < 2^k := C01.inBox_getD_lt sz c hc _ hk
  have hlt : mortonLoop c < cells.length := by
    rw [hlen, ← hl]; exact mortonLoop_lt c k (by omega) hb
  have he : mortonPdep c = mortonLoop c := by
    apply mortonPdep_eq_loop c (by omega)
    intro j hj
    exact Nat.lt_of_lt_of_le (hb j hj) (Nat.pow_le_pow_right (by omega) (by rw [hl]; exact hk64))
  refine ⟨cells[mortonLoop c], ?_, hlt⟩
  simp only [eval]
  have := layout_array_safe mortonPdep cells c (by rw [he]; exact hlt)
  simpa only [he] using this

end Covfie.C15

namespace Covfie.C15
/-- the portable Morton loop `idx |= (c[j] & (1UL << i)) << (i * (N − 1) + j)` for `i < 64 / N`, `j < N`: both shift
    amounts stay below the width of `unsigned long` (a shift by ≥ 64 would be undefined behaviour) -/
theorem morton_shifts_defined (N i j : Nat) (hi : i < 64 / N) (hj : j < N) :
    i < 64 ∧ i * (N - 1) + j < 64 := by
  have h1 : (i + 1) * N ≤ 64 := Nat.le_trans (Nat.mul_le_mul_right N hi) (Nat.div_mul_le_self 64 N)
  obtain ⟨n, rfl⟩ : ∃ n, N = n + 1 := ⟨N - 1, by omega⟩
  have e : (i + 1) * (n + 1) = i * n + i + n + 1 := by
    rw [Nat.add_mul, Nat.mul_add, Nat.one_mul, Nat.mul_one]; omega
  rw [e] at h1
  have : n + 1 - 1 = n := by omega
  rw [this]
  omega
end Covfie.C15
