import CovfieModel.Model.Stack
import CovfieModel.Lemmas.Strided
import CovfieModel.Lemmas.NdMap
import CovfieModel.Lemmas.MortonList
import Mathlib.Data.Rat.Defs
import Mathlib.Data.Rat.Lemmas
/-! # C15 — No undefined behaviour on the documented domain (the arithmetic conditions the evaluator instruments:
    out-of-bounds index, negative index, float→integer conversion out of range). Partial: everything else
    (uninitialised reads, lifetime, missing return, …) is observed by the sanitizer builds of the harness. -/
namespace Covfie.C15

def coordOf (c : List Nat) : List Num := c.map fun (n : Nat) => Num.fin (n : Rat)

theorem natOf_natCast (n : Nat) : natOf (.fin (n : Rat)) = .ok n := by
  simp [natOf, Rat.den_natCast, Rat.num_natCast]

theorem mapE_natOf_coordOf (c : List Nat) : mapE natOf (coordOf c) = .ok c := by
  induction c with
  | nil => rfl
  | cons n ns ih =>
    unfold coordOf at ih ⊢
    simp only [List.map_cons, mapE, natOf_natCast, ih]

theorem arrayB_in_range (cells : List (List Num)) (i : Nat) (h : i < cells.length) :
    arrayB cells [.fin (i : Rat)] = .ok (cells[i], [i]) := by
  simp [arrayB, Rat.den_natCast, Rat.num_natCast, h]

/-- a row-major array-backed field: every in-range integer coordinate is looked up without any of the modelled
    UB conditions, and the only cell touched is the row-major one, inside the storage -/
theorem strided_array_safe (cv : Conv) (w : Nat) (sz c : List Nat) (cells : List (List Num))
    (hc : InBox sz c) (hlen : cells.length = prod sz) (hfit : prod sz ≤ 2^w) :
    ∃ v, eval cv (.strided w .array) (.sized sz (.array cells)) (coordOf c) = .ok (v, [stridedIdx sz c]) ∧
         stridedIdx sz c < cells.length := by
  have hlt : stridedIdx sz c < cells.length := by rw [hlen]; exact strided_lt sz c hc
  refine ⟨cells[stridedIdx sz c], ?_, hlt⟩
  simp only [eval, layoutL, mapE_natOf_coordOf, strided_nowrap w sz c hc hfit]
  exact arrayB_in_range cells _ hlt

#guard (eval (fun x => .ok x) (.strided 64 .array) (.sized [2, 2] (.array [[.fin 1], [.fin 2], [.fin 3], [.fin 4]]))
    (coordOf [1, 0])) matches .ok ([.fin 3], [2])
end Covfie.C15

namespace Covfie.C15
/-- Morton-backed array field (portable index): in-range coordinates touch one cell inside the curve storage -/
theorem morton_array_safe (cv : Conv) (sz c : List Nat) (cells : List (List Num)) (k : Nat)
    (hc : InBox sz c) (hN : 0 < sz.length) (hk : ∀ s ∈ sz, s ≤ 2^k) (hlen : cells.length = 2^(k * sz.length)) :
    ∃ v, eval cv (.mortonF .array) (.sized sz (.array cells)) (coordOf c) = .ok (v, [mortonLoop c]) ∧
         mortonLoop c < cells.length := by
  have hl := InBox_length sz c hc
  have hlt : mortonLoop c < cells.length := by
    rw [hlen, ← hl]
    apply mortonLoop_lt c k (by omega)
    intro j hj
    -- every coordinate is below its extent, hence below 2^k
    have : ∀ (sz c : List Nat), InBox sz c → (∀ s ∈ sz, s ≤ 2^k) → ∀ j, j < c.length → c.getD j 0 < 2^k := by
      intro sz
      induction sz with
      | nil => intro c h; cases c <;> simp_all [InBox]
      | cons s ss ih =>
        intro c h hb j hj
        cases c with
        | nil => simp [InBox] at h
        | cons x xs =>
          cases j with
          | zero => simp; exact Nat.lt_of_lt_of_le h.1 (hb s List.mem_cons_self)
          | succ j => simp only [List.getD_cons_succ]; exact ih xs h.2 (fun t ht => hb t (List.mem_cons_of_mem _ ht)) j (by simpa using hj)
    exact this sz c hc hk j hj
  refine ⟨cells[mortonLoop c], ?_, hlt⟩
  simp only [eval, layoutL, mapE_natOf_coordOf]
  exact arrayB_in_range cells _ hlt
end Covfie.C15
