import CovfieModel.Props.C15
import CovfieModel.Props.C04
import CovfieModel.Props.C10
/-! # C15 / C10 — interpolators over array storage on their documented domains

* `nn_layout_array_safe`, `nn_strided_array_safe`: nearest-neighbour over a storage order over an array, for coordinates
  with `−½ < x_k < extent_k − ½`: none of the modelled UB conditions, exactly one cell read, inside the storage.
* `clamp_nn_strided_array_safe`: with a clamp **above** the interpolator whose box lies inside `(−½, extent − ½)`, the
  same holds for *every* coordinate, infinities included (C10: "clamp placed above an interpolator").
* `clamp_linear_strided_array_safe`: the same for the linear interpolator and a box inside `[0, extent − 1)`. -/
namespace Covfie.C15
open Covfie

/-- the documented domain of nearest-neighbour lookups, per axis -/
def NNDom : List Nat → List ℚ → Prop
  | [], [] => True
  | s :: ss, q :: qs => (-(1/2) < q ∧ q < (s : ℚ) - 1/2) ∧ NNDom ss qs
  | _, _ => False

/-- the lattice point a nearest-neighbour lookup selects -/
def nnPoint (qs : List ℚ) : List Nat := qs.map fun q => (nnRound q).toNat

theorem nnDom_inBox (sz : List Nat) (qs : List ℚ) (h : NNDom sz qs) : InBox sz (nnPoint qs) := by
  induction sz generalizing qs with
  | nil => cases qs <;> simp_all [NNDom, nnPoint, InBox]
  | cons s ss ih =>
    cases qs with
    | nil => simp [NNDom] at h
    | cons q qs =>
      obtain ⟨⟨h0, h1⟩, ht⟩ := h
      have hg := C04.nnRound_in_grid q s h0 h1
      refine ⟨?_, ih qs ht⟩
      show (nnRound q).toNat < s
      omega

theorem nnDom_nonneg (sz : List Nat) (qs : List ℚ) (h : NNDom sz qs) : ∀ q ∈ qs, 0 ≤ nnRound q := by
  induction sz generalizing qs with
  | nil => cases qs <;> simp_all [NNDom]
  | cons s ss ih =>
    cases qs with
    | nil => simp [NNDom] at h
    | cons q qs =>
      obtain ⟨⟨h0, h1⟩, ht⟩ := h
      intro x hx
      rcases List.mem_cons.mp hx with rfl | hx
      · exact (C04.nnRound_in_grid x s h0 h1).1
      · exact ih qs ht x hx

theorem nn_query_eq (qs : List ℚ) (h : ∀ q ∈ qs, 0 ≤ nnRound q) :
    (qs.map fun q => Num.fin ((nnRound q : Int) : ℚ)) = coordOf (nnPoint qs) := by
  induction qs with
  | nil => rfl
  | cons q qs ih =>
    have hq := h q List.mem_cons_self
    have := ih (fun x hx => h x (List.mem_cons_of_mem _ hx))
    simp only [coordOf, nnPoint, List.map_cons, List.map_map] at this ⊢
    rw [this]
    congr 2
    have : ((nnRound q).toNat : Int) = nnRound q := Int.toNat_of_nonneg hq
    exact_mod_cast this.symm

/-- nearest neighbour over any storage order over an array: if the order maps the selected lattice point inside the
    storage, the lookup reads exactly that cell and hits no UB condition -/
theorem nn_layout_array_safe (idx : List Nat → Nat) (cells : List (List Num)) (sz : List Nat) (qs : List ℚ)
    (hd : NNDom sz qs) (hin : idx (nnPoint qs) < cells.length) :
    nnL (layoutL idx (arrayB cells)) (qs.map Num.fin) = .ok (cells[idx (nnPoint qs)], [idx (nnPoint qs)]) := by
  have hn := nnDom_nonneg sz qs hd
  rw [(C04.nn_eval _ qs hn).1, nn_query_eq qs hn]
  exact layout_array_safe idx cells _ hin

/-- … in particular over a row-major array -/
theorem nn_strided_array_safe (cv : Conv) (w : Nat) (sz : List Nat) (cells : List (List Num)) (qs : List ℚ)
    (hd : NNDom sz qs) (hlen : cells.length = prod sz) (hfit : prod sz ≤ 2^w) :
    ∃ v i, eval cv (.nn (.strided w .array)) (.thin (.sized sz (.array cells))) (qs.map Num.fin) = .ok (v, [i]) ∧
      i < cells.length := by
  have hb := nnDom_inBox sz qs hd
  have hlt : stridedIdx sz (nnPoint qs) < cells.length := by rw [hlen]; exact strided_lt sz _ hb
  have hw := strided_nowrap w sz _ hb hfit
  refine ⟨cells[stridedIdx sz (nnPoint qs)], stridedIdx sz (nnPoint qs), ?_, hlt⟩
  simp only [eval]
  have := nn_layout_array_safe (stridedIdxW w sz) cells sz qs hd (by rw [hw]; exact hlt)
  simpa only [hw] using this

/-- … and over a Morton array (portable index) -/
theorem nn_morton_array_safe (cv : Conv) (sz : List Nat) (cells : List (List Num)) (qs : List ℚ) (k : Nat)
    (hd : NNDom sz qs) (hN : 0 < sz.length) (hk : ∀ s ∈ sz, s ≤ 2^k) (hlen : cells.length = 2^(k * sz.length)) :
    ∃ v i, eval cv (.nn (.mortonF .array)) (.thin (.sized sz (.array cells))) (qs.map Num.fin) = .ok (v, [i]) ∧
      i < cells.length := by
  have hb := nnDom_inBox sz qs hd
  have hl := InBox_length sz _ hb
  have hlt : mortonLoop (nnPoint qs) < cells.length := by
    rw [hlen, ← hl]
    exact mortonLoop_lt _ k (by omega) (C01.inBox_getD_lt sz _ hb _ hk)
  refine ⟨cells[mortonLoop (nnPoint qs)], mortonLoop (nnPoint qs), ?_, hlt⟩
  simp only [eval]
  exact nn_layout_array_safe mortonLoop cells sz qs hd hlt

/-! ### a clamp above the interpolator makes every coordinate safe -/

/-- a box `[lo_k, hi_k]` of rationals inside the nearest-neighbour domain of the extents -/
def NNBox : List Nat → List ℚ → List ℚ → Prop
  | [], [], [] => True
  | s :: ss, l :: ls, h :: hs => (-(1/2) < l ∧ l ≤ h ∧ h < (s : ℚ) - 1/2) ∧ NNBox ss ls hs
  | _, _, _ => False

/-- the clamped coordinate as a rational (the box is finite, so the result is, whatever non-NaN value comes in) -/
def clampQ (l h : ℚ) : Num → ℚ
  | .fin q => if q < l then l else if h < q then h else q
  | .ninf => l
  | .pinf => h
  | .nan => h

theorem clampNum_fin (l h : ℚ) (x : Num) (hx : x.isNan = false) (_hlh : l ≤ h) :
    clampNum (.fin l) (.fin h) x = .fin (clampQ l h x) := by
  cases x with
  | fin q =>
    simp only [clampNum, Num.lt, clampQ, decide_eq_true_eq]
    split
    · rfl
    · split <;> rfl
  | ninf => simp [clampNum, Num.lt, clampQ]
  | pinf =>
    simp [clampNum, Num.lt, clampQ]
  | nan => simp [Num.isNan] at hx

theorem clampQ_bounds (l h : ℚ) (x : Num) (hlh : l ≤ h) : l ≤ clampQ l h x ∧ clampQ l h x ≤ h := by
  cases x with
  | fin q =>
    simp only [clampQ]
    split
    · exact ⟨le_refl _, hlh⟩
    · split
      · exact ⟨hlh, le_refl _⟩
      · constructor <;> linarith
  | ninf => exact ⟨le_refl _, hlh⟩
  | pinf => exact ⟨hlh, le_refl _⟩
  | nan => exact ⟨hlh, le_refl _⟩

/-- component-wise clamp of any NaN-free coordinate to a box inside the domain lands in the domain -/
theorem clamp_into_nnDom (sz : List Nat) (ls hs : List ℚ) (c : List Num) (hb : NNBox sz ls hs)
    (hc : ∀ x ∈ c, x.isNan = false) (hlen : c.length = sz.length) :
    ∃ qs, zip3With clampNum (ls.map Num.fin) (hs.map Num.fin) c = qs.map Num.fin ∧ NNDom sz qs := by
  induction sz generalizing ls hs c with
  | nil =>
    cases ls <;> cases hs <;> simp_all [NNBox]
    cases c with
    | nil => exact ⟨[], rfl, trivial⟩
    | cons _ _ => simp at hlen
  | cons s ss ih =>
    cases ls with
    | nil => simp [NNBox] at hb
    | cons l ls =>
      cases hs with
      | nil => simp [NNBox] at hb
      | cons h hs =>
        cases c with
        | nil => simp at hlen
        | cons x xs =>
          obtain ⟨⟨h0, hlh, h1⟩, ht⟩ := hb
          obtain ⟨qs, hq, hd⟩ := ih ls hs xs ht (fun y hy => hc y (List.mem_cons_of_mem _ hy)) (by simpa using hlen)
          have hx := hc x List.mem_cons_self
          have hbd := clampQ_bounds l h x hlh
          refine ⟨clampQ l h x :: qs, ?_, ⟨⟨by linarith [hbd.1], by linarith [hbd.2]⟩, hd⟩⟩
          simp only [List.map_cons, zip3With, clampNum_fin l h x hx hlh, hq]

/-- **C10, clamp above nearest-neighbour over a row-major array**: for every NaN-free coordinate whatsoever — extremes
    and infinities included — the lookup reads exactly one cell, inside the storage, and meets no UB condition -/
theorem clamp_nn_strided_array_safe (cv : Conv) (w : Nat) (sz : List Nat) (ls hs : List ℚ) (cells : List (List Num))
    (c : List Num) (hb : NNBox sz ls hs) (hc : ∀ x ∈ c, x.isNan = false) (hl : c.length = sz.length)
    (hlen : cells.length = prod sz) (hfit : prod sz ≤ 2^w) :
    ∃ v i, eval cv (.clamp (.nn (.strided w .array)))
        (.box (ls.map Num.fin) (hs.map Num.fin) (.thin (.sized sz (.array cells)))) c = .ok (v, [i]) ∧
      i < cells.length := by
  obtain ⟨qs, hq, hd⟩ := clamp_into_nnDom sz ls hs c hb hc hl
  obtain ⟨v, i, he, hi⟩ := nn_strided_array_safe cv w sz cells qs hd hlen hfit
  refine ⟨v, i, ?_, hi⟩
  simp only [eval, clampL, hq]
  simpa only [eval] using he

/-! ### the same for the linear interpolator: box inside `[0, extent − 1)` -/
def LinDom : List Nat → List ℚ → Prop
  | [], [] => True
  | s :: ss, q :: qs => (0 ≤ q ∧ q < (s : ℚ) - 1) ∧ LinDom ss qs
  | _, _ => False

def LinBox : List Nat → List ℚ → List ℚ → Prop
  | [], [], [] => True
  | s :: ss, l :: ls, h :: hs => (0 ≤ l ∧ l ≤ h ∧ h < (s : ℚ) - 1) ∧ LinBox ss ls hs
  | _, _, _ => False

/-- on the documented domain the integer parts and their upper neighbours are inside the grid -/
theorem linDom_parts (sz : List Nat) (qs : List ℚ) (h : LinDom sz qs) :
    ∃ parts, mapE truncIdx (qs.map Num.fin) = .ok parts ∧ InBox sz ((parts.map (·.1)).map (· + 1)) := by
  induction sz generalizing qs with
  | nil =>
    cases qs with
    | nil => exact ⟨[], rfl, trivial⟩
    | cons _ _ => simp [LinDom] at h
  | cons s ss ih =>
    cases qs with
    | nil => simp [LinDom] at h
    | cons q qs =>
      obtain ⟨⟨h0, h1⟩, ht⟩ := h
      obtain ⟨parts, hp, hb⟩ := ih qs ht
      refine ⟨(q.floor.toNat, q - (q.floor : ℚ)) :: parts, ?_, ?_⟩
      · simp [mapE, truncIdx, h0, hp]
      · refine ⟨?_, hb⟩
        show q.floor.toNat + 1 < s
        have hf0 : 0 ≤ q.floor := Int.floor_nonneg.mpr h0
        have hfq : (q.floor : ℚ) ≤ q := Int.floor_le q
        have : (q.floor : ℚ) + 1 < (s : ℚ) := by linarith
        have : q.floor + 1 < (s : ℤ) := by exact_mod_cast this
        omega

theorem clamp_into_linDom (sz : List Nat) (ls hs : List ℚ) (c : List Num) (hb : LinBox sz ls hs)
    (hc : ∀ x ∈ c, x.isNan = false) (hlen : c.length = sz.length) :
    ∃ qs, zip3With clampNum (ls.map Num.fin) (hs.map Num.fin) c = qs.map Num.fin ∧ LinDom sz qs := by
  induction sz generalizing ls hs c with
  | nil =>
    cases ls <;> cases hs <;> simp_all [LinBox]
    cases c with
    | nil => exact ⟨[], rfl, trivial⟩
    | cons _ _ => simp at hlen
  | cons s ss ih =>
    cases ls with
    | nil => simp [LinBox] at hb
    | cons l ls =>
      cases hs with
      | nil => simp [LinBox] at hb
      | cons h hs =>
        cases c with
        | nil => simp at hlen
        | cons x xs =>
          obtain ⟨⟨h0, hlh, h1⟩, ht⟩ := hb
          obtain ⟨qs, hq, hd⟩ := ih ls hs xs ht (fun y hy => hc y (List.mem_cons_of_mem _ hy)) (by simpa using hlen)
          have hx := hc x List.mem_cons_self
          have hbd := clampQ_bounds l h x hlh
          refine ⟨clampQ l h x :: qs, ?_, ⟨⟨by linarith [hbd.1], by linarith [hbd.2]⟩, hd⟩⟩
          simp only [List.map_cons, zip3With, clampNum_fin l h x hx hlh, hq]

/-- **C10, clamp above linear over a row-major array**: every NaN-free coordinate is safe; all `2^N` cells read lie
    inside the storage -/
theorem clamp_linear_strided_array_safe (cv : Conv) (w : Nat) (sz : List Nat) (ls hs : List ℚ)
    (cells : List (List Num)) (c : List Num) (hb : LinBox sz ls hs) (hc : ∀ x ∈ c, x.isNan = false)
    (hl : c.length = sz.length) (hlen : cells.length = prod sz) (hfit : prod sz ≤ 2^w) :
    ∃ v t, eval cv (.clamp (.linear (.strided w .array)))
        (.box (ls.map Num.fin) (hs.map Num.fin) (.thin (.sized sz (.array cells)))) c = .ok (v, t) ∧
      ∀ i ∈ t, i < cells.length := by
  obtain ⟨qs, hq, hd⟩ := clamp_into_linDom sz ls hs c hb hc hl
  obtain ⟨parts, hp, hbox⟩ := linDom_parts sz qs hd
  obtain ⟨v, t, he, ht⟩ := linear_strided_array_safe cv w sz cells (qs.map Num.fin) parts hp hbox hlen hfit
  refine ⟨v, t, ?_, ht⟩
  simp only [eval, clampL, hq]
  simpa only [eval] using he

example : LinBox [3] [0] [3/2] := by
  refine ⟨⟨by norm_num, by norm_num, by norm_num⟩, trivial⟩

/-- non-vacuity: the hypotheses are satisfiable (3 cells, box [0, 2]) … -/
example : NNBox [3] [0] [2] := by
  refine ⟨⟨by norm_num, by norm_num, by norm_num⟩, trivial⟩
-- … and the model evaluates the coordinate +∞ to the last cell
#guard (eval (fun x => .ok x) (.clamp (.nn (.strided 64 .array)))
    (.box [.fin 0] [.fin 2] (.thin (.sized [3] (.array [[.fin 10], [.fin 20], [.fin 30]])))) [.pinf])
    matches .ok ([.fin 30], [2])

end Covfie.C15
