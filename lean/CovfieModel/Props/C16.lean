import CovfieModel.Model.Conc
/-! # C16 — Concurrent lookups are race-free and deterministic (cell-level model; any number of threads, any schedule) -/
namespace Covfie.C16
open Covfie.Conc

theorem solo_append (m : Mem) (as : List Act) (a : Act) :
    solo m (as ++ [a]) = ((exec (solo m as).1 a).1, (solo m as).2 ++ [(exec (solo m as).1 a).2]) := by
  induction as generalizing m with
  | nil => simp [solo]
  | cons b bs ih => simp [solo, ih]

/-- **A lookup is pure**: it leaves the memory unchanged … -/
theorem lookup_pure (m : Mem) (cs : List Nat) : (exec m (.read cs)).1 = m := rfl

/-- … and its result is a function of the cells in its footprint only. -/
theorem lookup_footprint (m m' : Mem) (cs : List Nat) (h : ∀ x ∈ cs, m x = m' x) :
    (exec m (.read cs)).2 = (exec m' (.read cs)).2 := by
  simp only [exec]
  exact List.map_congr_left h

/-- a view write touches exactly its one cell -/
theorem write_frame (m : Mem) (c v x : Nat) (h : x ≠ c) : (exec m (.write c v)).1 x = m x := by
  simp [exec, h]

/-- invariant over schedule prefixes: each thread sees, on its own footprint, the initial memory updated by its
    own earlier writes only, and has obtained exactly the values of running alone -/
structure Inv (m0 : Mem) (prog : Nat → List Act) (s : State) : Prop where
  split : ∀ t, prog t = s.done t ++ s.rest t
  view : ∀ t x, x ∈ footprint (prog t) → s.mem x = (solo m0 (s.done t)).1 x
  outs : ∀ t, s.out t = (solo m0 (s.done t)).2

theorem inv_init (m0 : Mem) (prog : Nat → List Act) : Inv m0 prog (init m0 prog) :=
  ⟨fun t => by simp [init], fun t x _ => by simp [init, solo], fun t => by simp [init, solo]⟩

theorem mem_footprint_of_mem {as : List Act} {a : Act} (ha : a ∈ as) {x : Nat} (hx : x ∈ a.reads ++ a.writes) :
    x ∈ footprint as := List.mem_flatMap.mpr ⟨a, ha, hx⟩

theorem inv_step (m0 : Mem) (prog : Nat → List Act) (hnc : NoConflict prog) (s : State) (h : Inv m0 prog s) (u : Nat) :
    Inv m0 prog (step s u) := by
  unfold step
  cases hr : s.rest u with
  | nil => simpa [hr] using h
  | cons a as =>
    simp only []
    have hsplit := h.split u
    rw [hr] at hsplit
    have ha_mem : a ∈ prog u := by rw [hsplit]; simp
    constructor
    · intro t
      by_cases e : t = u
      · subst e; simp [upd, hsplit]
      · simp [upd, e, h.split t]
    · intro t x hx
      by_cases e : t = u
      · subst e
        simp only [upd, if_true]
        rw [solo_append]
        simp only []
        cases a with
        | read cs => simp [exec]; exact h.view t x hx
        | write c v =>
          simp only [exec]
          by_cases exc : x = c
          · simp [exc]
          · simp [exc]; exact h.view t x hx
      · simp only [upd, e, if_false]
        cases a with
        | read cs => simp [exec]; exact h.view t x hx
        | write c v =>
          simp only [exec]
          have : x ≠ c := by
            intro exc; subst exc
            have hw : x ∈ writeSet (prog u) := List.mem_flatMap.mpr ⟨_, ha_mem, by simp [Act.writes]⟩
            exact hnc t u e x hw hx
          simp [this]; exact h.view t x hx
    · intro t
      by_cases e : t = u
      · subst e
        simp only [upd, if_true]
        rw [solo_append, h.outs t]
        simp only []
        congr 2
        -- the values read now equal those of the solo run: the cells read are in the thread's footprint
        cases a with
        | write c v => simp [exec]
        | read cs =>
          simp only [exec]
          apply List.map_congr_left
          intro x hx
          exact h.view t x (mem_footprint_of_mem ha_mem (by simp [Act.reads, hx]))
      · simp [upd, e, h.outs t]

/-- the invariant holds after any schedule -/
theorem inv_run (m0 : Mem) (prog : Nat → List Act) (hnc : NoConflict prog) (sched : List Nat) :
    Inv m0 prog (run (init m0 prog) sched) := by
  unfold run
  generalize hs : init m0 prog = s
  have h : Inv m0 prog s := hs ▸ inv_init m0 prog
  clear hs
  induction sched generalizing s with
  | nil => exact h
  | cons t ts ih => exact ih _ (inv_step m0 prog hnc s h t)

/-- **Determinism**: under any interleaving, every thread that has finished obtained exactly the values it obtains
    when run alone from the initial memory — hence exactly the values of any sequential execution. -/
theorem interleaving_eq_solo (m0 : Mem) (prog : Nat → List Act) (hnc : NoConflict prog) (sched : List Nat) (t : Nat)
    (hfin : (run (init m0 prog) sched).rest t = []) :
    (run (init m0 prog) sched).out t = (solo m0 (prog t)).2 := by
  have h := inv_run m0 prog hnc sched
  have := h.split t
  rw [hfin, List.append_nil] at this
  rw [h.outs t, this]

/-- **Race freedom**: two accesses from different threads to the same cell are both reads. -/
theorem race_free (prog : Nat → List Act) (hnc : NoConflict prog) (t u : Nat) (htu : t ≠ u)
    (a b : Act) (ha : a ∈ prog t) (hb : b ∈ prog u) (x : Nat)
    (hxa : x ∈ a.reads ++ a.writes) (hxb : x ∈ b.reads ++ b.writes) : x ∉ a.writes ∧ x ∉ b.writes := by
  constructor
  · intro hw
    exact hnc u t (Ne.symm htu) x (List.mem_flatMap.mpr ⟨a, ha, hw⟩) (mem_footprint_of_mem hb hxb)
  · intro hw
    exact hnc t u htu x (List.mem_flatMap.mpr ⟨b, hb, hw⟩) (mem_footprint_of_mem ha hxa)

/-- distinct coordinates are distinct cells under an injective index function (C01), so writers on disjoint
    coordinate sets never conflict -/
theorem cells_disjoint_of_coords (idx : List Nat → Nat) (Box : List Nat → Prop)
    (hinj : ∀ c c', Box c → Box c' → idx c = idx c' → c = c')
    (A B : List (List Nat)) (hA : ∀ c ∈ A, Box c) (hB : ∀ c ∈ B, Box c) (hd : ∀ c ∈ A, c ∉ B) :
    ∀ x ∈ A.map idx, x ∉ B.map idx := by
  intro x hx hx'
  obtain ⟨c, hc, rfl⟩ := List.mem_map.mp hx
  obtain ⟨c', hc', e⟩ := List.mem_map.mp hx'
  have := hinj c' c (hB c' hc') (hA c hc) e
  subst this; exact hd _ hc hc'

end Covfie.C16
