import CovfieModel.Model.Stack
/-! # C16 (footprint part) — a lookup is a pure function of the storage cells in its footprint.
    The footprint of a lookup is the trace of the instrumented evaluator (the flat indices that reached the array).
    If two storages agree on the footprint, the lookup returns the same value with the same footprint — for every
    stack of layers. Together with `Covfie.C16.interleaving_eq_solo` (cell-level determinism under non-conflicting
    writes) this is what makes concurrent lookups deterministic: a writer that stays outside a reader's footprint
    cannot change what the reader obtains. -/
namespace Covfie.C16

/-- two storages of the same length agree on the cells listed in `t` -/
def AgreeOn (cs cs' : List (List Num)) (t : List Nat) : Prop :=
  cs.length = cs'.length ∧ ∀ i ∈ t, cs[i]? = cs'[i]?

theorem AgreeOn.mono {cs cs' : List (List Num)} {t t' : List Nat} (h : AgreeOn cs cs' t) (hs : ∀ i ∈ t', i ∈ t) :
    AgreeOn cs cs' t' := ⟨h.1, fun i hi => h.2 i (hs i hi)⟩

/-- `b'` reproduces every successful lookup of `b` whose footprint the two storages agree on -/
def Follows (cs cs' : List (List Num)) (b b' : Backend) : Prop :=
  ∀ c v t, b c = .ok (v, t) → AgreeOn cs cs' t → b' c = .ok (v, t)

theorem follows_array (cs cs' : List (List Num)) : Follows cs cs' (arrayB cs) (arrayB cs') := by
  intro c v t h ha
  unfold arrayB at h ⊢
  split at h <;> try (simp at h)
  rename_i q
  split at h
  · rename_i hq
    simp only [hq]
    cases hc : cs[q.num.toNat]? with
    | none => simp [hc] at h
    | some cell =>
      simp only [hc] at h
      injection h with h; injection h with h1 h2
      subst h1 h2
      have := ha.2 q.num.toNat (by simp)
      rw [hc] at this
      simp [← this, hq.2]
  · simp at h

theorem follows_const (cs cs' : List (List Num)) (b : Backend) : Follows cs cs' b b := fun _ _ _ h _ => h

theorem follows_clamp (cs cs') (lo hi : List Num) (b b' : Backend) (h : Follows cs cs' b b') :
    Follows cs cs' (clampL lo hi b) (clampL lo hi b') := fun _ v t hb ha => h _ v t hb ha
theorem follows_shuffle (cs cs') (p : List Nat) (b b' : Backend) (h : Follows cs cs' b b') :
    Follows cs cs' (shuffleL p b) (shuffleL p b') := fun _ v t hb ha => h _ v t hb ha
theorem follows_deref (cs cs') (b b' : Backend) (h : Follows cs cs' b b') :
    Follows cs cs' (derefL b) (derefL b') := fun _ v t hb ha => h _ v t hb ha

theorem follows_backup (cs cs') (lo hi df : List Num) (b b' : Backend) (h : Follows cs cs' b b') :
    Follows cs cs' (backupL lo hi df b) (backupL lo hi df b') := by
  intro c v t hb ha
  unfold backupL at hb ⊢
  split
  · rename_i ho; simpa [ho] using hb
  · rename_i ho; simp only [ho] at hb; exact h _ v t hb ha

theorem follows_cast (cs cs') (cv : Conv) (b b' : Backend) (h : Follows cs cs' b b') :
    Follows cs cs' (castL cv b) (castL cv b') := by
  intro c v t hb ha
  unfold castL at hb ⊢
  cases hbc : b c with
  | error e => simp [hbc] at hb
  | ok r =>
    obtain ⟨v0, t0⟩ := r
    simp only [hbc] at hb
    cases hm : mapE cv v0 with
    | error e => simp [hm] at hb
    | ok w =>
      simp only [hm] at hb
      injection hb with hb; injection hb with h1 h2
      subst h1 h2
      rw [h c v0 t0 hbc ha]; simp [hm]

theorem follows_affine (cs cs') (m : List (List Rat)) (b b' : Backend) (h : Follows cs cs' b b') :
    Follows cs cs' (affineL m b) (affineL m b') := by
  intro c v t hb ha
  unfold affineL at hb ⊢
  cases hx : mapO finOf c with
  | none => simp [hx] at hb
  | some x => simp only [hx] at hb ⊢; exact h _ v t hb ha

theorem follows_nn (cs cs') (b b' : Backend) (h : Follows cs cs' b b') : Follows cs cs' (nnL b) (nnL b') := by
  intro c v t hb ha
  unfold nnL at hb ⊢
  cases hx : mapE lrintIdx c with
  | error e => simp [hx] at hb
  | ok nc => simp only [hx] at hb ⊢; exact h _ v t hb ha

theorem follows_layout (cs cs') (idx : List Nat → Nat) (b b' : Backend) (h : Follows cs cs' b b') :
    Follows cs cs' (layoutL idx b) (layoutL idx b') := by
  intro c v t hb ha
  unfold layoutL at hb ⊢
  cases hx : mapE natOf c with
  | error e => simp [hx] at hb
  | ok nc => simp only [hx] at hb ⊢; exact h _ v t hb ha

theorem mapE_follow {α β ε} (f g : α → Except ε β) (l : List α) (rs : List β) (hf : mapE f l = .ok rs)
    (P : β → Prop) (hP : ∀ r ∈ rs, P r) (hg : ∀ a ∈ l, ∀ r, f a = .ok r → P r → g a = .ok r) :
    mapE g l = .ok rs := by
  induction l generalizing rs with
  | nil => simpa [mapE] using hf
  | cons a as ih =>
    simp only [mapE] at hf ⊢
    cases hfa : f a with
    | error e => simp [hfa] at hf
    | ok r =>
      simp only [hfa] at hf
      cases hm : mapE f as with
      | error e => simp [hm] at hf
      | ok rs' =>
        simp only [hm] at hf
        injection hf with hf; subst hf
        rw [hg a List.mem_cons_self r hfa (hP r List.mem_cons_self),
            ih rs' hm (fun x hx => hP x (List.mem_cons_of_mem _ hx)) (fun x hx => hg x (List.mem_cons_of_mem _ hx))]

theorem follows_linear (cs cs') (b b' : Backend) (h : Follows cs cs' b b') :
    Follows cs cs' (linearL b) (linearL b') := by
  intro c v t hb ha
  unfold linearL at hb ⊢
  cases hp : mapE truncIdx c with
  | error e => simp [hp] at hb
  | ok parts =>
    simp only [hp] at hb ⊢
    cases hm : mapE (cornerQuery b (parts.map (·.1))) (corners c.length) with
    | error e => simp [hm] at hb
    | ok rs =>
      simp only [hm] at hb
      injection hb with hb; injection hb with h1 h2
      have key : mapE (cornerQuery b' (parts.map (·.1))) (corners c.length) = .ok rs := by
        apply mapE_follow _ _ _ rs hm (fun r => ∀ i ∈ r.2.2, i ∈ t)
        · intro r hr i hi; rw [← h2]; exact List.mem_flatMap.mpr ⟨r, hr, hi⟩
        · intro bs _ r hr hsub
          unfold cornerQuery at hr ⊢
          cases hq : b (addBits (parts.map (·.1)) bs) with
          | error e => simp [hq] at hr
          | ok q =>
            obtain ⟨v0, t0⟩ := q
            simp only [hq] at hr
            injection hr with hr; subst hr
            rw [h _ v0 t0 hq (ha.mono hsub)]
      rw [key]
      subst h1 h2
      rfl

/-- replace the stored cells at the bottom of a stack's data -/
def withCells : Data → List (List Num) → Data
  | .array _, cs => .array cs
  | .sized sz d, cs => .sized sz (withCells d cs)
  | .box lo hi d, cs => .box lo hi (withCells d cs)
  | .boxd lo hi df d, cs => .boxd lo hi df (withCells d cs)
  | .aff m d, cs => .aff m (withCells d cs)
  | .thin d, cs => .thin (withCells d cs)
  | d, _ => d

/-- **a lookup is a function of the cells in its footprint** — every stack, every coordinate -/
theorem eval_follows (cv : Conv) (s : Stack) (d : Data) (cs cs' : List (List Num)) :
    Follows cs cs' (eval cv s (withCells d cs)) (eval cv s (withCells d cs')) := by
  induction s generalizing d with
  | array => cases d <;> simp only [withCells, eval] <;> first | exact follows_array cs cs' | exact follows_const cs cs' _
  | constant => cases d <;> simp only [withCells, eval] <;> exact follows_const cs cs' _
  | identity => cases d <;> simp only [withCells, eval] <;> exact follows_const cs cs' _
  | strided w b ih => cases d <;> simp only [withCells, eval] <;> first | exact follows_layout _ _ _ _ _ (ih _) | exact follows_const cs cs' _
  | mortonT b ih => cases d <;> simp only [withCells, eval] <;> first | exact follows_layout _ _ _ _ _ (ih _) | exact follows_const cs cs' _
  | mortonF b ih => cases d <;> simp only [withCells, eval] <;> first | exact follows_layout _ _ _ _ _ (ih _) | exact follows_const cs cs' _
  | hilbert b ih => cases d <;> simp only [withCells, eval] <;> first | exact follows_layout _ _ _ _ _ (ih _) | exact follows_const cs cs' _
  | clamp b ih => cases d <;> simp only [withCells, eval] <;> first | exact follows_clamp _ _ _ _ _ _ (ih _) | exact follows_const cs cs' _
  | backup b ih => cases d <;> simp only [withCells, eval] <;> first | exact follows_backup _ _ _ _ _ _ _ (ih _) | exact follows_const cs cs' _
  | affine b ih => cases d <;> simp only [withCells, eval] <;> first | exact follows_affine _ _ _ _ _ (ih _) | exact follows_const cs cs' _
  | shuffle p b ih => cases d <;> simp only [withCells, eval] <;> first | exact follows_shuffle _ _ _ _ _ (ih _) | exact follows_const cs cs' _
  | cast b ih => cases d <;> simp only [withCells, eval] <;> first | exact follows_cast _ _ _ _ _ (ih _) | exact follows_const cs cs' _
  | deref b ih => cases d <;> simp only [withCells, eval] <;> first | exact follows_deref _ _ _ _ (ih _) | exact follows_const cs cs' _
  | nn b ih => cases d <;> simp only [withCells, eval] <;> first | exact follows_nn _ _ _ _ (ih _) | exact follows_const cs cs' _
  | linear b ih => cases d <;> simp only [withCells, eval] <;> first | exact follows_linear _ _ _ _ (ih _) | exact follows_const cs cs' _

/-- corollary in the words of the property: a view write to a cell outside a lookup's footprint does not change
    what the lookup returns -/
theorem write_outside_footprint (cv : Conv) (s : Stack) (d : Data) (cs : List (List Num)) (c : List Num)
    (v : List Num) (t : List Nat) (h : eval cv s (withCells d cs) c = .ok (v, t))
    (j : Nat) (x : List Num) (hj : j ∉ t) :
    eval cv s (withCells d (cs.set j x)) c = .ok (v, t) := by
  apply eval_follows cv s d cs (cs.set j x) c v t h
  refine ⟨by simp, ?_⟩
  intro i hi
  have : j ≠ i := fun e => hj (e ▸ hi)
  simp [this]

end Covfie.C16
