import CovfieModel.Model.Config
/-! # C17 — A field's configuration can be read back and used to rebuild it -/
namespace Covfie.C17
open Covfie.Config

theorem construct_some (c : Cfg) (cs : List Cfg) : ∃ o, construct (c :: cs) = some o := by
  induction cs generalizing c with
  | nil => exact ⟨_, rfl⟩
  | cons c' cs ih => obtain ⟨o, ho⟩ := ih c'; exact ⟨.layer c o, by simp [construct, ho]⟩

/-- the configuration reported by layer `i` (counted from the outside, reached by `i` applications of
    `get_backend`) is the `i`-th element of the parameter pack the field was constructed with -/
theorem config_readback (p : List Cfg) (o : Own) (h : construct p = some o) (i : Nat) (hi : i < p.length) :
    (nthLayer o i).map getConfig = p[i]? := by
  induction p generalizing o i with
  | nil => simp at hi
  | cons c cs ih =>
    cases cs with
    | nil =>
      simp [construct] at h; subst h
      have : i = 0 := by simp at hi; omega
      subst this; simp [nthLayer, getConfig]
    | cons c' cs' =>
      simp only [construct, Option.map_eq_some_iff] at h
      obtain ⟨b, hb, rfl⟩ := h
      cases i with
      | zero => simp [nthLayer, getConfig]
      | succ i =>
        simp only [nthLayer, getBackend, Option.bind_some, List.getElem?_cons_succ]
        exact ih b hb i (by simpa using hi)

/-- the reported configurations are the construction pack, in order … -/
theorem configs_construct (p : List Cfg) (o : Own) (h : construct p = some o) : configs o = p := by
  induction p generalizing o with
  | nil => simp [construct] at h
  | cons c cs ih =>
    cases cs with
    | nil => simp [construct] at h; subst h; rfl
    | cons c' cs' =>
      simp only [construct, Option.map_eq_some_iff] at h
      obtain ⟨b, hb, rfl⟩ := h
      simp [configs, ih b hb]

/-- … and a field rebuilt from the reported configurations is the original -/
theorem rebuild_eq (o : Own) : construct (configs o) = some o := by
  induction o with
  | prim c => rfl
  | layer c b ih =>
    cases hb : configs b with
    | nil => cases b <;> simp [configs] at hb
    | cons c' cs => simp only [configs, hb, construct]; rw [← hb, ih]; rfl

/-- the positional helper assigns its i-th argument to the i-th layer counted from the outside, for every depth -/
theorem packFor_positional (args : List Cfg) : packFor args = args := by
  induction args with
  | nil => rfl
  | cons a as ih => simp [packFor, ih]

/-- hence constructing through the helper reports argument `i` at layer `i` -/
theorem packFor_readback (args : List Cfg) (o : Own) (h : construct (packFor args) = some o) (i : Nat)
    (hi : i < args.length) : (nthLayer o i).map getConfig = args[i]? := by
  rw [packFor_positional] at h; exact config_readback args o h i hi

example : (construct [⟨1, [3, 4]⟩, ⟨1, [5, 6]⟩, ⟨2, []⟩, ⟨3, [12]⟩]).map (fun o => (nthLayer o 1).map getConfig) =
    some (some ⟨1, [5, 6]⟩) := by decide
end Covfie.C17
