import CovfieModel.Lemmas.Numeric
/-! # C18 — Power-of-two rounding and integer power are exact (every unsigned width w) -/
namespace Covfie.C18

/-- `round_pow2` returns the least power of two not below `i`, for every `1 ≤ i ≤ 2^(w-1)` (also for `i = 0`, giving 1). -/
theorem roundPow2_spec (w i : Nat) (hw : 1 ≤ w) (hi : i ≤ 2^(w-1)) :
    ∃ r, roundPow2 w i = some (2^r) ∧ i ≤ 2^r ∧ ∀ m, i ≤ 2^m → 2^r ≤ 2^m := by
  obtain ⟨r, e, h1, h2, _⟩ := roundPow2_spec' w i hw hi
  exact ⟨r, e, h1, fun m hm => Nat.pow_le_pow_right (by omega) (h2 m hm)⟩

/-- Domain note (termination as a finding): for `2^(w-1) < i` the doubling wraps to 0 and the loop never terminates. -/
theorem roundPow2_diverges (w i : Nat) (hw : 1 ≤ w) (hi : 2^(w-1) < i) (fuel : Nat) :
    rp2Loop w i fuel (1 % 2^w) = none := by
  have h1 : 1 % 2^w = 2^0 := by
    rw [Nat.pow_zero]; apply Nat.mod_eq_of_lt; exact Nat.one_lt_two_pow (by omega)
  rw [h1]; exact rp2Loop_diverges w i hw hi fuel 0 (by omega)

/-- `ipow` returns `b^e` modulo `2^w`, for all `b` and `e`. -/
theorem ipow_spec (w b e : Nat) : ipow w b e = b^e % 2^w := by
  have h := ipowLoop_spec w (e+1) (1 % 2^w) b e (by omega)
  have hlt : ipow w b e < 2^w := ipowLoop_lt w (e+1) _ b e (Nat.mod_lt _ (Nat.two_pow_pos w))
  unfold ipow at *
  rw [Nat.mod_eq_of_lt hlt] at h
  rw [h, mm]; simp

example : roundPow2 8 128 = some 128 ∧ roundPow2 8 100 = some 128 ∧ roundPow2 8 129 = none := by decide
example : ipow 8 3 5 = 243 ∧ ipow 8 2 8 = 0 ∧ ipow 16 7 9 = 7^9 % 65536 := by decide
end Covfie.C18
