import CovfieModel.Lemmas.NdMap
/-! # C19 — N-dimensional iteration visits every index exactly once -/
namespace Covfie.C19

/-- the callback receives a tuple iff it lies inside the box (and no other tuple) … -/
theorem visits_exactly_box (sz t : List Nat) : t ∈ ndMap sz ↔ InBox sz t := mem_ndMap sz t
/-- … and receives it exactly once, for every dimensionality and every extent vector (0 and 1 included). -/
theorem visits_once (sz : List Nat) : (ndMap sz).Nodup := ndMap_nodup sz
theorem visit_count (sz : List Nat) : (ndMap sz).length = prodL sz := ndMap_length sz

example : ndMap [2, 0, 3] = [] ∧ (ndMap [2, 1, 3]).length = 6 ∧ ndMap [2, 2] = [[0,0],[0,1],[1,0],[1,1]] := by decide
example : InBox [5, 7, 2] [4, 6, 1] ∧ ¬ InBox [5, 7, 2] [5, 0, 0] := by decide
end Covfie.C19
