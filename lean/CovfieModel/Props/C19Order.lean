import CovfieModel.Lemmas.NdMap
import CovfieModel.Lemmas.Strided
/-! # C19 — the order of the (sequential) visit

`nd_map` calls back in row-major order: the `k`-th tuple it hands to the callback is the tuple whose row-major (strided)
index is `k` (`visit_order`).  Consequences: the visit is strictly increasing in the row-major index, the tuple visited at
position `k` is determined by `k` alone, and the copy loops of the layout conversions (`make_strided_copy` writes
`res[stridedIdx t]` for every visited `t`) fill the cells `0, 1, …, Π sz − 1` one after the other, each exactly once. -/
namespace Covfie.C19
open Covfie

theorem flatMap_range_block (n P : Nat) :
    (List.range n).flatMap (fun i => (List.range P).map (fun j => i * P + j)) = List.range (n * P) := by
  induction n with
  | zero => simp
  | succ n ih =>
    rw [List.range_succ, List.flatMap_append, ih, Nat.succ_mul, List.range_add]
    simp

/-- **row-major order**: mapping the visited tuples to their strided index gives `0, 1, …, Π sz − 1` -/
theorem visit_order (sz : List Nat) : (ndMap sz).map (stridedIdx sz) = List.range (prod sz) := by
  induction sz with
  | nil => rfl
  | cons n ns ih =>
    simp only [ndMap, prod, List.map_flatMap, List.map_map]
    have : ∀ i, (ndMap ns).map (stridedIdx (n :: ns) ∘ (i :: ·)) = (List.range (prod ns)).map (fun j => i * prod ns + j) := by
      intro i
      rw [← ih, List.map_map]
      rfl
    simp only [this]
    exact flatMap_range_block n (prod ns)

/-- the number of visits, in terms of the layout's cell count -/
theorem visit_count' (sz : List Nat) : (ndMap sz).length = prod sz := by
  have := congrArg List.length (visit_order sz)
  simpa using this

/-- the `k`-th visited tuple has row-major index `k` -/
theorem kth_visit (sz : List Nat) (k : Nat) (hk : k < (ndMap sz).length) : stridedIdx sz ((ndMap sz)[k]) = k := by
  have h := congrArg (fun l => l[k]?) (visit_order sz)
  have hk2 : k < prod sz := by rw [← visit_count']; exact hk
  simp only [List.getElem?_map, List.getElem?_eq_getElem hk, Option.map_some, List.getElem?_range hk2] at h
  exact Option.some.inj h

/-- the visit is strictly increasing in the row-major index (so: lexicographic, last component fastest) -/
theorem visit_increasing (sz : List Nat) : ((ndMap sz).map (stridedIdx sz)).Pairwise (· < ·) := by
  rw [visit_order]
  exact List.pairwise_lt_range

/-- a conversion loop `for t in nd_map(sz): res[stridedIdx sz t] := v t` writes cell `k` with the value of the `k`-th tuple:
    the array it leaves is the list of values in visiting order -/
theorem copy_loop_fills_in_order {α : Type} (sz : List Nat) (v : List Nat → α) (k : Nat) (hk : k < prod sz) :
    ∃ t, t ∈ ndMap sz ∧ stridedIdx sz t = k ∧ ((ndMap sz).map v)[k]? = some (v t) := by
  have hk' : k < (ndMap sz).length := by rw [visit_count']; exact hk
  refine ⟨(ndMap sz)[k], List.getElem_mem hk', kth_visit sz k hk', ?_⟩
  simp [hk']

example : (ndMap [2, 3]).map (stridedIdx [2, 3]) = [0, 1, 2, 3, 4, 5] := by decide
end Covfie.C19
