import CovfieModel.Lemmas.Perm
/-! # C20 — Compile-time sort and permutation test are correct for all index sequences -/
namespace Covfie.C20

/-- Sorting yields a rearrangement of the same multiset … -/
theorem sortSeq_perm (l : List Nat) : (sortSeq l).Perm l := sortFuel_perm _ _ (Nat.le_refl _)

/-- … in ascending order. -/
theorem sortSeq_sorted (l : List Nat) : (sortSeq l).Pairwise (· ≤ ·) := sortFuel_sorted _ _ (Nat.le_refl _)

/-- The permutation predicate is true exactly when the two sequences are equal as multisets. -/
theorem isPerm_iff (a b : List Nat) : isPerm a b = true ↔ a.Perm b := by
  unfold isPerm
  constructor
  · intro h
    have h : sortSeq a = sortSeq b := by simpa using h
    exact (sortSeq_perm a).symm.trans (h ▸ sortSeq_perm b)
  · intro h
    have hp : (sortSeq a).Perm (sortSeq b) := (sortSeq_perm a).trans (h.trans (sortSeq_perm b).symm)
    have := List.Perm.eq_of_pairwise (le := (· ≤ ·)) (fun a b _ _ h1 h2 => Nat.le_antisymm h1 h2)
      (sortSeq_sorted a) (sortSeq_sorted b) hp
    simp [this]

/-- non-vacuity: a concrete unsorted sequence with duplicates -/
example : sortSeq [3, 1, 4, 1, 5, 9, 2, 6] = [1, 1, 2, 3, 4, 5, 6, 9] := by decide
example : isPerm [2, 0, 2, 1] [1, 2, 2, 0] = true ∧ isPerm [2, 0, 2, 1] [1, 2, 0, 0] = false := by decide

end Covfie.C20
