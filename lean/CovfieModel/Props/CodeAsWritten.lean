import CovfieModel.Props.Translated
import CovfieModel.Props.TranslatedHilbert
import CovfieModel.Props.TranslatedAlg
import CovfieModel.Props.C18
import CovfieModel.Props.C14
import CovfieModel.Props.C09
import CovfieModel.Lemmas.NdMap
/-! # Properties of the kernels *as they are written in the source*

Each statement below composes a translation theorem (`*_translated`: the term the kernel translator produces from the C++
text, executed, is the model function) with the property theorem about the model function. What results speaks about the
execution of the code text under the semantics `Covfie.Imp.exec` / `Covfie.RImp.exec`, for every input. -/
namespace Covfie.Code
open Covfie.Imp

/-- C18: `round_pow2` as written returns the least power of two not below `i`, for every width and every `i ≤ 2^(w-1)`. -/
theorem round_pow2_least (w i r0 j0 : Nat) (hw : 1 ≤ w) (hi : i ≤ 2^(w-1)) :
    ∃ r, exec w (w+1) Ref.round_pow2 ⟨[i, r0, j0], []⟩ = some ⟨[i, 2^r, 2^r], []⟩ ∧ i ≤ 2^r ∧ ∀ m, i ≤ 2^m → 2^r ≤ 2^m := by
  obtain ⟨r, e, h1, h2⟩ := Covfie.C18.roundPow2_spec w i hw hi
  exact ⟨r, by rw [round_pow2_translated w i r0 j0 (by omega), e]; rfl, h1, h2⟩

/-- C18: beyond that domain the loop as written never terminates, whatever the fuel (the model's loop diverges and the
translated loop is the model's). -/
theorem round_pow2_diverges (w i r0 j0 : Nat) (hw : 1 ≤ w) (hi : 2^(w-1) < i) :
    exec w (w+1) Ref.round_pow2 ⟨[i, r0, j0], []⟩ = none := by
  rw [round_pow2_translated w i r0 j0 (by omega)]
  have := Covfie.C18.roundPow2_diverges w i hw hi (w + 1)
  simp only [roundPow2, this, Option.map_none]

/-- C18: `ipow` as written returns `b^e mod 2^w`. -/
theorem ipow_exact (w b e r0 q0 : Nat) (hw : 0 < w) (he : e < 2^w) :
    ∃ env', exec w (e+1) Ref.ipow ⟨[b, e, r0, q0], []⟩ = some env' ∧ env'.sc.getD 2 0 = b^e % 2^w := by
  obtain ⟨env', h1, h2⟩ := ipow_translated w b e r0 q0 hw he
  exact ⟨env', h1, by rw [h2, Covfie.C18.ipow_spec]⟩

/-- C14: the row-major loop as written hands the published position `Σ c_k Π_{l>k} N_l` to the backend whenever the cell
count fits the coordinate type. -/
theorem strided_position (w F : Nat) (c sizes : List Nat) (hbox : InBox sizes c) (hfit : prod sizes ≤ 2^w)
    (hlen : sizes.length < 2^64) (hF : sizes.length < F) (r0 i0 k0 t0 l0 : Nat) :
    ∃ env', exec w F Ref.strided_index ⟨[sizes.length, r0, i0, k0, t0, l0], [c, sizes]⟩ = some env'
      ∧ env'.sc.getD 1 0 = stridedIdx sizes c := by
  obtain ⟨env', h1, h2⟩ := strided_index_translated w F c sizes (InBox_length sizes c hbox).symm hlen hF r0 i0 k0 t0 l0
  exact ⟨env', h1, by rw [h2, Covfie.C14.strided_code_eq_closed_form w sizes c hbox hfit]⟩

/-- C14: bit `p` of the portable Morton index as written is bit `p / N` of coordinate `p mod N` (first coordinate least
significant). -/
theorem morton_bits (F : Nat) (c : List Nat) (hN : 0 < c.length) (hF : 64 < F) (r0 x0 i0 j0 p : Nat) :
    ∃ env', exec 64 F Ref.morton_index ⟨[c.length, 64, r0, x0, i0, j0], [c]⟩ = some env'
      ∧ (env'.sc.getD 2 0).testBit p = (decide (p / c.length < 64 / c.length) && (c.getD (p % c.length) 0).testBit (p / c.length)) := by
  obtain ⟨env', h1, h2⟩ := morton_index_translated F c hN hF r0 x0 i0 j0
  exact ⟨env', h1, by rw [h2, Covfie.C14.morton_bit_interleave c hN p]⟩

/-- C14: the Hilbert index as written is the recursive Hilbert curve of the enclosing 2^k square (which visits every cell
once, starts at the origin and moves to an edge-adjacent cell at every step: `Covfie.C14.hilbert_*`). -/
theorem hilbert_curve (sx sy x y k : Nat) (hmax : max sx sy ≤ 2^32) (hk : hilN sx sy = 2^k) (hx : x < 2^k) (hy : y < 2^k)
    (r0 rx0 ry0 s0 d0 x0 y0 n0 t0 : Nat) :
    ∃ env', exec 64 65 Ref.hilbert_index ⟨[r0, rx0, ry0, s0, d0, x0, y0, n0, t0], [[x, y], [sx, sy]]⟩ = some env'
      ∧ env'.sc.getD 0 0 = hilR k x y := by
  obtain ⟨env', h1, h2⟩ := hilbert_index_translated sx sy x y hmax (by rw [hk]; exact hx) (by rw [hk]; exact hy)
    r0 rx0 ry0 s0 d0 x0 y0 n0 t0
  have hk63 : k ≤ 63 := by
    obtain ⟨k', e, _, _, h63, _⟩ := hilN_spec sx sy (Nat.le_trans hmax (Nat.pow_le_pow_right (by omega) (by omega)))
    rw [hk] at e
    have := Nat.pow_right_injective (Nat.le_refl 2) e
    omega
  exact ⟨env', h1, by rw [h2, Covfie.C14.hilbert_code_eq_curve sx sy x y k hk hk63 hx hy]⟩

end Covfie.Code

namespace Covfie.Code
open Covfie.RImp

/-- C09: `affine::operator*(vector)` as written computes `A·v + t` (over any commutative ring; in floating point, the same sum
with a rounding after every operation: `Covfie.C09.affApply_round`). -/
theorem affine_apply_is_Ax_plus_t {α : Type} [CommRing α] {N : Nat} (A : Fin N → Fin (N+1) → α) (v : Fin N → α)
    (r0 res0 : List Nat → α) (F : Nat) (hN : N + 1 < 2^64) (hF : N + 1 < F) (m0 p0 i0 j0 k0 c0 : Nat) (t0 : α) :
    ∃ env' : Env α, exec F Ref.affine_apply ⟨[N, m0, p0, i0, j0, k0, c0], [t0], [ofMat A, r0, res0, ofVec v]⟩ = some env'
      ∧ ∀ i : Fin N, (env'.arr.getD 2 (fun _ => 0)) [i.val, 0] = (∑ k : Fin N, A i (Fin.castSucc k) * v k) + A i (Fin.last N) := by
  obtain ⟨env', h1, h2⟩ := affine_apply_translated_model A v r0 res0 F hN hF m0 p0 i0 j0 k0 c0 t0
  exact ⟨env', h1, fun i => by rw [h2 i, Covfie.C09.affApply_spec]⟩

end Covfie.Code
