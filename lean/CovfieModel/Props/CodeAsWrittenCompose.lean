import CovfieModel.Props.CodeAsWritten
import CovfieModel.Props.TranslatedCompose
namespace Covfie.Code
open Covfie.RImp

/-- C09: `affine::operator*(affine)` as written produces a transform that acts as the composition: applying the product to `v`
is applying `Q`, then `P` (over any commutative ring). -/
theorem affine_compose_is_function_composition {α : Type} [CommRing α] {N : Nat} (P Q : Fin N → Fin (N+1) → α)
    (m1 m2 r o : List Nat → α) (F : Nat) (hN : N + 1 < 2^64) (hF : N + 1 < F) (x0 x1 x2 x3 x4 x5 i0 j0 : Nat) (t0 : α) :
    ∃ env' : Env α, exec F Ref.affine_compose ⟨[x0, x1, x2, x3, x4, x5, N, i0, j0], [t0], [m1, m2, r, ofMat P, ofMat Q, o]⟩ = some env'
      ∧ ∀ (v : Fin N → α) (i : Fin N),
          affApply (fun i j => (env'.arr.getD 5 (fun _ => 0)) [i.val, j.val]) v i = affApply P (affApply Q v) i := by
  obtain ⟨env', h1, h2⟩ := affine_compose_translated_model P Q m1 m2 r o F hN hF x0 x1 x2 x3 x4 x5 i0 j0 t0
  refine ⟨env', h1, fun v i => ?_⟩
  have : (fun (i : Fin N) (j : Fin (N+1)) => (env'.arr.getD 5 (fun _ => 0)) [i.val, j.val]) = affMul P Q := by
    funext i j; exact h2 i j
  rw [this, Covfie.C09.affMul_apply]
end Covfie.Code
