import CovfieModel.Props.TranslatedIO
import CovfieModel.Props.TranslatedArrIO
import CovfieModel.Props.C06
import CovfieModel.Props.C08
/-! C06 / C08 for a field over the array layer, stated about the statements of `field::dump`, `field(std::istream&)`,
`array::write_binary`, `array::read_binary` as they are written (scripts recognised by `harness/cxx2io.py`). -/
namespace Covfie.Code
open Covfie.IO

/-- the reader as written: the field's script around the array's script -/
def readArrayField (M : Nat) : Parser Dat :=
  bindP (rdS Ref.field.tag Ref.field.read [] (ard M ARef.read 0 0 [])) fun r =>
    match r with
    | ([], some d) => pureP d
    | _ => failP .truncated

/-- the writer as written -/
def writeArrayField (M wd count : Nat) (cells : List Nat) : List Byte :=
  wr Ref.field.tag Ref.field.write [] (awr M wd count cells ARef.write)

theorem readArrayField_eq (M : Nat) : readArrayField M = load (.array M) := by
  rw [load_field, load_array M 0 0 []]; rfl

theorem writeArrayField_eq (M wd count : Nat) (cells : List Nat) (h : cells.length = count * M) :
    writeArrayField M wd count cells = dump (.array M) (.array wd count cells) := by
  rw [dump_field, dump_array M wd count cells h]; rfl

/-- C06 (code as written, field over an array): what the reader's statements return on the bytes the writer's statements
produce — followed by anything — is the stored content, bit for bit, and the rest of the stream is left untouched. -/
theorem array_field_roundtrip (M wd count : Nat) (cells rest : List Nat)
    (h : WF (.array M) (.array wd count cells)) :
    readArrayField M (writeArrayField M wd count cells ++ rest) = .ok (.array wd count cells, rest) := by
  rw [readArrayField_eq, writeArrayField_eq M wd count cells h.2.2.1]
  exact Covfie.C06.load_dump _ _ rest h

/-- C08 (code as written, field over an array): the reader's statements reject every proper prefix of what the writer's
statements produce. -/
theorem array_field_prefix_rejected (M wd count : Nat) (cells : List Nat)
    (h : WF (.array M) (.array wd count cells)) (n : Nat) (hn : n < (writeArrayField M wd count cells).length) :
    ∀ a r, readArrayField M ((writeArrayField M wd count cells).take n) ≠ .ok (a, r) := by
  rw [readArrayField_eq, writeArrayField_eq M wd count cells h.2.2.1] at *
  exact Covfie.C08.load_prefix_rejects _ _ h n hn

example : WF (.array 2) (.array 4 2 [1, 2, 3, 4]) := by
  refine ⟨Or.inl rfl, by decide, rfl, ?_⟩
  intro x hx; simp at hx; rcases hx with rfl | rfl | rfl | rfl <;> decide
end Covfie.Code
