import CovfieModel.Props.CodeAsWritten
import CovfieModel.Props.TranslatedStridedCopy
import CovfieModel.Props.C01
/-! C01 / C05 for the kernels as written: distinct in-range coordinates get distinct in-range flat positions, and a conversion
to row-major writes where the row-major lookup reads. -/
namespace Covfie.Code
open Covfie.Imp

/-- C01 (row-major, code as written): the flat position is inside the storage, and two in-range coordinates that are sent to the
same position are equal — whenever the cell count fits the coordinate type. -/
theorem strided_in_storage_no_alias (w F : Nat) (sizes c c' : List Nat) (hb : InBox sizes c) (hb' : InBox sizes c')
    (hfit : prod sizes ≤ 2^w) (hlen : sizes.length < 2^64) (hF : sizes.length < F) (r0 i0 k0 t0 l0 : Nat) :
    ∃ e e', exec w F Ref.strided_index ⟨[sizes.length, r0, i0, k0, t0, l0], [c, sizes]⟩ = some e
      ∧ exec w F Ref.strided_index ⟨[sizes.length, r0, i0, k0, t0, l0], [c', sizes]⟩ = some e'
      ∧ e.sc.getD 1 0 < prod sizes ∧ (e.sc.getD 1 0 = e'.sc.getD 1 0 → c = c') := by
  obtain ⟨e, h1, h2⟩ := strided_position w F c sizes hb hfit hlen hF r0 i0 k0 t0 l0
  obtain ⟨e', h1', h2'⟩ := strided_position w F c' sizes hb' hfit hlen hF r0 i0 k0 t0 l0
  refine ⟨e, e', h1, h1', ?_, ?_⟩
  · rw [h2]; exact Covfie.C01.strided_in_storage sizes c hb
  · intro heq; rw [h2, h2'] at heq; exact Covfie.C01.strided_no_alias sizes c c' hb hb' heq

/-- C05 (code as written): the position `make_strided_copy` writes lattice point `t` to is the position `strided::at` reads
coordinate `t` from. -/
theorem strided_conversion_writes_where_lookup_reads (w F : Nat) (hw : w ≤ 64) (sizes t : List Nat) (hN : sizes.length = t.length)
    (hlen : sizes.length < 2^64) (hF : sizes.length < F) (a0 a1 a2 a3 : Nat) (r0 i0 k0 t0 l0 : Nat) :
    ∃ e e', exec w F Ref.strided_copy_index ⟨[sizes.length, a0, a1, a2, a3], [t, sizes]⟩ = some e
      ∧ exec w F Ref.strided_index ⟨[sizes.length, r0, i0, k0, t0, l0], [t, sizes]⟩ = some e'
      ∧ e.sc.getD 1 0 = e'.sc.getD 1 0 := by
  obtain ⟨e, h1, h2⟩ := strided_copy_index_translated w F hw t sizes hN hlen hF a0 a1 a2 a3
  obtain ⟨e', h1', h2'⟩ := strided_index_translated w F t sizes hN hlen hF r0 i0 k0 t0 l0
  exact ⟨e, e', h1, h1', by rw [h2, h2']⟩

/-- C01 (portable Morton, code as written): two in-range coordinates with the same flat position are equal. -/
theorem morton_no_alias (F : Nat) (sizes c c' : List Nat) (hb : InBox sizes c) (hb' : InBox sizes c') (hN : 0 < sizes.length)
    (hk : ∀ s ∈ sizes, s ≤ 2^(64 / sizes.length)) (hF : 64 < F) (r0 x0 i0 j0 : Nat) :
    ∃ e e', exec 64 F Ref.morton_index ⟨[c.length, 64, r0, x0, i0, j0], [c]⟩ = some e
      ∧ exec 64 F Ref.morton_index ⟨[c'.length, 64, r0, x0, i0, j0], [c']⟩ = some e'
      ∧ (e.sc.getD 2 0 = e'.sc.getD 2 0 → c = c') := by
  have hl := InBox_length sizes c hb
  have hl' := InBox_length sizes c' hb'
  obtain ⟨e, h1, h2⟩ := morton_index_translated F c (by omega) hF r0 x0 i0 j0
  obtain ⟨e', h1', h2'⟩ := morton_index_translated F c' (by omega) hF r0 x0 i0 j0
  exact ⟨e, e', h1, h1', fun heq => by rw [h2, h2'] at heq; exact Covfie.C01.morton_no_alias sizes c c' hb hb' hN hk heq⟩

/-- C01 (Hilbert, code as written): an in-range cell's position is inside the `4^k` cells of the enclosing square, and two in-range
cells with the same position are the same cell. -/
theorem hilbert_in_storage_no_alias (sx sy x y x' y' k : Nat) (hmax : max sx sy ≤ 2^32) (hk : hilN sx sy = 2^k)
    (hsx : sx ≤ 2^k) (hsy : sy ≤ 2^k) (hx : x < sx) (hy : y < sy) (hx' : x' < sx) (hy' : y' < sy)
    (r0 rx0 ry0 s0 d0 x0 y0 n0 t0 : Nat) :
    ∃ e e', exec 64 65 Ref.hilbert_index ⟨[r0, rx0, ry0, s0, d0, x0, y0, n0, t0], [[x, y], [sx, sy]]⟩ = some e
      ∧ exec 64 65 Ref.hilbert_index ⟨[r0, rx0, ry0, s0, d0, x0, y0, n0, t0], [[x', y'], [sx, sy]]⟩ = some e'
      ∧ e.sc.getD 0 0 < 4^k ∧ (e.sc.getD 0 0 = e'.sc.getD 0 0 → x = x' ∧ y = y') := by
  have hk63 : k ≤ 63 := by
    obtain ⟨k', e, _, _, h63, _⟩ := hilN_spec sx sy (Nat.le_trans hmax (Nat.pow_le_pow_right (by omega) (by omega)))
    rw [hk] at e
    have := Nat.pow_right_injective (Nat.le_refl 2) e
    omega
  obtain ⟨e, h1, h2⟩ := hilbert_index_translated sx sy x y hmax (by rw [hk]; omega) (by rw [hk]; omega) r0 rx0 ry0 s0 d0 x0 y0 n0 t0
  obtain ⟨e', h1', h2'⟩ := hilbert_index_translated sx sy x' y' hmax (by rw [hk]; omega) (by rw [hk]; omega) r0 rx0 ry0 s0 d0 x0 y0 n0 t0
  refine ⟨e, e', h1, h1', ?_, ?_⟩
  · rw [h2]; exact Covfie.C01.hilbert_in_storage sx sy x y k hk hk63 hx hy hsx hsy
  · intro heq; rw [h2, h2'] at heq; exact Covfie.C01.hilbert_no_alias sx sy x y x' y' k hk hk63 hsx hsy hx hy hx' hy' heq

end Covfie.Code
