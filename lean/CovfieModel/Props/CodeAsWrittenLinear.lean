import CovfieModel.Props.TranslatedLinGen
import CovfieModel.Props.TranslatedLin
import CovfieModel.Props.C03Round
namespace Covfie.Code
open Covfie.RImp

/-- C03 (generic branch, `N > 3`, code as written): every output component is the N-linear interpolant of the `2^D` corner
values with the fractional parts `vs` (exact arithmetic over ℚ; in floating point the same expression with a rounding after every
operation, bounded by `Covfie.C03.linGenericC_round`). -/
theorem lin_generic_is_nlinear_interpolant (F D M : Nat) (vs rs0 pc rv0 : List Nat → ℚ) (hD : D < 64) (hM : M < 2^64)
    (hF : D < F ∧ 2^D < F ∧ M < F) (n0 q0 m0 : Nat) (f0 : ℚ) :
    ∃ env' : Env ℚ, exec F Ref.lin_generic ⟨[D, M, n0, q0, m0], [f0], [vs, rs0, pc, rv0]⟩ = some env'
      ∧ ∀ q, q < M → (env'.arr.getD 3 (fun _ => 0)) [q]
          = Covfie.nlin ((List.range D).map (fun m => vs [m])) (fun bs => pc [Covfie.RImp.fromBits bs, q]) := by
  obtain ⟨env', h1, h2⟩ := lin_generic_translated_model F D M vs rs0 pc rv0 hD hM hF n0 q0 m0 f0
  exact ⟨env', h1, fun q hq => by rw [h2 q hq, Covfie.C03.linGenericC_eq]⟩
end Covfie.Code
