import CovfieModel.Props.CodeAsWrittenIO
/-! C06 / C08 for every stack, stated about the recognised statements of every layer's `write_binary` / `read_binary`. -/
namespace Covfie.Code
open Covfie.IO

/-- the script shape the three storage orders share (`Covfie.IO.sized_scripts`) -/
def sizedScript (t : Nat) : Script := ⟨t, [.hdr, .field .sizes, .inner, .ftr], [.hdr, .field .sizes, .inner, .ftr]⟩

theorem sizedScript_refs : sizedScript T_STRIDED = Ref.strided ∧ sizedScript T_MORTON = Ref.morton ∧ sizedScript T_HILBERT = Ref.hilbert := by
  decide

/-- the writers as written, layer by layer: each layer's script, with the layer below as its inner part -/
def dumpS : Ty → Dat → List Byte
  | .array M, .array wd count cells => awr M wd count cells ARef.write
  | .constant sz _, .constant v => wr Ref.constant.tag Ref.constant.write [words sz v] []
  | .identity, .identity => wr Ref.identity.tag Ref.identity.write [] []
  | .sized t _ b, .sized cfg d => wr t (sizedScript t).write [words 8 cfg] (dumpS b d)
  | .clamp sz _ b, .clamp lo hi d => wr Ref.clamp.tag Ref.clamp.write [words sz lo, words sz hi] (dumpS b d)
  | .backup sz _ osz _ b, .backup lo hi df d =>
      wr Ref.backup.tag Ref.backup.write [words sz lo, words sz hi, words osz df] (dumpS b d)
  | .affine sz _ b, .affine m d => wr Ref.affine.tag Ref.affine.write [words sz m] (dumpS b d)
  | .thin b, .thin d => wr Ref.thin.tag Ref.thin.write [] (dumpS b d)
  | _, _ => []

/-- the readers as written -/
def loadS : Ty → Parser Dat
  | .array M => ard M ARef.read 0 0 []
  | .constant sz M => bindP (rdS Ref.constant.tag Ref.constant.read [readN (rd sz) M] (pureP .identity)) fun r =>
      match r with | ([v], none) => pureP (.constant v) | _ => failP .truncated
  | .identity => bindP (rdS Ref.identity.tag Ref.identity.read [] (pureP .identity)) fun r =>
      match r with | ([], none) => pureP .identity | _ => failP .truncated
  | .sized t N b => bindP (rdS t (sizedScript t).read [readN (rd 8) N] (loadS b)) fun r =>
      match r with | ([cfg], some d) => pureP (.sized cfg d) | _ => failP .truncated
  | .clamp sz N b => bindP (rdS Ref.clamp.tag Ref.clamp.read [readN (rd sz) N, readN (rd sz) N] (loadS b)) fun r =>
      match r with | ([lo, hi], some d) => pureP (.clamp lo hi d) | _ => failP .truncated
  | .backup sz N osz M b =>
      bindP (rdS Ref.backup.tag Ref.backup.read [readN (rd sz) N, readN (rd sz) N, readN (rd osz) M] (loadS b)) fun r =>
      match r with | ([lo, hi, df], some d) => pureP (.backup lo hi df d) | _ => failP .truncated
  | .affine sz N b => bindP (rdS Ref.affine.tag Ref.affine.read [readN (rd sz) (N * (N + 1))] (loadS b)) fun r =>
      match r with | ([m], some d) => pureP (.affine m d) | _ => failP .truncated
  | .thin b => bindP (rdS Ref.thin.tag Ref.thin.read [] (loadS b)) fun r =>
      match r with | ([], some d) => pureP (.thin d) | _ => failP .truncated

theorem loadS_eq : ∀ ty : Ty, loadS ty = loadB ty
  | .array M => (load_array M 0 0 []).symm
  | .constant sz M => (load_constant sz M).symm
  | .identity => load_identity.symm
  | .sized t N b => by
      rw [loadS, loadS_eq b]; exact (load_sized (sizedScript t) rfl N b).symm
  | .clamp sz N b => by rw [loadS, loadS_eq b]; exact (load_clamp sz N b).symm
  | .backup sz N osz M b => by rw [loadS, loadS_eq b]; exact (load_backup sz N osz M b).symm
  | .affine sz N b => by rw [loadS, loadS_eq b]; exact (load_affine sz N b).symm
  | .thin b => by rw [loadS, loadS_eq b]; exact (load_thin b).symm

theorem dumpS_eq : ∀ (ty : Ty) (d : Dat), WF ty d → dumpS ty d = dumpB ty d
  | .array M, .array wd count cells, h => (dump_array M wd count cells h.2.2.1).symm
  | .constant sz M, .constant v, _ => (dump_constant sz M v).symm
  | .identity, .identity, _ => dump_identity.symm
  | .sized t N b, .sized cfg d, h => by
      rw [dumpS, dumpS_eq b d h.2.2.2]; exact (dump_sized (sizedScript t) rfl N b cfg d).symm
  | .clamp sz N b, .clamp lo hi d, h => by rw [dumpS, dumpS_eq b d h.2.2.2.2]; exact (dump_clamp sz N b lo hi d).symm
  | .backup sz N osz M b, .backup lo hi df d, h => by
      rw [dumpS, dumpS_eq b d h.2.2.2.2.2.2]; exact (dump_backup sz N osz M b lo hi df d).symm
  | .affine sz N b, .affine m d, h => by rw [dumpS, dumpS_eq b d h.2.2]; exact (dump_affine sz N b m d).symm
  | .thin b, .thin d, h => by rw [dumpS, dumpS_eq b d h]; exact (dump_thin b d).symm
  | .array _, .constant _, h | .array _, .identity, h | .array _, .sized _ _, h | .array _, .clamp _ _ _, h
  | .array _, .backup _ _ _ _, h | .array _, .affine _ _, h | .array _, .thin _, h => h.elim
  | .constant _ _, .array _ _ _, h | .constant _ _, .identity, h | .constant _ _, .sized _ _, h | .constant _ _, .clamp _ _ _, h
  | .constant _ _, .backup _ _ _ _, h | .constant _ _, .affine _ _, h | .constant _ _, .thin _, h => h.elim
  | .identity, .array _ _ _, h | .identity, .constant _, h | .identity, .sized _ _, h | .identity, .clamp _ _ _, h
  | .identity, .backup _ _ _ _, h | .identity, .affine _ _, h | .identity, .thin _, h => h.elim
  | .sized _ _ _, .array _ _ _, h | .sized _ _ _, .constant _, h | .sized _ _ _, .identity, h | .sized _ _ _, .clamp _ _ _, h
  | .sized _ _ _, .backup _ _ _ _, h | .sized _ _ _, .affine _ _, h | .sized _ _ _, .thin _, h => h.elim
  | .clamp _ _ _, .array _ _ _, h | .clamp _ _ _, .constant _, h | .clamp _ _ _, .identity, h | .clamp _ _ _, .sized _ _, h
  | .clamp _ _ _, .backup _ _ _ _, h | .clamp _ _ _, .affine _ _, h | .clamp _ _ _, .thin _, h => h.elim
  | .backup _ _ _ _ _, .array _ _ _, h | .backup _ _ _ _ _, .constant _, h | .backup _ _ _ _ _, .identity, h
  | .backup _ _ _ _ _, .sized _ _, h | .backup _ _ _ _ _, .clamp _ _ _, h | .backup _ _ _ _ _, .affine _ _, h
  | .backup _ _ _ _ _, .thin _, h => h.elim
  | .affine _ _ _, .array _ _ _, h | .affine _ _ _, .constant _, h | .affine _ _ _, .identity, h | .affine _ _ _, .sized _ _, h
  | .affine _ _ _, .clamp _ _ _, h | .affine _ _ _, .backup _ _ _ _, h | .affine _ _ _, .thin _, h => h.elim
  | .thin _, .array _ _ _, h | .thin _, .constant _, h | .thin _, .identity, h | .thin _, .sized _ _, h
  | .thin _, .clamp _ _ _, h | .thin _, .backup _ _ _ _, h | .thin _, .affine _ _, h => h.elim

/-- `field::dump` as written around the stack's writers as written -/
def dumpField (ty : Ty) (d : Dat) : List Byte := wr Ref.field.tag Ref.field.write [] (dumpS ty d)
/-- `field(std::istream&)` as written around the stack's readers as written -/
def loadField (ty : Ty) : Parser Dat :=
  bindP (rdS Ref.field.tag Ref.field.read [] (loadS ty)) fun r =>
    match r with | ([], some d) => pureP d | _ => failP .truncated

theorem loadField_eq (ty : Ty) : loadField ty = load ty := by rw [load_field, ← loadS_eq]; rfl
theorem dumpField_eq (ty : Ty) (d : Dat) (h : WF ty d) : dumpField ty d = dump ty d := by
  rw [dump_field, ← dumpS_eq ty d h]; rfl

/-- C06 (code as written, every stack): the readers' statements applied to what the writers' statements produce, followed by
anything, return every layer's configuration and the stored words unchanged and leave the rest of the stream. -/
theorem stack_roundtrip (ty : Ty) (d : Dat) (rest : List Byte) (h : WF ty d) :
    loadField ty (dumpField ty d ++ rest) = .ok (d, rest) := by
  rw [loadField_eq, dumpField_eq ty d h]; exact Covfie.C06.load_dump ty d rest h

/-- C08 (code as written, every stack): every proper prefix of what the writers' statements produce is rejected. -/
theorem stack_prefix_rejected (ty : Ty) (d : Dat) (h : WF ty d) (n : Nat) (hn : n < (dumpField ty d).length) :
    ∀ a r, loadField ty ((dumpField ty d).take n) ≠ .ok (a, r) := by
  rw [loadField_eq, dumpField_eq ty d h] at *
  exact Covfie.C08.load_prefix_rejects ty d h n hn

/-- C08 (code as written, every stack): a dump in which one header / footer word or the float-width word (to a value other than 4
and 8) has been altered is rejected by the readers' statements, whatever follows it in the stream. -/
theorem stack_altered_rejected (ty : Ty) (d : Dat) (bs : List Byte) (h : WF ty d) (ha : Covfie.C08.FieldAlt ty d bs)
    (rest : List Byte) : IsErr (loadField ty (bs ++ rest)) := by
  rw [loadField_eq]; exact Covfie.C08.load_altered_rejects ty d bs h ha rest

/-- C08 (code as written): what the writers' statements of one stack produce is rejected by the readers' statements of a stack
whose serialised layers diverge from it. -/
theorem stack_incompatible_rejected (ty ty' : Ty) (hd : Covfie.C08.Diverge ty ty') (d : Dat) (h : WF ty d) (rest : List Byte) :
    IsErr (loadField ty' (dumpField ty d ++ rest)) := by
  rw [loadField_eq, dumpField_eq ty d h]; exact Covfie.C08.load_incompatible_rejects ty ty' hd d h rest

/-- C06 (code as written): two fields written one after the other into one stream are read back one after the other. -/
theorem stack_two_in_a_stream (ty₁ ty₂ : Ty) (d₁ d₂ : Dat) (rest : List Byte) (h₁ : WF ty₁ d₁) (h₂ : WF ty₂ d₂) :
    loadField ty₁ (dumpField ty₁ d₁ ++ (dumpField ty₂ d₂ ++ rest)) = .ok (d₁, dumpField ty₂ d₂ ++ rest)
      ∧ loadField ty₂ (dumpField ty₂ d₂ ++ rest) = .ok (d₂, rest) :=
  ⟨stack_roundtrip ty₁ d₁ _ h₁, stack_roundtrip ty₂ d₂ rest h₂⟩

end Covfie.Code
