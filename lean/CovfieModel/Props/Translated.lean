import CovfieModel.Model.ImpRef
import CovfieModel.Model.Numeric
import CovfieModel.Model.Layout
import CovfieModel.Lemmas.Imp
import CovfieModel.Lemmas.Numeric
/-! # The translated kernels are the model's kernels

`Covfie.Imp.Ref.*` are the terms the kernel translator (`harness/cxx2imp.py`) produces from the C++ source text;
every check re-translates the current text and compares.  The theorems below say that executing those terms under
`Covfie.Imp.exec` gives exactly the hand-written model functions the property theorems are about. -/
namespace Covfie.Imp

-- a test, not a theorem: the reader used by the driver recovers every reference kernel from its printed text
#guard Ref.all.all (fun (_, p) => Stmt.ofSexp p.toSexp == some p)

/-! ### `round_pow2` -/

theorem rp2_iter (w i : Nat) : ∀ f j, iter (fun j => decide (j < i)) (fun j => j * 2 % 2^w) f j = rp2Loop w i f j := by
  intro f
  induction f with
  | zero => intro j; rfl
  | succ f ih => intro j; simp only [iter, rp2Loop, ih, decide_eq_true_eq]

theorem rp2Loop_lt (w i : Nat) : ∀ f j r, j < 2^w → rp2Loop w i f j = some r → r < 2^w := by
  intro f
  induction f with
  | zero => intro j r _ h; simp [rp2Loop] at h
  | succ f ih =>
    intro j r hj h
    simp only [rp2Loop] at h
    split at h
    · exact ih _ _ (Nat.mod_lt _ (Nat.two_pow_pos w)) h
    · cases h; exact hj

/-- `round_pow2` as written in `utility/numeric.hpp`, executed at width `w` with the model's fuel, is `roundPow2 w`:
same result, and out of fuel exactly when the model's loop is. -/
theorem round_pow2_translated (w i r0 j0 : Nat) (hw : 0 < w) :
    exec w (w+1) Ref.round_pow2 ⟨[i, r0, j0], []⟩ = (roundPow2 w i).map (fun j => ⟨[i, j, j], []⟩) := by
  have h1 : 1 % 2^w = 1 := Nat.mod_eq_of_lt (Nat.one_lt_two_pow (by omega))
  have hloop := whileLoop_sim (fun env => eval w env (.bin .lt .T (.var 2) (.var 0)) ≠ 0)
    (exec w (w+1) (.assign 2 .T (.bin .mul .T (.var 2) (.lit 2)))) (fun j => ⟨[i, r0, j], []⟩) (fun _ => True)
    (fun j => decide (j < i)) (fun j => j * 2 % 2^w)
    (by intro j _; simp [eval, evalBin])
    (by intro j _ _; simp [exec_assign, eval, evalBin, Env.set, bits])
    (by intros; trivial)
  simp only [Ref.round_pow2, exec_seq, exec_assign, exec_while, Option.bind_some]
  have e0 : (Env.set ⟨[i, r0, j0], []⟩ 2 (eval w ⟨[i, r0, j0], []⟩ (.lit 1) % 2 ^ bits w .T)) = ⟨[i, r0, 1 % 2^w], []⟩ := by
    simp [Env.set, eval, bits]
  rw [e0, hloop (w+1) (1 % 2^w) trivial, rp2_iter, roundPow2]
  cases h : rp2Loop w i (w+1) (1 % 2^w) with
  | none => simp
  | some r =>
    have := rp2Loop_lt w i _ _ _ (by rw [h1]; exact Nat.one_lt_two_pow (by omega)) h
    simp [exec_assign, eval, Env.set, bits, Nat.mod_eq_of_lt this]

/-! ### `ipow` -/

def ipowStep (w : Nat) (s : Nat × Nat × Nat) : Nat × Nat × Nat :=
  (if s.2.2 % 2 = 1 then s.1 * s.2.1 % 2^w else s.1, s.2.1 * s.2.1 % 2^w, s.2.2 / 2)

theorem ipow_iter (w : Nat) : ∀ f r i p, p < 2^f →
    ∃ i', iter (fun (s : Nat × Nat × Nat) => decide (s.2.2 ≠ 0)) (ipowStep w) (f+1) (r, i, p)
      = some (ipowLoop w (f+1) r i p, i', 0) := by
  intro f
  induction f with
  | zero =>
    intro r i p hp
    have : p = 0 := by omega
    subst this
    exact ⟨i, by simp [iter, ipowLoop]⟩
  | succ f ih =>
    intro r i p hp
    by_cases h0 : p = 0
    · subst h0; exact ⟨i, by simp [iter, ipowLoop]⟩
    · obtain ⟨i', hi'⟩ := ih (if p % 2 = 1 then r * i % 2^w else r) (i * i % 2^w) (p / 2) (by rw [Nat.pow_succ] at hp; omega)
      refine ⟨i', ?_⟩
      rw [iter]
      simp only [h0, ne_eq, not_false_eq_true, decide_true, if_true]
      rw [ipowLoop]
      simp only [h0, if_false]
      exact hi'

/-- `ipow` as written in `utility/numeric.hpp`, executed at width `w`, returns the model's `ipow w b e`. -/
theorem ipow_translated (w b e r0 q0 : Nat) (hw : 0 < w) (he : e < 2^w) :
    ∃ env', exec w (e+1) Ref.ipow ⟨[b, e, r0, q0], []⟩ = some env' ∧ env'.sc.getD 2 0 = ipow w b e := by
  have h1 : 1 % 2^w = 1 := Nat.mod_eq_of_lt (Nat.one_lt_two_pow (by omega))
  have hloop := whileLoop_sim (fun env => eval w env (.var 1) ≠ 0)
    (exec w (e+1) (.seq (.seq (.ite (.bin .band .T (.var 1) (.lit 1)) (.assign 3 .T (.bin .mul .T (.var 3) (.var 0))) .skip)
        (.assign 0 .T (.bin .mul .T (.var 0) (.var 0)))) (.assign 1 .T (.bin .shr .T (.var 1) (.lit 1)))))
    (fun (s : Nat × Nat × Nat) => ⟨[s.2.1, s.2.2, r0, s.1], []⟩) (fun s => s.1 < 2^w ∧ s.2.2 < 2^w)
    (fun s => decide (s.2.2 ≠ 0)) (ipowStep w)
    (by intro s _; simp [eval])
    (by
      intro ⟨r, i, p⟩ ⟨hr, hp⟩ _
      dsimp only at hr hp
      have hp2 : p / 2 % 2^w = p / 2 := Nat.mod_eq_of_lt (by omega)
      by_cases hodd : p % 2 = 1
      · simp [exec_seq, exec_ite, exec_assign, exec_skip, eval, evalBin, Env.set, bits, ipowStep, Nat.and_one_is_mod,
          Nat.shiftRight_eq_div_pow, hodd, hp2]
      · have : p % 2 = 0 := by omega
        simp [exec_seq, exec_ite, exec_assign, exec_skip, eval, evalBin, Env.set, bits, ipowStep, Nat.and_one_is_mod,
          Nat.shiftRight_eq_div_pow, this, hp2])
    (by
      intro ⟨r, i, p⟩ ⟨hr, hp⟩ _
      dsimp only at hr hp
      refine ⟨?_, ?_⟩
      · simp only [ipowStep]; split
        · exact Nat.mod_lt _ (Nat.two_pow_pos w)
        · exact hr
      · simp only [ipowStep]; omega)
  obtain ⟨i', hi'⟩ := ipow_iter w e 1 b e Nat.lt_two_pow_self
  refine ⟨⟨[i', 0, ipow w b e, ipow w b e], []⟩, ?_, by simp⟩
  simp only [Ref.ipow, exec_seq, exec_assign, exec_while, Option.bind_some]
  have e0 : (Env.set ⟨[b, e, r0, q0], []⟩ 3 (eval w ⟨[b, e, r0, q0], []⟩ (.lit 1) % 2 ^ bits w .T))
      = ⟨[b, e, r0, 1], []⟩ := by simp [Env.set, eval, bits, h1]
  rw [e0, hloop (e+1) (1, b, e) ⟨by simpa using Nat.one_lt_two_pow (by omega), he⟩, hi']
  have hlt : ipowLoop w (e+1) 1 b e < 2^w := ipowLoop_lt w _ _ _ _ (Nat.one_lt_two_pow (by omega))
  simp [exec_assign, eval, Env.set, bits, ipow, h1, Nat.mod_eq_of_lt hlt]

end Covfie.Imp

namespace Covfie.Imp
/-! ### row-major flat index (`strided::non_owning_data_t::at`) -/

def stInnerStep (w : Nat) (sizes : List Nat) (s : Nat × Nat) : Nat × Nat :=
  (s.1 * (sizes.getD s.2 0 % 2^w) % 2^w, s.2 + 1)

theorem stInner_iterN (w : Nat) (sizes : List Nat) : ∀ d tmp l, sizes.length - l = d → l ≤ sizes.length →
    iterN (stInnerStep w sizes) d (tmp, l) = (stridedTmpW w tmp (sizes.drop l), sizes.length) := by
  intro d
  induction d with
  | zero =>
    intro tmp l hd hl
    have : l = sizes.length := by omega
    subst this
    simp [iterN, stridedTmpW]
  | succ d ih =>
    intro tmp l hd hl
    have h : l < sizes.length := by omega
    rw [iterN, stInnerStep, ih _ _ (by simp only; omega) (by simp only; omega), List.drop_eq_getElem_cons h, stridedTmpW]
    simp [List.getD_eq_getElem?_getD, List.getElem?_eq_getElem h]

/-- inner loop `for (l = …; l < N; ++l) tmp *= (scalar_t) m_sizes[l];` -/
theorem strided_inner (w F r0 idx k : Nat) (c sizes : List Nat) (hlen : sizes.length < 2^64)
    (l tmp f : Nat) (hl : l ≤ sizes.length) (hf : sizes.length - l < f) :
    whileLoop (fun env => eval w env (.bin .lt .S (.var 5) (.var 0)) ≠ 0)
      (exec w F (.seq (.assign 4 .T (.bin .mul .T (.var 4) (.cast .T (.idx 1 (.var 5)))))
        (.assign 5 .S (.bin .add .S (.var 5) (.lit 1))))) f ⟨[sizes.length, r0, idx, k, tmp, l], [c, sizes]⟩
    = some ⟨[sizes.length, r0, idx, k, stridedTmpW w tmp (sizes.drop l), sizes.length], [c, sizes]⟩ := by
  have hsim := whileLoop_sim (fun env => eval w env (.bin .lt .S (.var 5) (.var 0)) ≠ 0)
    (exec w F (.seq (.assign 4 .T (.bin .mul .T (.var 4) (.cast .T (.idx 1 (.var 5)))))
        (.assign 5 .S (.bin .add .S (.var 5) (.lit 1)))))
    (fun (s : Nat × Nat) => ⟨[sizes.length, r0, idx, k, s.1, s.2], [c, sizes]⟩) (fun s => s.2 ≤ sizes.length)
    (fun s => decide (s.2 < sizes.length)) (stInnerStep w sizes)
    (by intro s _; simp [eval, evalBin])
    (by
      intro ⟨t, l⟩ hl' hc
      simp only [decide_eq_true_eq] at hc hl'
      have hl1 : (l + 1) % 2^64 = l + 1 := Nat.mod_eq_of_lt (by omega)
      simp [exec_seq, exec_assign, eval, evalBin, Env.set, bits, stInnerStep, hl1])
    (by intro ⟨t, l⟩ hl' hc; simp only [decide_eq_true_eq] at hc; simp only [stInnerStep]; omega)
  rw [hsim f (tmp, l) hl, iter_count (fun (s : Nat × Nat) => s.2) sizes.length (stInnerStep w sizes)
    (by intro a _; rfl) (sizes.length - l) (tmp, l) rfl f hf, stInner_iterN w sizes _ tmp l rfl hl]
  rfl

theorem stridedTmpW_lt (w : Nat) : ∀ ss tmp, tmp < 2^w → stridedTmpW w tmp ss < 2^w := by
  intro ss
  induction ss with
  | nil => intro tmp h; exact h
  | cons s ss ih => intro tmp _; exact ih _ (Nat.mod_lt _ (Nat.two_pow_pos w))


def stOuterStep (w : Nat) (c sizes : List Nat) (s : Nat × Nat × Nat × Nat) : Nat × Nat × Nat × Nat :=
  let t := stridedTmpW w (c.getD s.2.1 0 % 2^w) (sizes.drop (s.2.1 + 1))
  ((s.1 + t) % 2^w, s.2.1 + 1, t, sizes.length)

theorem strided_outer_body (w F r0 : Nat) (c sizes : List Nat) (hlen : sizes.length < 2^64) (hF : sizes.length < F)
    (s : Nat × Nat × Nat × Nat) (hk : s.2.1 < sizes.length) :
    exec w F (.seq (.seq (.assign 4 .T (.idx 0 (.var 3)))
        (.seq (.seq (.assign 5 .S (.bin .add .S (.var 3) (.lit 1)))
          (.while (.bin .lt .S (.var 5) (.var 0))
            (.seq (.assign 4 .T (.bin .mul .T (.var 4) (.cast .T (.idx 1 (.var 5)))))
              (.assign 5 .S (.bin .add .S (.var 5) (.lit 1))))))
          (.assign 2 .T (.bin .add .T (.var 2) (.var 4)))))
        (.assign 3 .S (.bin .add .S (.var 3) (.lit 1))))
      ⟨[sizes.length, r0, s.1, s.2.1, s.2.2.1, s.2.2.2], [c, sizes]⟩
    = some ((fun (s : Nat × Nat × Nat × Nat) => (⟨[sizes.length, r0, s.1, s.2.1, s.2.2.1, s.2.2.2], [c, sizes]⟩ : Env))
        (stOuterStep w c sizes s)) := by
  obtain ⟨idx, k, t0, l0⟩ := s
  dsimp only at hk ⊢
  have hk1 : (k + 1) % 2^64 = k + 1 := Nat.mod_eq_of_lt (by omega)
  have hinner := strided_inner w F r0 idx k c sizes hlen (k+1) (c.getD k 0 % 2^w) F (by omega) (by omega)
  simp only [exec_seq, exec_assign, exec_while, Option.bind_some]
  generalize (fun env => decide (eval w env (.bin .lt .S (.var 5) (.var 0)) ≠ 0)) = condI at hinner ⊢
  generalize exec w F (.seq (.assign 4 .T (.bin .mul .T (.var 4) (.cast .T (.idx 1 (.var 5)))))
        (.assign 5 .S (.bin .add .S (.var 5) (.lit 1)))) = bodyI at hinner ⊢
  simp only [eval, evalBin, Env.set, bits, List.getD_cons_zero, List.getD_cons_succ, List.set_cons_zero,
    List.set_cons_succ, hk1, Nat.mod_mod]
  rw [hinner]
  simp [exec_assign, eval, evalBin, Env.set, bits, stOuterStep, hk1]


theorem stOuter_iterN (w : Nat) (c sizes : List Nat) (hN : sizes.length = c.length) :
    ∀ d idx k t l, sizes.length - k = d → k ≤ sizes.length → idx < 2^w →
    ∃ t' l', iterN (stOuterStep w c sizes) d (idx, k, t, l)
      = ((idx + stridedIdxW w (sizes.drop k) (c.drop k)) % 2^w, sizes.length, t', l') := by
  intro d
  induction d with
  | zero =>
    intro idx k t l hd hk hidx
    have : k = sizes.length := by omega
    subst this
    refine ⟨t, l, ?_⟩
    simp [iterN, hN, stridedIdxW, Nat.mod_eq_of_lt hidx]
  | succ d ih =>
    intro idx k t l hd hk hidx
    have h : k < sizes.length := by omega
    have h' : k < c.length := by omega
    obtain ⟨t', l', e⟩ := ih ((idx + stridedTmpW w (c.getD k 0 % 2^w) (sizes.drop (k + 1))) % 2^w) (k+1)
      (stridedTmpW w (c.getD k 0 % 2^w) (sizes.drop (k + 1))) sizes.length (by omega) (by omega)
      (Nat.mod_lt _ (Nat.two_pow_pos w))
    refine ⟨t', l', ?_⟩
    rw [iterN]
    simp only [stOuterStep]
    rw [e, List.drop_eq_getElem_cons h, List.drop_eq_getElem_cons h', stridedIdxW]
    simp [List.getD_eq_getElem?_getD, List.getElem?_eq_getElem h', Nat.add_assoc]

theorem stridedIdxW_lt (w : Nat) (sizes c : List Nat) : stridedIdxW w sizes c < 2^w := by
  cases sizes with
  | nil => simp [stridedIdxW, Nat.two_pow_pos]
  | cons s ss =>
    cases c with
    | nil => simp [stridedIdxW, Nat.two_pow_pos]
    | cons c cs => simp only [stridedIdxW]; exact Nat.mod_lt _ (Nat.two_pow_pos w)

/-- The flat-index computation of `strided::non_owning_data_t::at` as written in `strided.hpp`, executed with the
coordinate scalar `w` bits wide, hands `stridedIdxW w sizes c` to the backend. -/
theorem strided_index_translated (w F : Nat) (c sizes : List Nat) (hN : sizes.length = c.length)
    (hlen : sizes.length < 2^64) (hF : sizes.length < F) (r0 i0 k0 t0 l0 : Nat) :
    ∃ env', exec w F Ref.strided_index ⟨[sizes.length, r0, i0, k0, t0, l0], [c, sizes]⟩ = some env'
      ∧ env'.sc.getD 1 0 = stridedIdxW w sizes c := by
  have hsim := whileLoop_sim (fun env => eval w env (.bin .lt .S (.var 3) (.var 0)) ≠ 0) _
    (fun (s : Nat × Nat × Nat × Nat) => (⟨[sizes.length, r0, s.1, s.2.1, s.2.2.1, s.2.2.2], [c, sizes]⟩ : Env))
    (fun s => s.2.1 ≤ sizes.length) (fun s => decide (s.2.1 < sizes.length)) (stOuterStep w c sizes)
    (by intro s _; simp [eval, evalBin])
    (by intro s _ hc; simp only [decide_eq_true_eq] at hc; exact strided_outer_body w F r0 c sizes hlen hF s hc)
    (by intro s _ hc; simp only [decide_eq_true_eq] at hc; simp only [stOuterStep]; omega)
  obtain ⟨t', l', e⟩ := stOuter_iterN w c sizes hN (sizes.length - 0) 0 0 t0 l0 rfl (by omega) (Nat.two_pow_pos w)
  refine ⟨⟨[sizes.length, stridedIdxW w sizes c % 2^w, stridedIdxW w sizes c % 2^w, sizes.length, t', l'], [c, sizes]⟩, ?_, ?_⟩
  · simp only [Ref.strided_index, exec_seq, exec_assign, exec_while, Option.bind_some]
    have e0 : ((Env.set ⟨[sizes.length, r0, i0, k0, t0, l0], [c, sizes]⟩ 2
        (eval w ⟨[sizes.length, r0, i0, k0, t0, l0], [c, sizes]⟩ (.lit 0) % 2 ^ bits w .T)).set 3
        (eval w (Env.set ⟨[sizes.length, r0, i0, k0, t0, l0], [c, sizes]⟩ 2
          (eval w ⟨[sizes.length, r0, i0, k0, t0, l0], [c, sizes]⟩ (.lit 0) % 2 ^ bits w .T)) (.lit 0) % 2 ^ bits w .S))
        = ⟨[sizes.length, r0, 0, 0, t0, l0], [c, sizes]⟩ := by
      simp [Env.set, eval, bits]
    rw [e0, hsim F (0, 0, t0, l0) (by simp),
      iter_count (fun (s : Nat × Nat × Nat × Nat) => s.2.1) sizes.length (stOuterStep w c sizes)
        (by intro a _; rfl) (sizes.length - 0) (0, 0, t0, l0) rfl F (by omega), e]
    simp [exec_assign, eval, Env.set, bits]
  · simp [Nat.mod_eq_of_lt (stridedIdxW_lt w sizes c)]


/-! ### portable Morton index (`morton::calculate_index`, both preprocessor variants translate to the same term) -/

def mStepI (N i : Nat) (c : List Nat) (s : Nat × Nat) : Nat × Nat :=
  ((s.1 ||| ((c.getD s.2 0 &&& (1 <<< i)) <<< (i * (N - 1) + s.2)) % 2^64) % 2^64, s.2 + 1)

theorem mInner_iterN (N i : Nat) (c : List Nat) (acc : Nat) (hacc : acc < 2^64) : ∀ j,
    iterN (mStepI N i c) j (acc, 0) = ((acc ||| mInner N i (fun j => c.getD j 0) j) % 2^64, j) := by
  intro j
  induction j with
  | zero => simp [iterN, mInner, Nat.mod_eq_of_lt hacc]
  | succ j ih =>
    rw [iterN_succ', ih, mStepI, mInner]
    simp only [Nat.or_mod_two_pow, Nat.mod_mod, Nat.or_assoc]

def mStepO (N : Nat) (c : List Nat) (s : Nat × Nat × Nat) : Nat × Nat × Nat :=
  ((iterN (mStepI N s.2.1 c) N (s.1, 0)).1, s.2.1 + 1, N)

theorem mOuter_iterN (N : Nat) (c : List Nat) (j0 : Nat) : ∀ B,
    ∃ j', iterN (mStepO N c) B (0, 0, j0) = (mOuter N (fun j => c.getD j 0) B % 2^64, B, j') := by
  intro B
  induction B with
  | zero => exact ⟨j0, by simp [iterN, mOuter]⟩
  | succ B ih =>
    obtain ⟨j', e⟩ := ih
    refine ⟨N, ?_⟩
    rw [iterN_succ', e, mStepO]
    simp only [mInner_iterN N B c _ (Nat.mod_lt _ (Nat.two_pow_pos 64)), mOuter, Nat.or_mod_two_pow, Nat.mod_mod]

theorem morton_inner (F r0 idx i N B : Nat) (c : List Nat) (hF : N < F) (hN : 0 < N) (hi : (i + 1) * N ≤ 64) :
    whileLoop (fun env => eval 64 env (.bin .lt .S (.var 5) (.var 0)) ≠ 0)
      (exec 64 F (.seq (.assign 3 .S (.bin .bor .S (.var 3) (.bin .shl .S (.bin .band .S (.idx 0 (.var 5))
          (.bin .shl .S (.lit 1) (.var 4))) (.bin .add .S (.bin .mul .S (.var 4) (.bin .sub .S (.var 0) (.lit 1))) (.var 5)))))
        (.assign 5 .S (.bin .add .S (.var 5) (.lit 1))))) F ⟨[N, B, r0, idx, i, 0], [c]⟩
    = some ⟨[N, B, r0, (iterN (mStepI N i c) N (idx, 0)).1, i, N], [c]⟩ := by
  have hi64 : i < 64 := by
    have : i * N < 64 := by rw [Nat.add_mul] at hi; omega
    exact Nat.lt_of_le_of_lt (Nat.le_mul_of_pos_right i hN) this
  have hN64 : N ≤ 64 := by rw [Nat.add_mul] at hi; omega
  have h1i : (1 <<< i) % 2^64 = 1 <<< i := by
    rw [Nat.one_shiftLeft]; exact Nat.mod_eq_of_lt (Nat.pow_lt_pow_right (by omega) hi64)
  have hsub : (N + (2^64 - 1 % 2^64)) % 2^64 = N - 1 := by omega
  have hmul : i * (N - 1) < 64 := by
    have h1 : i * (N - 1) ≤ i * N := Nat.mul_le_mul_left i (by omega)
    have h2 : i * N < 64 := by rw [Nat.add_mul] at hi; omega
    omega
  have hmulm : (i * (N - 1)) % 2^64 = i * (N - 1) := Nat.mod_eq_of_lt (by omega)
  have hsim := whileLoop_sim (fun env => eval 64 env (.bin .lt .S (.var 5) (.var 0)) ≠ 0)
    (exec 64 F (.seq (.assign 3 .S (.bin .bor .S (.var 3) (.bin .shl .S (.bin .band .S (.idx 0 (.var 5))
          (.bin .shl .S (.lit 1) (.var 4))) (.bin .add .S (.bin .mul .S (.var 4) (.bin .sub .S (.var 0) (.lit 1))) (.var 5)))))
        (.assign 5 .S (.bin .add .S (.var 5) (.lit 1)))))
    (fun (s : Nat × Nat) => (⟨[N, B, r0, s.1, i, s.2], [c]⟩ : Env)) (fun s => s.2 ≤ N)
    (fun s => decide (s.2 < N)) (mStepI N i c)
    (by intro s _; simp [eval, evalBin])
    (by
      intro ⟨a, j⟩ _ hc
      simp only [decide_eq_true_eq] at hc
      have hj1 : (j + 1) % 2^64 = j + 1 := Nat.mod_eq_of_lt (by omega)
      have hadd : (i * (N - 1) + j) % 2^64 = i * (N - 1) + j := Nat.mod_eq_of_lt (by omega)
      simp [exec_seq, exec_assign, eval, evalBin, Env.set, bits, mStepI, h1i, hsub, hmulm, hadd, hj1])
    (by intro ⟨a, j⟩ _ hc; simp only [decide_eq_true_eq] at hc; simp only [mStepI]; omega)
  rw [hsim F (idx, 0) (by simp), iter_count (fun (s : Nat × Nat) => s.2) N (mStepI N i c)
    (by intro a _; rfl) (N - 0) (idx, 0) rfl F (by omega)]
  have : (iterN (mStepI N i c) (N - 0) (idx, 0)).2 = N := by
    have hcnt : ∀ d a, (iterN (mStepI N i c) d a).2 = a.2 + d := by
      intro d; induction d with
      | zero => intro a; rfl
      | succ d ih => intro a; rw [iterN, ih]; simp only [mStepI]; omega
    rw [hcnt]; simp
  simp only [Option.map_some, Nat.sub_zero] at this ⊢
  rw [this]


theorem morton_outer_body (F r0 N : Nat) (c : List Nat) (hF : 64 < F) (hN : 0 < N)
    (s : Nat × Nat × Nat) (hi : s.2.1 < 64 / N) :
    exec 64 F (.seq (.seq (.assign 5 .S (.lit 0))
        (.while (.bin .lt .S (.var 5) (.var 0))
          (.seq (.assign 3 .S (.bin .bor .S (.var 3) (.bin .shl .S (.bin .band .S (.idx 0 (.var 5))
              (.bin .shl .S (.lit 1) (.var 4))) (.bin .add .S (.bin .mul .S (.var 4) (.bin .sub .S (.var 0) (.lit 1))) (.var 5)))))
            (.assign 5 .S (.bin .add .S (.var 5) (.lit 1))))))
        (.assign 4 .S (.bin .add .S (.var 4) (.lit 1))))
      ⟨[N, 64, r0, s.1, s.2.1, s.2.2], [c]⟩
    = some ((fun (s : Nat × Nat × Nat) => (⟨[N, 64, r0, s.1, s.2.1, s.2.2], [c]⟩ : Env)) (mStepO N c s)) := by
  obtain ⟨idx, i, j0⟩ := s
  dsimp only at hi ⊢
  have hle : (i + 1) * N ≤ 64 := (Nat.le_div_iff_mul_le hN).mp hi
  have hN64 : N ≤ 64 := by rw [Nat.add_mul] at hle; omega
  have hi1 : (i + 1) % 2^64 = i + 1 := Nat.mod_eq_of_lt (by
    have : i < 64 := Nat.lt_of_lt_of_le hi (Nat.div_le_self 64 N)
    omega)
  have hinner := morton_inner F r0 idx i N 64 c (by omega) hN hle
  simp only [exec_seq, exec_assign, exec_while, Option.bind_some]
  generalize (fun env => decide (eval 64 env (.bin .lt .S (.var 5) (.var 0)) ≠ 0)) = condI at hinner ⊢
  generalize exec 64 F (.seq (.assign 3 .S (.bin .bor .S (.var 3) (.bin .shl .S (.bin .band .S (.idx 0 (.var 5))
          (.bin .shl .S (.lit 1) (.var 4))) (.bin .add .S (.bin .mul .S (.var 4) (.bin .sub .S (.var 0) (.lit 1))) (.var 5)))))
        (.assign 5 .S (.bin .add .S (.var 5) (.lit 1)))) = bodyI at hinner ⊢
  simp only [eval, Env.set, bits, List.getD_cons_zero, List.getD_cons_succ, List.set_cons_zero,
    List.set_cons_succ, Nat.zero_mod]
  rw [hinner]
  simp [exec_assign, eval, evalBin, Env.set, bits, mStepO, hi1]

/-- The portable Morton index loop of `morton.hpp` (64-bit backend index), as written, returns `mortonLoop c`. -/
theorem morton_index_translated (F : Nat) (c : List Nat) (hN : 0 < c.length) (hF : 64 < F) (r0 x0 i0 j0 : Nat) :
    ∃ env', exec 64 F Ref.morton_index ⟨[c.length, 64, r0, x0, i0, j0], [c]⟩ = some env'
      ∧ env'.sc.getD 2 0 = mortonLoop c := by
  have hsim := whileLoop_sim (fun env => eval 64 env (.bin .lt .S (.var 4) (.bin .div .S (.var 1) (.var 0))) ≠ 0) _
    (fun (s : Nat × Nat × Nat) => (⟨[c.length, 64, r0, s.1, s.2.1, s.2.2], [c]⟩ : Env))
    (fun _ => True) (fun s => decide (s.2.1 < 64 / c.length)) (mStepO c.length c)
    (by intro s _; simp [eval, evalBin])
    (by intro s _ hc; simp only [decide_eq_true_eq] at hc; exact morton_outer_body F r0 c.length c hF hN s hc)
    (by intros; trivial)
  obtain ⟨j', e⟩ := mOuter_iterN c.length c j0 (64 / c.length)
  have hB : 64 / c.length ≤ 64 := Nat.div_le_self 64 _
  refine ⟨⟨[c.length, 64, mortonLoop c, mortonLoop c, 64 / c.length, j'], [c]⟩, ?_, by simp⟩
  simp only [Ref.morton_index, exec_seq, exec_assign, exec_while, Option.bind_some]
  have e0 : ((Env.set ⟨[c.length, 64, r0, x0, i0, j0], [c]⟩ 3
      (eval 64 ⟨[c.length, 64, r0, x0, i0, j0], [c]⟩ (.lit 0) % 2 ^ bits 64 .S)).set 4
      (eval 64 (Env.set ⟨[c.length, 64, r0, x0, i0, j0], [c]⟩ 3
        (eval 64 ⟨[c.length, 64, r0, x0, i0, j0], [c]⟩ (.lit 0) % 2 ^ bits 64 .S)) (.lit 0) % 2 ^ bits 64 .S))
      = ⟨[c.length, 64, r0, 0, 0, j0], [c]⟩ := by
    simp [Env.set, eval, bits]
  rw [e0, hsim F (0, 0, j0) trivial,
    iter_count (fun (s : Nat × Nat × Nat) => s.2.1) (64 / c.length) (mStepO c.length c)
      (by intro a _; rfl) (64 / c.length - 0) (0, 0, j0) rfl F (by omega), Nat.sub_zero, e]
  simp [exec_assign, eval, Env.set, bits, mortonLoop]

/-- The BMI2 build with `use_bmi2 = false` compiles the same loop (`1UL` instead of `static_cast<std::size_t>(1)`). -/
theorem morton_index_variants : Ref.morton_index_bmi2_off = Ref.morton_index := rfl

end Covfie.Imp
