import CovfieModel.Model.RImpRef
import CovfieModel.Lemmas.Imp
import CovfieModel.Model.Algebra
/-! # The algebra kernels, as translated from the source text, compute the model's sums

`Covfie.RImp.Ref.*` are what `harness/cxx2rimp.py` produces from `algebra/matrix.hpp` / `algebra/affine.hpp`. -/
namespace Covfie.RImp
open Covfie.Imp (iter iterN iter_count iterN_succ')

variable {α : Type} [Add α] [Mul α] [Sub α] [OfNat α 0] [OfNat α 1]

/-! ### generic facts -/
theorem exec_skip (F : Nat) (env : Env α) : exec F .skip env = some env := rfl
theorem exec_iassign (F i : Nat) (e) (env : Env α) :
    exec F (.iassign i e) env = some { env with isc := env.isc.set i (ieval env e % 2^64) } := rfl
theorem exec_rassign (F i : Nat) (e) (env : Env α) :
    exec F (.rassign i e) env = some { env with rsc := env.rsc.set i (reval env e) } := rfl
theorem exec_rset (F a : Nat) (ix e) (env : Env α) :
    exec F (.rset a ix e) env = some { env with arr := env.arr.set a (upd (env.arr.getD a (fun _ => 0)) (ix.map (ieval env)) (reval env e)) } := rfl
theorem exec_seq (F : Nat) (a b : Stmt) (env : Env α) : exec F (.seq a b) env = (exec F a env).bind (exec F b) := rfl
theorem exec_while (F : Nat) (c) (b : Stmt) (env : Env α) :
    exec F (.while c b) env = wloop (fun env => ieval env c ≠ 0) (exec F b) F env := rfl

theorem wloop_sim {σ β : Type} (cond : σ → Bool) (body : σ → Option σ) (abs : β → σ)
    (P : β → Prop) (c : β → Bool) (step : β → β)
    (hc : ∀ a, P a → cond (abs a) = c a)
    (hb : ∀ a, P a → c a = true → body (abs a) = some (abs (step a)))
    (hP : ∀ a, P a → c a = true → P (step a)) :
    ∀ f a, P a → wloop cond body f (abs a) = (iter c step f a).map abs := by
  intro f
  induction f with
  | zero => intro a _; rfl
  | succ f ih =>
    intro a ha
    simp only [wloop, iter, hc a ha]
    cases h : c a with
    | false => simp
    | true => simp [hb a ha h, ih _ (hP a ha h)]

/-- a counting loop run with enough fuel -/
theorem wloop_count {σ β : Type} (cond : σ → Bool) (body : σ → Option σ) (abs : β → σ)
    (cnt : β → Nat) (n : Nat) (step : β → β)
    (hc : ∀ a, cnt a ≤ n → cond (abs a) = decide (cnt a < n))
    (hb : ∀ a, cnt a < n → body (abs a) = some (abs (step a)))
    (hs : ∀ a, cnt a < n → cnt (step a) = cnt a + 1)
    (a : β) (ha : cnt a ≤ n) (f : Nat) (hf : n - cnt a < f) :
    wloop cond body f (abs a) = some (abs (iterN step (n - cnt a) a)) := by
  rw [wloop_sim cond body abs (fun a => cnt a ≤ n) (fun a => decide (cnt a < n)) step hc
    (by intro a _ h; exact hb a (by simpa using h))
    (by intro a _ h; have := hs a (by simpa using h); have : cnt a < n := by simpa using h
        omega) f a ha,
    iter_count cnt n step hs (n - cnt a) a rfl f hf]
  rfl


/-! ### `matrix::operator*` -/

/-- `t = t0; for k < m: t += A(i,k) * B(k,j)` -/
def dotN (A B : List Nat → α) (i j m : Nat) (t0 : α) : α :=
  (List.range m).foldl (fun acc k => acc + A [i, k] * B [k, j]) t0

def mmStepK (A B : List Nat → α) (i j : Nat) (s : α × Nat) : α × Nat := (s.1 + A [i, s.2] * B [s.2, j], s.2 + 1)

theorem mmK_iterN (A B : List Nat → α) (i j : Nat) : ∀ d t k,
    iterN (mmStepK A B i j) d (t, k) = ((List.range' k d).foldl (fun acc k => acc + A [i, k] * B [k, j]) t, k + d) := by
  intro d
  induction d with
  | zero => intro t k; simp [iterN]
  | succ d ih => intro t k; rw [iterN, mmStepK, ih, List.range'_succ, List.foldl_cons]; simp only; congr 1; omega

def mmEnv (ir : List Nat) (rr : List α) (ar : List (List Nat → α)) (N M P : Nat) (A B : List Nat → α) (r : List Nat → α)
    (i j k : Nat) (t : α) : Env α :=
  ⟨N :: M :: P :: i :: j :: k :: ir, t :: rr, A :: B :: r :: ar⟩

theorem mm_loopK (ir : List Nat) (rr : List α) (ar : List (List Nat → α)) (F N M P i j : Nat) (A B r : List Nat → α) (t : α) (hM : M < 2^64) (hF : M < F) :
    wloop (fun env => ieval env (.bin .lt .S (.var 5) (.var 1)) ≠ 0)
      (exec F (.seq (.rassign 0 (.add (.rvar 0) (.mul (.get 0 [(.var 3), (.var 5)]) (.get 1 [(.var 5), (.var 4)]))))
        (.iassign 5 (.bin .add .S (.var 5) (.lit 1))))) F (mmEnv ir rr ar N M P A B r i j 0 t)
    = some (mmEnv ir rr ar N M P A B r i j M (dotN A B i j M t)) := by
  have := wloop_count (fun env => ieval env (.bin .lt .S (.var 5) (.var 1)) ≠ 0)
    (exec F (.seq (.rassign 0 (.add (.rvar 0) (.mul (.get 0 [(.var 3), (.var 5)]) (.get 1 [(.var 5), (.var 4)]))))
        (.iassign 5 (.bin .add .S (.var 5) (.lit 1)))))
    (fun (s : α × Nat) => mmEnv ir rr ar N M P A B r i j s.2 s.1) (fun s => s.2) M (mmStepK A B i j)
    (by intro s _; simp [mmEnv, ieval, Covfie.Imp.eval, Covfie.Imp.evalBin])
    (by
      intro ⟨t, k⟩ hk
      have hk1 : (k + 1) % 2^64 = k + 1 := Nat.mod_eq_of_lt (by simp only at hk; omega)
      simp [mmEnv, exec_seq, exec_rassign, exec_iassign, reval, ieval, Covfie.Imp.eval, Covfie.Imp.evalBin, Covfie.Imp.bits,
        mmStepK, hk1])
    (by intro s _; rfl) (t, 0) (Nat.zero_le _) F (by simpa using hF)
  simp only [Nat.sub_zero, mmK_iterN, Nat.zero_add] at this
  rw [this, dotN, List.range_eq_range']


def mmBodyK : Stmt :=
  .seq (.rassign 0 (.add (.rvar 0) (.mul (.get 0 [(.var 3), (.var 5)]) (.get 1 [(.var 5), (.var 4)]))))
    (.iassign 5 (.bin .add .S (.var 5) (.lit 1)))
def mmBodyJ : Stmt :=
  .seq (.seq (.rassign 0 .zero) (.seq (.iassign 5 (.lit 0))
      (.seq (.while (.bin .lt .S (.var 5) (.var 1)) mmBodyK) (.rset 2 [(.var 3), (.var 4)] (.rvar 0)))))
    (.iassign 4 (.bin .add .S (.var 4) (.lit 1)))
def mmBodyI : Stmt :=
  .seq (.seq (.iassign 4 (.lit 0)) (.while (.bin .lt .S (.var 4) (.var 2)) mmBodyJ))
    (.iassign 3 (.bin .add .S (.var 3) (.lit 1)))
def mmProg : Stmt := .seq (.iassign 3 (.lit 0)) (.while (.bin .lt .S (.var 3) (.var 0)) mmBodyI)
theorem mm_shape : Ref.matmul = mmProg := rfl

structure MJ (α : Type) where
  r : List Nat → α
  j : Nat
  t : α
  k : Nat

def mmStepJ (A B : List Nat → α) (i M : Nat) (s : MJ α) : MJ α :=
  ⟨upd s.r [i, s.j] (dotN A B i s.j M 0), s.j + 1, dotN A B i s.j M 0, M⟩

theorem mm_bodyJ (ir : List Nat) (rr : List α) (ar : List (List Nat → α)) (F N M P i : Nat) (A B : List Nat → α) (hM : M < 2^64) (hP : P < 2^64) (hF : M < F)
    (s : MJ α) (hj : s.j < P) :
    exec F mmBodyJ (mmEnv ir rr ar N M P A B s.r i s.j s.k s.t)
    = some ((fun (s : MJ α) => mmEnv ir rr ar N M P A B s.r i s.j s.k s.t) (mmStepJ A B i M s)) := by
  obtain ⟨r, j, t, k⟩ := s
  have hj1 : (j + 1) % 2^64 = j + 1 := Nat.mod_eq_of_lt (by simp only at hj; omega)
  have hK := mm_loopK ir rr ar F N M P i j A B r (0 : α) hM hF
  simp only [mmBodyJ, exec_seq, exec_rassign, exec_iassign, exec_while, Option.bind_some]
  change wloop _ (exec (α := α) F mmBodyK) F _ = _ at hK
  generalize (fun (env : Env α) => decide (ieval env (.bin .lt .S (.var 5) (.var 1)) ≠ 0)) = condK at hK ⊢
  generalize (exec (α := α) F mmBodyK) = bodyK at hK ⊢
  simp only [mmEnv, reval, ieval, Covfie.Imp.eval, List.set_cons_zero, List.set_cons_succ, Nat.zero_mod] at hK ⊢
  rw [hK]
  simp [exec_rset, exec_iassign, reval, ieval, Covfie.Imp.eval, Covfie.Imp.evalBin, Covfie.Imp.bits, mmStepJ, hj1]


theorem mmJ_iterN_j (A B : List Nat → α) (i M : Nat) : ∀ n (s : MJ α), (iterN (mmStepJ A B i M) n s).j = s.j + n := by
  intro n
  induction n with
  | zero => intro s; rfl
  | succ n ih => intro s; rw [iterN, ih]; simp only [mmStepJ]; omega

theorem mmJ_iterN_r (A B : List Nat → α) (i M : Nat) : ∀ n (s : MJ α) (i' j' : Nat),
    (iterN (mmStepJ A B i M) n s).r [i', j']
      = if i' = i ∧ s.j ≤ j' ∧ j' < s.j + n then dotN A B i j' M 0 else s.r [i', j'] := by
  intro n
  induction n with
  | zero => intro s i' j'; simp [iterN]; intro _ h1 h2; omega
  | succ n ih =>
    intro s i' j'
    rw [iterN, ih]
    simp only [mmStepJ, upd]
    by_cases h1 : i' = i
    · subst h1
      by_cases h2 : j' = s.j
      · subst h2; simp
      · have : ¬ ([i', j'] = [i', s.j]) := by simp [h2]
        simp only [this, if_false]
        by_cases h3 : s.j + 1 ≤ j' ∧ j' < s.j + 1 + n
        · have h4 : s.j ≤ j' ∧ j' < s.j + (n + 1) := by omega
          simp [h3, h4]
        · have h4 : ¬ (s.j ≤ j' ∧ j' < s.j + (n + 1)) := by omega
          simp [h3, h4]
    · have : ¬ ([i', j'] = [i, s.j]) := by simp [h1]
      simp [h1, this]

theorem mm_loopJ (ir : List Nat) (rr : List α) (ar : List (List Nat → α)) (F N M P i : Nat) (A B : List Nat → α) (hM : M < 2^64) (hP : P < 2^64) (hF : M < F) (hF2 : P < F)
    (r : List Nat → α) (t : α) (k : Nat) :
    wloop (fun env => ieval env (.bin .lt .S (.var 4) (.var 2)) ≠ 0) (exec (α := α) F mmBodyJ) F (mmEnv ir rr ar N M P A B r i 0 k t)
    = some ((fun (s : MJ α) => mmEnv ir rr ar N M P A B s.r i s.j s.k s.t) (iterN (mmStepJ A B i M) P ⟨r, 0, t, k⟩)) := by
  have := wloop_count (fun env => ieval env (.bin .lt .S (.var 4) (.var 2)) ≠ 0) (exec (α := α) F mmBodyJ)
    (fun (s : MJ α) => mmEnv ir rr ar N M P A B s.r i s.j s.k s.t) (fun s => s.j) P (mmStepJ A B i M)
    (by intro s _; simp [mmEnv, ieval, Covfie.Imp.eval, Covfie.Imp.evalBin])
    (by intro s hj; exact mm_bodyJ ir rr ar F N M P i A B hM hP hF s hj)
    (by intro s _; rfl) ⟨r, 0, t, k⟩ (Nat.zero_le _) F (by simpa using hF2)
  simpa using this


structure MI (α : Type) where
  r : List Nat → α
  i : Nat
  j : Nat
  t : α
  k : Nat

def mmStepI (A B : List Nat → α) (M P : Nat) (s : MI α) : MI α :=
  let q := iterN (mmStepJ A B s.i M) P ⟨s.r, 0, s.t, s.k⟩
  ⟨q.r, s.i + 1, q.j, q.t, q.k⟩

theorem mm_bodyI (ir : List Nat) (rr : List α) (ar : List (List Nat → α)) (F N M P : Nat) (A B : List Nat → α) (hM : M < 2^64) (hP : P < 2^64) (hN : N < 2^64) (hF : M < F) (hF2 : P < F)
    (s : MI α) (hi : s.i < N) :
    exec F mmBodyI (mmEnv ir rr ar N M P A B s.r s.i s.j s.k s.t)
    = some ((fun (s : MI α) => mmEnv ir rr ar N M P A B s.r s.i s.j s.k s.t) (mmStepI A B M P s)) := by
  obtain ⟨r, i, j, t, k⟩ := s
  have hi1 : (i + 1) % 2^64 = i + 1 := Nat.mod_eq_of_lt (by simp only at hi; omega)
  have hJ := mm_loopJ ir rr ar F N M P i A B hM hP hF hF2 r t k
  simp only [mmBodyI, exec_seq, exec_iassign, exec_while, Option.bind_some]
  generalize (fun (env : Env α) => decide (ieval env (.bin .lt .S (.var 4) (.var 2)) ≠ 0)) = condJ at hJ ⊢
  generalize (exec (α := α) F mmBodyJ) = bodyJ at hJ ⊢
  simp only [mmEnv, ieval, Covfie.Imp.eval, List.set_cons_zero, List.set_cons_succ, Nat.zero_mod] at hJ ⊢
  rw [hJ]
  simp [exec_iassign, ieval, Covfie.Imp.eval, Covfie.Imp.evalBin, Covfie.Imp.bits, mmStepI, hi1]

theorem mmI_iterN_i (A B : List Nat → α) (M P : Nat) : ∀ n (s : MI α), (iterN (mmStepI A B M P) n s).i = s.i + n := by
  intro n
  induction n with
  | zero => intro s; rfl
  | succ n ih => intro s; rw [iterN, ih]; simp only [mmStepI]; omega

theorem mmI_iterN_r (A B : List Nat → α) (M P : Nat) : ∀ n (s : MI α) (i' j' : Nat),
    (iterN (mmStepI A B M P) n s).r [i', j']
      = if s.i ≤ i' ∧ i' < s.i + n ∧ j' < P then dotN A B i' j' M 0 else s.r [i', j'] := by
  intro n
  induction n with
  | zero => intro s i' j'; simp [iterN]; intro h1 h2; omega
  | succ n ih =>
    intro s i' j'
    rw [iterN, ih]
    simp only [mmStepI, mmJ_iterN_r]
    by_cases h1 : i' = s.i
    · subst h1
      by_cases h2 : j' < P
      · simp [h2]
      · simp [h2]
    · by_cases h3 : s.i + 1 ≤ i' ∧ i' < s.i + 1 + n ∧ j' < P
      · have h4 : s.i ≤ i' ∧ i' < s.i + (n + 1) ∧ j' < P := by omega
        simp [h3, h4]
      · have h4 : ¬ (s.i ≤ i' ∧ i' < s.i + (n + 1) ∧ j' < P) := by omega
        simp [h3, h4, h1]

/-- the whole state after `matrix::operator*` (for composing it with what follows in an enclosing kernel) -/
theorem matmul_exec (ir : List Nat) (rr : List α) (ar : List (List Nat → α)) (F N M P : Nat) (A B r0 : List Nat → α)
    (hN : N < 2^64) (hM : M < 2^64) (hP : P < 2^64) (hF : N < F ∧ M < F ∧ P < F) (i0 j0 k0 : Nat) (t0 : α) :
    exec F mmProg (mmEnv ir rr ar N M P A B r0 i0 j0 k0 t0)
      = some ((fun (s : MI α) => mmEnv ir rr ar N M P A B s.r s.i s.j s.k s.t) (iterN (mmStepI A B M P) N ⟨r0, 0, j0, t0, k0⟩)) := by
  have hloop := wloop_count (fun env => ieval env (.bin .lt .S (.var 3) (.var 0)) ≠ 0) (exec (α := α) F mmBodyI)
    (fun (s : MI α) => mmEnv ir rr ar N M P A B s.r s.i s.j s.k s.t) (fun s => s.i) N (mmStepI A B M P)
    (by intro s _; simp [mmEnv, ieval, Covfie.Imp.eval, Covfie.Imp.evalBin])
    (by intro s hi; exact mm_bodyI ir rr ar F N M P A B hM hP hN hF.2.1 hF.2.2 s hi)
    (by intro s _; rfl) ⟨r0, 0, j0, t0, k0⟩ (Nat.zero_le _) F (by simpa using hF.1)
  simp only [Nat.sub_zero] at hloop
  simp only [mmProg, exec_seq, exec_iassign, exec_while, Option.bind_some]
  simp only [mmEnv, ieval, Covfie.Imp.eval, List.set_cons_zero, List.set_cons_succ, Nat.zero_mod] at hloop ⊢
  exact hloop

/-- `matrix<N,M>::operator*(matrix<M,P>)` as written in `algebra/matrix.hpp`: after the call, entry (i, j) of the result is
`t = 0; for k < M: t += this(i,k) * o(k,j)`, for every i < N, j < P, over any scalar type with `+` and `*`. -/
theorem matmul_translated (ir : List Nat) (rr : List α) (ar : List (List Nat → α)) (F N M P : Nat) (A B r0 : List Nat → α) (hN : N < 2^64) (hM : M < 2^64) (hP : P < 2^64)
    (hF : N < F ∧ M < F ∧ P < F) (i0 j0 k0 : Nat) (t0 : α) :
    ∃ env' : Env α, exec F Ref.matmul ⟨N :: M :: P :: i0 :: j0 :: k0 :: ir, t0 :: rr, A :: B :: r0 :: ar⟩ = some env'
      ∧ ∀ i j, i < N → j < P → (env'.arr.getD 2 (fun _ => 0)) [i, j] = dotN A B i j M 0 := by
  have hloop := wloop_count (fun env => ieval env (.bin .lt .S (.var 3) (.var 0)) ≠ 0) (exec (α := α) F mmBodyI)
    (fun (s : MI α) => mmEnv ir rr ar N M P A B s.r s.i s.j s.k s.t) (fun s => s.i) N (mmStepI A B M P)
    (by intro s _; simp [mmEnv, ieval, Covfie.Imp.eval, Covfie.Imp.evalBin])
    (by intro s hi; exact mm_bodyI ir rr ar F N M P A B hM hP hN hF.2.1 hF.2.2 s hi)
    (by intro s _; rfl) ⟨r0, 0, j0, t0, k0⟩ (Nat.zero_le _) F (by simpa using hF.1)
  simp only [Nat.sub_zero] at hloop
  refine ⟨(fun (s : MI α) => mmEnv ir rr ar N M P A B s.r s.i s.j s.k s.t) (iterN (mmStepI A B M P) N ⟨r0, 0, j0, t0, k0⟩), ?_, ?_⟩
  · rw [mm_shape]
    simp only [mmProg, exec_seq, exec_iassign, exec_while, Option.bind_some]
    simp only [mmEnv, ieval, Covfie.Imp.eval, List.set_cons_zero, List.set_cons_succ, Nat.zero_mod] at hloop ⊢
    exact hloop
  · intro i j hi hj
    simp [mmEnv, mmI_iterN_r, hi, hj]


/-! ### bridge to the `Fin`-indexed model of `Model/Algebra.lean` -/

theorem foldl_finRange_eq_range (m : Nat) : ∀ (f : Fin m → α) (g : Nat → α), (∀ k (hk : k < m), g k = f ⟨k, hk⟩) → ∀ t : α,
    (List.finRange m).foldl (fun acc k => acc + f k) t = (List.range m).foldl (fun acc k => acc + g k) t := by
  induction m with
  | zero => intro f g _ t; simp
  | succ m ih =>
    intro f g h t
    rw [List.finRange_succ_last, List.range_succ, List.foldl_append, List.foldl_append, List.foldl_map]
    rw [ih (fun k => f k.castSucc) g (by intro k hk; exact h k (by omega)) t]
    simp [h m (by omega), Fin.last]

/-- a `Fin`-indexed matrix as an array of the kernel language (zero outside its bounds) -/
def ofMat {n m : Nat} (A : Fin n → Fin m → α) : List Nat → α :=
  fun ix => if h : ix.getD 0 0 < n ∧ ix.getD 1 0 < m then A ⟨ix.getD 0 0, h.1⟩ ⟨ix.getD 1 0, h.2⟩ else 0

theorem dotN_eq_matMul {n m p : Nat} (A : Fin n → Fin m → α) (B : Fin m → Fin p → α) (i : Fin n) (j : Fin p) :
    dotN (ofMat A) (ofMat B) i.val j.val m 0 = matMul A B i j := by
  rw [matMul, sumFin, dotN]
  symm
  apply foldl_finRange_eq_range
  intro k hk
  simp [ofMat, hk]

/-- Entry (i, j) of what `matrix::operator*` as written computes is the model's `matMul`. -/
theorem matmul_translated_model {n m p : Nat} (A : Fin n → Fin m → α) (B : Fin m → Fin p → α) (r0 : List Nat → α)
    (F : Nat) (hn : n < 2^64) (hm : m < 2^64) (hp : p < 2^64) (hF : n < F ∧ m < F ∧ p < F) (i0 j0 k0 : Nat) (t0 : α) :
    ∃ env' : Env α, exec F Ref.matmul ⟨[n, m, p, i0, j0, k0], [t0], [ofMat A, ofMat B, r0]⟩ = some env'
      ∧ ∀ (i : Fin n) (j : Fin p), (env'.arr.getD 2 (fun _ => 0)) [i.val, j.val] = matMul A B i j := by
  obtain ⟨env', h1, h2⟩ := matmul_translated [] [] [] F n m p (ofMat A) (ofMat B) r0 hn hm hp hF i0 j0 k0 t0
  exact ⟨env', h1, fun i j => by rw [h2 i.val j.val i.isLt j.isLt, dotN_eq_matMul]⟩


/-! ### `affine::operator*(vector)` (the matrix product inlined) -/

def apCopy : Stmt :=
  .seq (.rset 1 [(.var 6), (.lit 0)] (.get 3 [(.var 6), (.lit 0)])) (.iassign 6 (.bin .add .S (.var 6) (.lit 1)))
def apProg : Stmt :=
  .seq (.iassign 6 (.lit 0))
    (.seq (.while (.bin .lt .S (.var 6) (.var 0)) apCopy)
      (.seq (.rset 1 [(.var 0), (.lit 0)] .one)
        (.seq (.iassign 1 (.bin .add .S (.var 0) (.lit 1)))
          (.seq (.iassign 2 (.lit 1)) mmProg))))
theorem ap_shape : Ref.affine_apply = apProg := rfl

def apStep (v : List Nat → α) (s : (List Nat → α) × Nat) : (List Nat → α) × Nat := (upd s.1 [s.2, 0] (v [s.2, 0]), s.2 + 1)

theorem ap_iterN_c (v : List Nat → α) : ∀ n s, (iterN (apStep v) n s).2 = s.2 + n := by
  intro n
  induction n with
  | zero => intro s; rfl
  | succ n ih => intro s; rw [iterN, ih]; simp only [apStep]; omega

theorem ap_iterN_r (v : List Nat → α) : ∀ n (s : (List Nat → α) × Nat) (k' : Nat),
    (iterN (apStep v) n s).1 [k', 0] = if s.2 ≤ k' ∧ k' < s.2 + n then v [k', 0] else s.1 [k', 0] := by
  intro n
  induction n with
  | zero => intro s k'; simp [iterN]; intro h1 h2; omega
  | succ n ih =>
    intro s k'
    rw [iterN, ih]
    simp only [apStep, upd]
    by_cases h : k' = s.2
    · subst h; simp
    · have : ¬ ([k', 0] = [s.2, 0]) := by simp [h]
      by_cases h3 : s.2 + 1 ≤ k' ∧ k' < s.2 + 1 + n
      · have h4 : s.2 ≤ k' ∧ k' < s.2 + (n + 1) := by omega
        simp [h3, h4]
      · have h4 : ¬ (s.2 ≤ k' ∧ k' < s.2 + (n + 1)) := by omega
        simp [h3, h4, this]

/-- the homogeneous vector `(v, 1)` the code builds before the product -/
def homog (N : Nat) (v r0 : List Nat → α) : List Nat → α := upd (iterN (apStep v) N (r0, 0)).1 [N, 0] 1

theorem homog_at (N : Nat) (v r0 : List Nat → α) (k : Nat) (hk : k ≤ N) :
    homog N v r0 [k, 0] = if k < N then v [k, 0] else 1 := by
  simp only [homog, upd]
  by_cases h : k = N
  · subst h; simp
  · have : ¬ ([k, 0] = [N, 0]) := by simp [h]
    have hlt : k < N := by omega
    simp [this, ap_iterN_r, hlt]

/-- `affine<N>::operator*(vector<N>)` as written: component i of the result is the dot product of row i of the matrix with
the homogeneous vector `(v, 1)`, accumulated from 0 in the order k = 0 … N. -/
theorem affine_apply_translated (F N : Nat) (A v r0 res0 : List Nat → α) (hN : N + 1 < 2^64) (hF : N + 1 < F)
    (m0 p0 i0 j0 k0 c0 : Nat) (t0 : α) :
    ∃ env' : Env α, exec F Ref.affine_apply ⟨[N, m0, p0, i0, j0, k0, c0], [t0], [A, r0, res0, v]⟩ = some env'
      ∧ ∀ i, i < N → (env'.arr.getD 2 (fun _ => 0)) [i, 0] = dotN A (homog N v r0) i 0 (N + 1) 0 := by
  have hcopy := wloop_count (fun env => ieval env (.bin .lt .S (.var 6) (.var 0)) ≠ 0) (exec (α := α) F apCopy)
    (fun (s : (List Nat → α) × Nat) => (⟨[N, m0, p0, i0, j0, k0, s.2], [t0], [A, s.1, res0, v]⟩ : Env α)) (fun s => s.2) N (apStep v)
    (by intro s _; simp [ieval, Covfie.Imp.eval, Covfie.Imp.evalBin])
    (by
      intro ⟨r, c⟩ hc
      have hc1 : (c + 1) % 2^64 = c + 1 := Nat.mod_eq_of_lt (by simp only at hc; omega)
      simp [apCopy, exec_seq, exec_rset, exec_iassign, reval, ieval, Covfie.Imp.eval, Covfie.Imp.evalBin, Covfie.Imp.bits, apStep, hc1])
    (by intro s _; rfl) (r0, 0) (Nat.zero_le _) F (by simp; omega)
  simp only [Nat.sub_zero] at hcopy
  have hN1 : (N + 1) % 2^64 = N + 1 := Nat.mod_eq_of_lt hN
  obtain ⟨env', h1, h2⟩ := matmul_translated [(iterN (apStep v) N (r0, 0)).2] [] [v] F N (N + 1) 1 A (homog N v r0) res0
    (by omega) hN (by decide) ⟨by omega, hF, by omega⟩ i0 j0 k0 t0
  refine ⟨env', ?_, fun i hi => h2 i 0 hi (by omega)⟩
  rw [ap_shape]
  simp only [apProg, exec_seq, exec_iassign, exec_rset, exec_while, Option.bind_some]
  generalize (fun (env : Env α) => decide (ieval env (.bin .lt .S (.var 6) (.var 0)) ≠ 0)) = condC at hcopy ⊢
  generalize (exec (α := α) F apCopy) = bodyC at hcopy ⊢
  simp only [ieval, Covfie.Imp.eval, List.set_cons_zero, List.set_cons_succ, Nat.zero_mod] at hcopy ⊢
  rw [hcopy]
  simp only [Option.bind_some, exec_seq, exec_rset, exec_iassign, reval, ieval, Covfie.Imp.eval, Covfie.Imp.evalBin, Covfie.Imp.bits, List.getD_cons_zero,
    List.getD_cons_succ, List.set_cons_zero, List.set_cons_succ, List.map_cons, List.map_nil, hN1, Nat.mod_mod]
  rw [← mm_shape]
  have e1 : (1 : Nat) % 2^64 = 1 := by decide
  simp only [e1]
  exact h1


def ofVec {n : Nat} (v : Fin n → α) : List Nat → α :=
  fun ix => if h : ix.getD 0 0 < n then v ⟨ix.getD 0 0, h⟩ else 0

theorem dotN_homog_eq_affApply {N : Nat} (A : Fin N → Fin (N+1) → α) (v : Fin N → α) (r0 : List Nat → α) (i : Fin N) :
    dotN (ofMat A) (homog N (ofVec v) r0) i.val 0 (N + 1) 0 = affApply A v i := by
  rw [affApply, sumFin, dotN]
  symm
  apply foldl_finRange_eq_range
  intro k hk
  rw [homog_at N _ _ k (by omega)]
  by_cases h : k < N
  · simp [ofMat, ofVec, hk, h]
  · simp [ofMat, hk, h]

/-- Component i of what `affine::operator*(vector)` as written computes is the model's `affApply` (hence, C09, `A·v + t`). -/
theorem affine_apply_translated_model {N : Nat} (A : Fin N → Fin (N+1) → α) (v : Fin N → α) (r0 res0 : List Nat → α)
    (F : Nat) (hN : N + 1 < 2^64) (hF : N + 1 < F) (m0 p0 i0 j0 k0 c0 : Nat) (t0 : α) :
    ∃ env' : Env α, exec F Ref.affine_apply ⟨[N, m0, p0, i0, j0, k0, c0], [t0], [ofMat A, r0, res0, ofVec v]⟩ = some env'
      ∧ ∀ i : Fin N, (env'.arr.getD 2 (fun _ => 0)) [i.val, 0] = affApply A v i := by
  obtain ⟨env', h1, h2⟩ := affine_apply_translated F N (ofMat A) (ofVec v) r0 res0 hN hF m0 p0 i0 j0 k0 c0 t0
  exact ⟨env', h1, fun i => by rw [h2 i.val i.isLt, dotN_homog_eq_affApply]⟩


/-! ### `matrix::identity()` and, built on it, `affine::translation` / `affine::scaling` -/

def idBodyJ : Stmt :=
  .seq (.rset 0 [(.var 2), (.var 3)] (.sel (.bin .eq .S (.var 2) (.var 3)) .one .zero)) (.iassign 3 (.bin .add .S (.var 3) (.lit 1)))
def idBodyI : Stmt :=
  .seq (.seq (.iassign 3 (.lit 0)) (.while (.bin .lt .S (.var 3) (.var 1)) idBodyJ)) (.iassign 2 (.bin .add .S (.var 2) (.lit 1)))
def idProg : Stmt := .seq (.iassign 2 (.lit 0)) (.while (.bin .lt .S (.var 2) (.var 0)) idBodyI)
theorem id_shape : Ref.identity = idProg := rfl

def idEnv (ir : List Nat) (rr : List α) (ar : List (List Nat → α)) (N M : Nat) (r : List Nat → α) (i j : Nat) : Env α :=
  ⟨N :: M :: i :: j :: ir, rr, r :: ar⟩

def idStepJ (i : Nat) (s : (List Nat → α) × Nat) : (List Nat → α) × Nat :=
  (upd s.1 [i, s.2] (if i = s.2 then 1 else 0), s.2 + 1)

theorem idJ_iterN_j (i : Nat) : ∀ n (s : (List Nat → α) × Nat), (iterN (idStepJ i) n s).2 = s.2 + n := by
  intro n
  induction n with
  | zero => intro s; rfl
  | succ n ih => intro s; rw [iterN, ih]; simp only [idStepJ]; omega

theorem idJ_iterN_r (i : Nat) : ∀ n (s : (List Nat → α) × Nat) (i' j' : Nat),
    (iterN (idStepJ i) n s).1 [i', j']
      = if i' = i ∧ s.2 ≤ j' ∧ j' < s.2 + n then (if i = j' then (1 : α) else 0) else s.1 [i', j'] := by
  intro n
  induction n with
  | zero => intro s i' j'; simp [iterN]; intro _ h1 h2; omega
  | succ n ih =>
    intro s i' j'
    rw [iterN, ih]
    simp only [idStepJ, upd]
    by_cases h1 : i' = i
    · subst h1
      by_cases h2 : j' = s.2
      · subst h2; simp
      · have : ¬ ([i', j'] = [i', s.2]) := by simp [h2]
        simp only [this, if_false]
        by_cases h3 : s.2 + 1 ≤ j' ∧ j' < s.2 + 1 + n
        · have h4 : s.2 ≤ j' ∧ j' < s.2 + (n + 1) := by omega
          simp [h3, h4]
        · have h4 : ¬ (s.2 ≤ j' ∧ j' < s.2 + (n + 1)) := by omega
          simp [h3, h4]
    · have : ¬ ([i', j'] = [i, s.2]) := by simp [h1]
      simp [h1, this]

theorem id_loopJ (ir : List Nat) (rr : List α) (ar : List (List Nat → α)) (F N M i : Nat) (hM : M < 2^64) (hF : M < F)
    (r : List Nat → α) :
    wloop (fun env => ieval env (.bin .lt .S (.var 3) (.var 1)) ≠ 0) (exec (α := α) F idBodyJ) F (idEnv ir rr ar N M r i 0)
    = some ((fun (s : (List Nat → α) × Nat) => idEnv ir rr ar N M s.1 i s.2) (iterN (idStepJ i) M (r, 0))) := by
  have := wloop_count (fun env => ieval env (.bin .lt .S (.var 3) (.var 1)) ≠ 0) (exec (α := α) F idBodyJ)
    (fun (s : (List Nat → α) × Nat) => idEnv ir rr ar N M s.1 i s.2) (fun s => s.2) M (idStepJ i)
    (by intro s _; simp [idEnv, ieval, Covfie.Imp.eval, Covfie.Imp.evalBin])
    (by
      intro ⟨r, j⟩ hj
      have hj1 : (j + 1) % 2^64 = j + 1 := Nat.mod_eq_of_lt (by simp only at hj; omega)
      by_cases hij : i = j <;>
        simp [idEnv, idBodyJ, exec_seq, exec_rset, exec_iassign, reval, ieval, Covfie.Imp.eval, Covfie.Imp.evalBin, Covfie.Imp.bits,
          idStepJ, hj1, hij])
    (by intro s _; rfl) (r, 0) (Nat.zero_le _) F (by simpa using hF)
  simpa using this

structure II (α : Type) where
  r : List Nat → α
  i : Nat
  j : Nat

def idStepI (M : Nat) (s : II α) : II α :=
  let q := iterN (idStepJ s.i) M (s.r, 0)
  ⟨q.1, s.i + 1, q.2⟩

theorem id_bodyI (ir : List Nat) (rr : List α) (ar : List (List Nat → α)) (F N M : Nat) (hM : M < 2^64) (hN : N < 2^64) (hF : M < F)
    (s : II α) (hi : s.i < N) :
    exec F idBodyI (idEnv ir rr ar N M s.r s.i s.j)
    = some ((fun (s : II α) => idEnv ir rr ar N M s.r s.i s.j) (idStepI M s)) := by
  obtain ⟨r, i, j⟩ := s
  have hi1 : (i + 1) % 2^64 = i + 1 := Nat.mod_eq_of_lt (by simp only at hi; omega)
  have hJ := id_loopJ ir rr ar F N M i hM hF r
  simp only [idBodyI, exec_seq, exec_iassign, exec_while, Option.bind_some]
  generalize (fun (env : Env α) => decide (ieval env (.bin .lt .S (.var 3) (.var 1)) ≠ 0)) = condJ at hJ ⊢
  generalize (exec (α := α) F idBodyJ) = bodyJ at hJ ⊢
  simp only [idEnv, ieval, Covfie.Imp.eval, List.set_cons_zero, List.set_cons_succ, Nat.zero_mod] at hJ ⊢
  rw [hJ]
  simp [exec_iassign, ieval, Covfie.Imp.eval, Covfie.Imp.evalBin, Covfie.Imp.bits, idStepI, hi1]

theorem idI_iterN_i (M : Nat) : ∀ n (s : II α), (iterN (idStepI M) n s).i = s.i + n := by
  intro n
  induction n with
  | zero => intro s; rfl
  | succ n ih => intro s; rw [iterN, ih]; simp only [idStepI]; omega

theorem idI_iterN_r (M : Nat) : ∀ n (s : II α) (i' j' : Nat),
    (iterN (idStepI M) n s).r [i', j']
      = if s.i ≤ i' ∧ i' < s.i + n ∧ j' < M then (if i' = j' then (1 : α) else 0) else s.r [i', j'] := by
  intro n
  induction n with
  | zero => intro s i' j'; simp [iterN]; intro h1 h2; omega
  | succ n ih =>
    intro s i' j'
    rw [iterN, ih]
    simp only [idStepI, idJ_iterN_r]
    by_cases h1 : i' = s.i
    · subst h1
      by_cases h2 : j' < M
      · simp [h2]
      · simp [h2]
    · by_cases h3 : s.i + 1 ≤ i' ∧ i' < s.i + 1 + n ∧ j' < M
      · have h4 : s.i ≤ i' ∧ i' < s.i + (n + 1) ∧ j' < M := by omega
        simp [h3, h4]
      · have h4 : ¬ (s.i ≤ i' ∧ i' < s.i + (n + 1) ∧ j' < M) := by omega
        simp [h3, h4, h1]

/-- what `matrix<N,M>::identity()` leaves in the result array -/
def idFill (N M : Nat) (r0 : List Nat → α) (j0 : Nat) : II α := iterN (idStepI M) N ⟨r0, 0, j0⟩

theorem identity_exec (ir : List Nat) (rr : List α) (ar : List (List Nat → α)) (F N M : Nat) (r0 : List Nat → α)
    (hN : N < 2^64) (hM : M < 2^64) (hF : N < F ∧ M < F) (i0 j0 : Nat) :
    exec F idProg (idEnv ir rr ar N M r0 i0 j0)
      = some ((fun (s : II α) => idEnv ir rr ar N M s.r s.i s.j) (idFill N M r0 j0)) := by
  have hloop := wloop_count (fun env => ieval env (.bin .lt .S (.var 2) (.var 0)) ≠ 0) (exec (α := α) F idBodyI)
    (fun (s : II α) => idEnv ir rr ar N M s.r s.i s.j) (fun s => s.i) N (idStepI M)
    (by intro s _; simp [idEnv, ieval, Covfie.Imp.eval, Covfie.Imp.evalBin])
    (by intro s hi; exact id_bodyI ir rr ar F N M hM hN hF.2 s hi)
    (by intro s _; rfl) ⟨r0, 0, j0⟩ (Nat.zero_le _) F (by simpa using hF.1)
  simp only [Nat.sub_zero] at hloop
  simp only [idProg, exec_seq, exec_iassign, exec_while, Option.bind_some]
  simp only [idEnv, ieval, Covfie.Imp.eval, List.set_cons_zero, List.set_cons_succ, Nat.zero_mod] at hloop ⊢
  exact hloop

theorem idFill_at (N M : Nat) (r0 : List Nat → α) (j0 i j : Nat) :
    (idFill N M r0 j0).r [i, j] = if i < N ∧ j < M then (if i = j then (1 : α) else 0) else r0 [i, j] := by
  simp [idFill, idI_iterN_r]

/-- `matrix<N,M>::identity()` as written: entry (i, j) of the result is 1 on the diagonal and 0 elsewhere. -/
theorem identity_translated (F N M : Nat) (r0 : List Nat → α) (hN : N < 2^64) (hM : M < 2^64) (hF : N < F ∧ M < F) (i0 j0 : Nat) :
    ∃ env' : Env α, exec F Ref.identity ⟨[N, M, i0, j0], [], [r0]⟩ = some env'
      ∧ ∀ i j, i < N → j < M → (env'.arr.getD 0 (fun _ => 0)) [i, j] = if i = j then 1 else 0 := by
  refine ⟨_, by rw [id_shape]; exact identity_exec [] [] [] F N M r0 hN hM hF i0 j0, ?_⟩
  intro i j hi hj
  simp [idEnv, idFill_at, hi, hj]


/-- the loop after `identity()`: `for (i < N) result(i, col) = arr[i]` with `col` = `N` (translation) or `i` (scaling) -/
def tlBody (e : Covfie.Imp.Expr) : Stmt :=
  .seq (.rset 0 [(.var 4), e] (.get 1 [(.var 4)])) (.iassign 4 (.bin .add .S (.var 4) (.lit 1)))
def tlProg (e : Covfie.Imp.Expr) : Stmt :=
  .seq (.iassign 1 (.bin .add .S (.var 0) (.lit 1)))
    (.seq idProg (.seq (.iassign 4 (.lit 0)) (.while (.bin .lt .S (.var 4) (.var 0)) (tlBody e))))
theorem translation_shape : Ref.translation = tlProg (.var 0) := rfl
theorem scaling_shape : Ref.scaling = tlProg (.var 4) := rfl

def tlStep (arr : List Nat → α) (col : Nat → Nat) (s : (List Nat → α) × Nat) : (List Nat → α) × Nat :=
  (upd s.1 [s.2, col s.2] (arr [s.2]), s.2 + 1)

theorem tl_iterN_r (arr : List Nat → α) (col : Nat → Nat) : ∀ n (s : (List Nat → α) × Nat) (i' j' : Nat),
    (iterN (tlStep arr col) n s).1 [i', j']
      = if s.2 ≤ i' ∧ i' < s.2 + n ∧ j' = col i' then arr [i'] else s.1 [i', j'] := by
  intro n
  induction n with
  | zero => intro s i' j'; simp [iterN]; intro h1 h2; omega
  | succ n ih =>
    intro s i' j'
    rw [iterN, ih]
    simp only [tlStep, upd]
    by_cases h1 : i' = s.2
    · subst h1
      by_cases h2 : j' = col s.2
      · subst h2; simp
      · have : ¬ ([s.2, j'] = [s.2, col s.2]) := by simp [h2]
        simp [this, h2]
    · have : ¬ ([i', j'] = [s.2, col s.2]) := by simp [h1]
      by_cases h3 : s.2 + 1 ≤ i' ∧ i' < s.2 + 1 + n ∧ j' = col i'
      · have h4 : s.2 ≤ i' ∧ i' < s.2 + (n + 1) ∧ j' = col i' := by omega
        simp [h3, h4]
      · have h4 : ¬ (s.2 ≤ i' ∧ i' < s.2 + (n + 1) ∧ j' = col i') := by omega
        simp [h3, h4, this]

theorem tl_translated (e : Covfie.Imp.Expr) (col : Nat → Nat) (F N : Nat)
    (he : ∀ (M i j c : Nat) (arr r : List Nat → α), ieval (⟨[N, M, i, j, c], [], [r, arr]⟩ : Env α) e = col c)
    (arr r0 : List Nat → α) (hN : N + 1 < 2^64) (hF : N + 1 < F) (m0 i0 j0 c0 : Nat) :
    ∃ env' : Env α, exec F (tlProg e) ⟨[N, m0, i0, j0, c0], [], [r0, arr]⟩ = some env'
      ∧ ∀ i j, i < N → j < N + 1 → (env'.arr.getD 0 (fun _ => 0)) [i, j]
          = if j = col i then arr [i] else (if i = j then 1 else 0) := by
  have hN1 : (N + 1) % 2^64 = N + 1 := Nat.mod_eq_of_lt hN
  have hid := identity_exec [c0] ([] : List α) [arr] F N (N + 1) r0 (by omega) hN ⟨by omega, hF⟩ i0 j0
  have htl : ∀ r j, wloop (fun env => ieval env (.bin .lt .S (.var 4) (.var 0)) ≠ 0) (exec (α := α) F (tlBody e)) F
      (⟨[N, N + 1, N, j, 0], [], [r, arr]⟩ : Env α)
      = some ((fun (s : (List Nat → α) × Nat) => (⟨[N, N + 1, N, j, s.2], [], [s.1, arr]⟩ : Env α)) (iterN (tlStep arr col) N (r, 0))) := by
    intro r j
    have := wloop_count (fun env => ieval env (.bin .lt .S (.var 4) (.var 0)) ≠ 0) (exec (α := α) F (tlBody e))
      (fun (s : (List Nat → α) × Nat) => (⟨[N, N + 1, N, j, s.2], [], [s.1, arr]⟩ : Env α)) (fun s => s.2) N (tlStep arr col)
      (by intro s _; simp [ieval, Covfie.Imp.eval, Covfie.Imp.evalBin])
      (by
        intro ⟨r, c⟩ hc
        have hc1 : (c + 1) % 2^64 = c + 1 := Nat.mod_eq_of_lt (by simp only at hc; omega)
        have hev := he (N + 1) N j c arr r
        simp only [tlBody, exec_seq, exec_rset, exec_iassign, Option.bind_some, List.map_cons, List.map_nil, hev]
        simp [reval, ieval, Covfie.Imp.eval, Covfie.Imp.evalBin, Covfie.Imp.bits, tlStep, hc1])
      (by intro s _; rfl) (r, 0) (Nat.zero_le _) F (by simp; omega)
    simpa using this
  have hi_fin : (idFill N (N + 1) r0 j0).i = N := by simp [idFill, idI_iterN_i]
  refine ⟨(fun (s : (List Nat → α) × Nat) => (⟨[N, N + 1, N, (idFill N (N + 1) r0 j0).j, s.2], [], [s.1, arr]⟩ : Env α))
      (iterN (tlStep arr col) N ((idFill N (N + 1) r0 j0).r, 0)), ?_, ?_⟩
  · simp only [tlProg, exec_seq, exec_iassign, exec_while, Option.bind_some]
    simp only [ieval, Covfie.Imp.eval, Covfie.Imp.evalBin, Covfie.Imp.bits, List.getD_cons_zero, List.getD_cons_succ,
      List.set_cons_zero, List.set_cons_succ, hN1, Nat.mod_mod]
    simp only [idEnv] at hid
    rw [hid]
    simp only [Option.bind_some, hi_fin, List.set_cons_zero, List.set_cons_succ, List.getD_cons_zero, List.getD_cons_succ, Nat.zero_mod]
    exact htl _ _
  · intro i j hi hj
    simp only [List.getD_cons_zero, tl_iterN_r, idFill_at]
    by_cases h : j = col i
    · simp [h, hi]
    · simp [h, hi, hj]


def ofArr {n : Nat} (t : Fin n → α) : List Nat → α :=
  fun ix => if h : ix.getD 0 0 < n then t ⟨ix.getD 0 0, h⟩ else 0

/-- `affine<N>::translation(t…)` as written (with `identity()` inlined) builds the model's `affTranslation t`. -/
theorem translation_translated {N : Nat} (t : Fin N → α) (r0 : List Nat → α) (F : Nat) (hN : N + 1 < 2^64) (hF : N + 1 < F)
    (m0 i0 j0 c0 : Nat) :
    ∃ env' : Env α, exec F Ref.translation ⟨[N, m0, i0, j0, c0], [], [r0, ofArr t]⟩ = some env'
      ∧ ∀ (i : Fin N) (j : Fin (N + 1)), (env'.arr.getD 0 (fun _ => 0)) [i.val, j.val] = affTranslation t i j := by
  obtain ⟨env', h1, h2⟩ := tl_translated (α := α) (.var 0) (fun _ => N) F N
    (by intro M i j c arr r; simp [ieval, Covfie.Imp.eval]) (ofArr t) r0 hN hF m0 i0 j0 c0
  refine ⟨env', by rw [translation_shape]; exact h1, ?_⟩
  intro i j
  rw [h2 i.val j.val i.isLt j.isLt]
  simp [affTranslation, affId, ofArr]

/-- `affine<N>::scaling(s…)` as written (with `identity()` inlined) builds the model's `affScaling s`. -/
theorem scaling_translated {N : Nat} (t : Fin N → α) (r0 : List Nat → α) (F : Nat) (hN : N + 1 < 2^64) (hF : N + 1 < F)
    (m0 i0 j0 c0 : Nat) :
    ∃ env' : Env α, exec F Ref.scaling ⟨[N, m0, i0, j0, c0], [], [r0, ofArr t]⟩ = some env'
      ∧ ∀ (i : Fin N) (j : Fin (N + 1)), (env'.arr.getD 0 (fun _ => 0)) [i.val, j.val] = affScaling t i j := by
  obtain ⟨env', h1, h2⟩ := tl_translated (α := α) (.var 4) (fun c => c) F N
    (by intro M i j c arr r; simp [ieval, Covfie.Imp.eval]) (ofArr t) r0 hN hF m0 i0 j0 c0
  refine ⟨env', by rw [scaling_shape]; exact h1, ?_⟩
  intro i j
  rw [h2 i.val j.val i.isLt j.isLt]
  by_cases h : j.val = i.val
  · simp [affScaling, affId, ofArr, h]
  · have h' : ¬ i.val = j.val := fun e => h e.symm
    simp [affScaling, affId, h, h']

end Covfie.RImp
