import CovfieModel.Model.ArrScript
/-! # The array layer's `write_binary` / `read_binary` as written are the model's `dumpB` / `loadB` clauses for `Ty.array`

`harness/cxx2io.py` (`io_array`) recognises the statements of the two members — the width word chosen from the scalar type, the raw
cell count, the double loop over cells and components with the width-dependent read — as the script `ARef`; `awr` / `ard` give
the script its meaning, and `dump_array` / `load_array` say that this meaning is exactly what the model dumps and loads. -/
namespace Covfie.IO

theorem range_flatMap_getD {β} (a b : List Nat) (g : Nat → List β) :
    (List.range a.length).flatMap (fun j => g ((a ++ b).getD j 0)) = a.flatMap g := by
  induction a with
  | nil => simp
  | cons x a ih =>
    simp only [List.length_cons, List.range_succ_eq_map, List.flatMap_cons, List.flatMap_map, List.cons_append]
    have : (fun j => g ((x :: (a ++ b)).getD (Nat.succ j) 0)) = fun j => g ((a ++ b).getD j 0) := by
      funext j; simp
    rw [this, ih]; simp

theorem getD_append_add (a b : List Nat) (k : Nat) : (a ++ b).getD (a.length + k) 0 = b.getD k 0 := by
  simp [List.getD_eq_getElem?_getD, List.getElem?_append_right]

theorem cellBytes_eq_words (wd M : Nat) : ∀ (count : Nat) (cells : List Nat), cells.length = count * M →
    cellBytes wd M cells count = words wd cells := by
  intro count
  induction count with
  | zero => intro cells h; simp at h; subst h; simp [cellBytes, words]
  | succ n ih =>
    intro cells h
    have hM : M ≤ cells.length := by rw [h, Nat.succ_mul]; omega
    obtain ⟨a, b, rfl, ha⟩ : ∃ a b, cells = a ++ b ∧ a.length = M :=
      ⟨cells.take M, cells.drop M, (List.take_append_drop M cells).symm, by simp; omega⟩
    have hb : b.length = n * M := by simp [Nat.succ_mul] at h; omega
    have e2 : (fun i => (List.range M).flatMap fun j => le wd ((a ++ b).getD (Nat.succ i * M + j) 0))
        = fun i => (List.range M).flatMap fun j => le wd (b.getD (i * M + j) 0) := by
      funext i; congr 1; funext j
      rw [show Nat.succ i * M + j = a.length + (i * M + j) by rw [Nat.succ_mul, ha]; omega, getD_append_add]
    have e1 := range_flatMap_getD a b (le wd)
    rw [ha] at e1
    have ih' := ih b hb
    simp only [cellBytes, words] at ih' ⊢
    simp only [List.range_succ_eq_map, List.flatMap_cons, List.flatMap_map, Nat.zero_mul, Nat.zero_add,
      List.flatMap_append]
    rw [e1, e2, ih']

/-- the array layer's writer as written is the model's `dumpB` clause -/
theorem dump_array (M wd count : Nat) (cells : List Nat) (h : cells.length = count * M) :
    dumpB (.array M) (.array wd count cells) = awr M wd count cells ARef.write := by
  simp [dumpB, awr, ARef.write, wrapD, cellBytes_eq_words wd M count cells h, List.append_assoc]

/-! reader -/
theorem bindP_assoc {α β γ} (p : Parser α) (q : α → Parser β) (r : β → Parser γ) :
    bindP (bindP p q) r = bindP p fun a => bindP (q a) r := by
  funext bs; simp only [bindP]; cases p bs <;> rfl
theorem bindP_pure {α β} (a : α) (q : α → Parser β) : bindP (pureP a) q = q a := by
  funext bs; rfl
theorem bindP_pure_right {α} (p : Parser α) : bindP p pureP = p := by
  funext bs; simp only [bindP]; cases h : p bs with
  | error e => rfl
  | ok r => rfl

theorem readN_add {α} (p : Parser α) (a b : Nat) :
    readN p (a + b) = bindP (readN p a) fun x => bindP (readN p b) fun y => pureP (x ++ y) := by
  induction a with
  | zero => simp [readN, bindP_pure, bindP_pure_right]
  | succ n ih =>
    rw [show n + 1 + b = (n + b) + 1 by omega]
    simp only [readN, ih, bindP_assoc, bindP_pure, List.cons_append]

theorem loopP_readN {α} (p : Parser α) (M : Nat) : ∀ n, loopP (readN p M) n = readN p (n * M) := by
  intro n
  induction n with
  | zero => simp [loopP, readN]
  | succ n ih => rw [Nat.succ_mul, Nat.add_comm (n * M) M, readN_add]; show bindP _ _ = _; rw [ih]

theorem compP_eq (wd : Nat) (h : wd = 4 ∨ wd = 8) : compP wd = rd wd := by
  rcases h with rfl | rfl <;> simp [compP]

/-- the array layer's reader as written is the model's `loadB` clause -/
theorem load_array (M wd0 n0 : Nat) (c0 : List Nat) : loadB (.array M) = ard M ARef.read wd0 n0 c0 := by
  funext bs
  simp only [loadB, ard, ARef.read, wrapP, bindP_assoc]
  simp only [bindP]
  cases pHdr T_ARRAY bs with
  | error e => rfl
  | ok r1 =>
    simp only
    cases rd 4 r1.2 with
    | error e => rfl
    | ok r2 =>
      obtain ⟨wd, rest⟩ := r2
      simp only
      by_cases h : wd = 4 ∨ wd = 8
      · have h' : ¬ (wd ≠ 4 ∧ wd ≠ 8) := by omega
        simp only [h, h', if_true, if_false, loopP_readN, compP_eq wd h, bindP, pureP]
        cases rd 8 rest with
        | error e => rfl
        | ok r3 =>
          simp only
          cases readN (rd wd) (r3.1 * M) r3.2 with
          | error e => rfl
          | ok r4 =>
            simp only
      · have h' : wd ≠ 4 ∧ wd ≠ 8 := by omega
        simp [h', failP]

end Covfie.IO
