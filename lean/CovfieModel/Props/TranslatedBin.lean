import CovfieModel.Model.BinScript
namespace Covfie.IO

/-- `write_io_header` / `write_io_footer` as written produce the model's header / footer bytes -/
theorem write_io_header_translated (t : Nat) : runW BRef.write_io_header t = hdr t := by
  simp [runW, BRef.write_io_header, hdr, Wd32.val]
theorem write_io_footer_translated (t : Nat) : runW BRef.write_io_footer t = ftr t := by
  simp [runW, BRef.write_io_footer, ftr, Wd32.val]

/-- `read_io_header` as written accepts exactly what the model's `pHdr` accepts, and leaves the same rest of the stream
(the code reads both words before it compares the first, so *which* exception is thrown on a bad, short header can differ —
the properties only ask for an exception) -/
theorem read_io_header_translated (t : Nat) (bs : List Byte) : runR BRef.read_io_header t [] bs = toOpt (pHdr t bs) := by
  simp only [BRef.read_io_header, runR, pHdr, bindP, expect, pureP, failP, Wd32.val, List.nil_append, List.getD_cons_zero,
    List.cons_append, List.getD_cons_succ]
  cases h1 : rd 4 bs with
  | error e => simp [toOpt]
  | ok r1 =>
    obtain ⟨v1, b1⟩ := r1
    simp only
    cases h2 : rd 4 b1 with
    | error e => by_cases hv : v1 = MAGH <;> simp [toOpt, hv, pureP, failP, h2]
    | ok r2 =>
      obtain ⟨v2, b2⟩ := r2
      by_cases hv : v1 = MAGH <;> by_cases hw : v2 = t <;> simp [toOpt, hv, hw, pureP, failP, h2]

theorem read_io_footer_translated (t : Nat) (bs : List Byte) : runR BRef.read_io_footer t [] bs = toOpt (pFtr t bs) := by
  simp only [BRef.read_io_footer, runR, pFtr, bindP, expect, pureP, failP, Wd32.val, List.nil_append, List.getD_cons_zero,
    List.cons_append, List.getD_cons_succ]
  cases h1 : rd 4 bs with
  | error e => simp [toOpt]
  | ok r1 =>
    obtain ⟨v1, b1⟩ := r1
    simp only
    cases h2 : rd 4 b1 with
    | error e => by_cases hv : v1 = MAGF <;> simp [toOpt, hv, pureP, failP, h2]
    | ok r2 =>
      obtain ⟨v2, b2⟩ := r2
      by_cases hv : v1 = MAGF <;> by_cases hw : v2 = t + FOOT <;> simp [toOpt, hv, hw, pureP, failP, h2]

end Covfie.IO
