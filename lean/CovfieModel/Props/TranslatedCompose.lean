import CovfieModel.Props.TranslatedAlg
/-! # `affine::operator*(affine)` as translated from the source text is the model's `affMul` -/
namespace Covfie.RImp
open Covfie.Imp (iter iterN iter_count iterN_succ')

variable {α : Type} [Add α] [Mul α] [Sub α] [OfNat α 0] [OfNat α 1]

theorem exec_ite (F : Nat) (c) (t e : Stmt) (env : Env α) :
    exec F (.ite c t e) env = if ieval env c ≠ 0 then exec F t env else exec F e env := rfl

/-! ### tabulation: `for c in [c0, c0+n): A[key c] := val c` -/
def tabStep (key : Nat → List Nat) (val : Nat → α) (s : (List Nat → α) × Nat) : (List Nat → α) × Nat :=
  (upd s.1 (key s.2) (val s.2), s.2 + 1)

theorem tab_iterN_c (key : Nat → List Nat) (val : Nat → α) : ∀ n s, (iterN (tabStep key val) n s).2 = s.2 + n := by
  intro n
  induction n with
  | zero => intro s; rfl
  | succ n ih => intro s; rw [iterN, ih]; simp only [tabStep]; omega

/-- pointwise content after `n` steps, for a key with a (partial) inverse -/
theorem tab_iterN_r (key : Nat → List Nat) (val : Nat → α) (inv : List Nat → Option Nat)
    (hinv : ∀ c ix, key c = ix ↔ inv ix = some c) : ∀ n (s : (List Nat → α) × Nat) (ix : List Nat),
    (iterN (tabStep key val) n s).1 ix
      = match inv ix with
        | some c => if s.2 ≤ c ∧ c < s.2 + n then val c else s.1 ix
        | none => s.1 ix := by
  intro n
  induction n with
  | zero =>
    intro s ix
    cases h : inv ix with
    | none => simp [iterN]
    | some c => simp [iterN]; intro h1 h2; omega
  | succ n ih =>
    intro s ix
    rw [iterN, ih]
    simp only [tabStep, upd]
    cases h : inv ix with
    | none =>
      have : ¬ (ix = key s.2) := by intro e; have := (hinv s.2 ix).mp e.symm; rw [h] at this; cases this
      simp [this]
    | some c =>
      have hk : key c = ix := (hinv c ix).mpr h
      by_cases hc : c = s.2
      · subst hc; simp [hk]
      · have : ¬ (ix = key s.2) := by
          intro e; have := (hinv s.2 ix).mp e.symm; rw [h] at this; injection this with this; exact hc this
        by_cases h3 : s.2 + 1 ≤ c ∧ c < s.2 + 1 + n
        · have h4 : s.2 ≤ c ∧ c < s.2 + (n + 1) := by omega
          simp [h3, h4]
        · have h4 : ¬ (s.2 ≤ c ∧ c < s.2 + (n + 1)) := by omega
          simp [h3, h4, this]

/-- inverse of the key `c ↦ [i, c]` (a row) -/
def rowInv (i : Nat) : List Nat → Option Nat
  | [i', j'] => if i' = i then some j' else none
  | _ => none
theorem rowInv_spec (i : Nat) (c : Nat) (ix : List Nat) : ([i, c] : List Nat) = ix ↔ rowInv i ix = some c := by
  constructor
  · intro h; subst h; simp [rowInv]
  · intro h
    match ix, h with
    | [i', j'], h =>
      simp only [rowInv] at h
      by_cases e : i' = i
      · simp only [e, if_true, Option.some.injEq] at h
        rw [e, h]
      · simp [e] at h

/-- a row filled: `for j < m: A[i, j] := val j` -/
theorem row_fill (i : Nat) (val : Nat → α) (m : Nat) (A : List Nat → α) (i' j' : Nat) :
    (iterN (tabStep (fun c => [i, c]) val) m (A, 0)).1 [i', j'] = if i' = i ∧ j' < m then val j' else A [i', j'] := by
  rw [tab_iterN_r (fun c => [i, c]) val (rowInv i) (rowInv_spec i)]
  by_cases h : i' = i
  · subst h; simp [rowInv]
  · simp [rowInv, h]


/-! ### two-dimensional tabulation: `for i in [i0, i0+n): for j < m: A[i, j] := val i j` -/
def tab2Step (val : Nat → Nat → α) (m : Nat) (s : (List Nat → α) × Nat) : (List Nat → α) × Nat :=
  ((iterN (tabStep (fun c => [s.2, c]) (val s.2)) m (s.1, 0)).1, s.2 + 1)

theorem tab2_c (val : Nat → Nat → α) (m : Nat) : ∀ n s, (iterN (tab2Step val m) n s).2 = s.2 + n := by
  intro n
  induction n with
  | zero => intro s; rfl
  | succ n ih => intro s; rw [iterN, ih]; simp only [tab2Step]; omega

theorem tab2_at (val : Nat → Nat → α) (m : Nat) : ∀ n (s : (List Nat → α) × Nat) (i' j' : Nat),
    (iterN (tab2Step val m) n s).1 [i', j']
      = if s.2 ≤ i' ∧ i' < s.2 + n ∧ j' < m then val i' j' else s.1 [i', j'] := by
  intro n
  induction n with
  | zero => intro s i' j'; simp [iterN]; intro h1 h2; omega
  | succ n ih =>
    intro s i' j'
    rw [iterN, ih]
    simp only [tab2Step, row_fill]
    by_cases h1 : i' = s.2
    · subst h1
      by_cases h2 : j' < m <;> simp [h2]
    · by_cases h3 : s.2 + 1 ≤ i' ∧ i' < s.2 + 1 + n ∧ j' < m
      · have h4 : s.2 ≤ i' ∧ i' < s.2 + (n + 1) ∧ j' < m := by omega
        simp [h3, h4]
      · have h4 : ¬ (s.2 ≤ i' ∧ i' < s.2 + (n + 1) ∧ j' < m) := by omega
        simp [h3, h4, h1]

/-! ### the loop nest `for (i < n) for (j < n + 1) body` of `affine::operator*(affine)` (counters 7 and 8, bound 6) -/
def cmpInner (b : Stmt) : Stmt := .seq b (.iassign 8 (.bin .add .S (.var 8) (.lit 1)))
def cmpOuter (b : Stmt) : Stmt :=
  .seq (.seq (.iassign 8 (.lit 0)) (.while (.bin .lt .S (.var 8) (.bin .add .S (.var 6) (.lit 1))) (cmpInner b)))
    (.iassign 7 (.bin .add .S (.var 7) (.lit 1)))
def cmpNest (b : Stmt) : Stmt := .seq (.iassign 7 (.lit 0)) (.while (.bin .lt .S (.var 7) (.var 6)) (cmpOuter b))

abbrev Arrs (α : Type) := List (List Nat → α)

def cmpEnv (x : List Nat) (n i j : Nat) (rs : List α) (arrs : Arrs α) : Env α := ⟨x ++ [n, i, j], rs, arrs⟩

def rowG (G : Nat → Nat → Arrs α → Arrs α) (i : Nat) (s : Arrs α × Nat) : Arrs α × Nat := (G i s.2 s.1, s.2 + 1)
def nestG (G : Nat → Nat → Arrs α → Arrs α) (m : Nat) (s : Arrs α × Nat) : Arrs α × Nat :=
  ((iterN (rowG G s.2) m (s.1, 0)).1, s.2 + 1)

theorem rowG_c (G : Nat → Nat → Arrs α → Arrs α) (i : Nat) : ∀ n s, (iterN (rowG G i) n s).2 = s.2 + n := by
  intro n
  induction n with
  | zero => intro s; rfl
  | succ n ih => intro s; rw [iterN, ih]; simp only [rowG]; omega
theorem nestG_c (G : Nat → Nat → Arrs α → Arrs α) (m : Nat) : ∀ n s, (iterN (nestG G m) n s).2 = s.2 + n := by
  intro n
  induction n with
  | zero => intro s; rfl
  | succ n ih => intro s; rw [iterN, ih]; simp only [nestG]; omega

/-- the nest executes as the double iteration of the body's effect on the arrays -/
theorem cmpNest_exec (b : Stmt) (G : Nat → Nat → Arrs α → Arrs α) (F n : Nat) (x : List Nat) (hx : x.length = 6) (rs : List α)
    (hn : n + 1 < 2^64) (hF : n + 1 < F)
    (hb : ∀ i j arrs, i < n → j < n + 1 → exec F b (cmpEnv x n i j rs arrs) = some (cmpEnv x n i j rs (G i j arrs)))
    (arrs : Arrs α) (i0 j0 : Nat) :
    ∃ j', exec F (cmpNest b) (cmpEnv x n i0 j0 rs arrs) = some (cmpEnv x n n j' rs (iterN (nestG G (n + 1)) n (arrs, 0)).1) := by
  obtain ⟨x0, x1, x2, x3, x4, x5, rfl⟩ : ∃ a b c d e f, x = [a, b, c, d, e, f] := by
    match x, hx with
    | [a, b, c, d, e, f], _ => exact ⟨a, b, c, d, e, f, rfl⟩
  have hn1 : (n + 1) % 2^64 = n + 1 := Nat.mod_eq_of_lt hn
  -- inner loop, for a fixed row i < n
  have hinner : ∀ i, i < n → ∀ arrs,
      wloop (fun env => ieval env (.bin .lt .S (.var 8) (.bin .add .S (.var 6) (.lit 1))) ≠ 0) (exec (α := α) F (cmpInner b)) F
        (cmpEnv [x0, x1, x2, x3, x4, x5] n i 0 rs arrs)
      = some ((fun (s : Arrs α × Nat) => cmpEnv [x0, x1, x2, x3, x4, x5] n i s.2 rs s.1) (iterN (rowG G i) (n + 1) (arrs, 0))) := by
    intro i hi arrs
    have := wloop_count (fun env => ieval env (.bin .lt .S (.var 8) (.bin .add .S (.var 6) (.lit 1))) ≠ 0) (exec (α := α) F (cmpInner b))
      (fun (s : Arrs α × Nat) => cmpEnv [x0, x1, x2, x3, x4, x5] n i s.2 rs s.1) (fun s => s.2) (n + 1) (rowG G i)
      (by intro s _; simp [cmpEnv, ieval, Covfie.Imp.eval, Covfie.Imp.evalBin, Covfie.Imp.bits, hn1])
      (by
        intro ⟨a, j⟩ hj
        have hj1 : (j + 1) % 2^64 = j + 1 := Nat.mod_eq_of_lt (by simp only at hj; omega)
        simp only [cmpInner, exec_seq, hb i j a hi hj, Option.bind_some]
        simp [cmpEnv, exec_iassign, ieval, Covfie.Imp.eval, Covfie.Imp.evalBin, Covfie.Imp.bits, rowG, hj1])
      (by intro s _; rfl) (arrs, 0) (Nat.zero_le _) F (by simpa using hF)
    simpa using this
  -- outer loop
  have houter := wloop_count (fun env => ieval env (.bin .lt .S (.var 7) (.var 6)) ≠ 0) (exec (α := α) F (cmpOuter b))
    (fun (s : (Arrs α × Nat) × Nat) => cmpEnv [x0, x1, x2, x3, x4, x5] n s.1.2 s.2 rs s.1.1) (fun s => s.1.2) n
    (fun s => ((nestG G (n + 1) s.1), (iterN (rowG G s.1.2) (n + 1) (s.1.1, 0)).2))
    (by intro s _; simp [cmpEnv, ieval, Covfie.Imp.eval, Covfie.Imp.evalBin])
    (by
      intro ⟨⟨a, i⟩, j⟩ hi
      have hi1 : (i + 1) % 2^64 = i + 1 := Nat.mod_eq_of_lt (by simp only at hi; omega)
      have hJ := hinner i hi a
      simp only [cmpOuter, exec_seq, exec_iassign, exec_while, Option.bind_some]
      generalize (fun (env : Env α) => decide (ieval env (.bin .lt .S (.var 8) (.bin .add .S (.var 6) (.lit 1))) ≠ 0)) = condJ at hJ ⊢
      generalize (exec (α := α) F (cmpInner b)) = bodyJ at hJ ⊢
      simp only [cmpEnv, ieval, Covfie.Imp.eval, List.cons_append, List.nil_append, List.set_cons_zero, List.set_cons_succ, Nat.zero_mod] at hJ ⊢
      rw [hJ]
      simp [exec_iassign, ieval, Covfie.Imp.eval, Covfie.Imp.evalBin, Covfie.Imp.bits, nestG, hi1])
    (by intro s _; rfl) ((arrs, 0), j0) (Nat.zero_le _) F (by simp; omega)
  simp only [Nat.sub_zero] at houter
  -- the arrays after n outer steps do not depend on how the inner counter is carried along
  have hproj : ∀ k (s : (Arrs α × Nat) × Nat),
      (iterN (fun s => ((nestG G (n + 1) s.1), (iterN (rowG G s.1.2) (n + 1) (s.1.1, 0)).2)) k s).1 = iterN (nestG G (n + 1)) k s.1 := by
    intro k
    induction k with
    | zero => intro s; rfl
    | succ k ih => intro s; rw [iterN, ih]; rfl
  refine ⟨(iterN (fun s => ((nestG G (n + 1) s.1), (iterN (rowG G s.1.2) (n + 1) (s.1.1, 0)).2)) n ((arrs, 0), j0)).2, ?_⟩
  simp only [cmpNest, exec_seq, exec_iassign, exec_while, Option.bind_some]
  simp only [cmpEnv, ieval, Covfie.Imp.eval, List.cons_append, List.nil_append, List.set_cons_zero, List.set_cons_succ, Nat.zero_mod] at houter ⊢
  rw [houter]
  have h1 := hproj n ((arrs, 0), j0)
  have h2 : (iterN (nestG G (n + 1)) n (arrs, 0)).2 = n := by rw [nestG_c]; simp
  simp only [← h1] at h2 ⊢
  rw [h2]


/-! ### the three phases of `affine::operator*(affine)` on the arrays `[m1, m2, r, THIS, m, o]` -/

/-- two arrays written at `[i, j]` in one loop body -/
def two (i : Nat) (va vb : Nat → α) (j : Nat) : Arrs α → Arrs α
  | [m1, m2, r, A, B, o] => [upd m1 [i, j] (va j), upd m2 [i, j] (vb j), r, A, B, o]
  | arrs => arrs

theorem two_row (i : Nat) (va vb : Nat → α) (r A B o : List Nat → α) : ∀ k (m1 m2 : List Nat → α) (j0 : Nat),
    iterN (fun (s : Arrs α × Nat) => (two i va vb s.2 s.1, s.2 + 1)) k ([m1, m2, r, A, B, o], j0)
      = ([(iterN (tabStep (fun c => [i, c]) va) k (m1, j0)).1, (iterN (tabStep (fun c => [i, c]) vb) k (m2, j0)).1, r, A, B, o], j0 + k) := by
  intro k
  induction k with
  | zero => intro m1 m2 j0; rfl
  | succ k ih =>
    intro m1 m2 j0
    have e : two i va vb j0 [m1, m2, r, A, B, o] = [upd m1 [i, j0] (va j0), upd m2 [i, j0] (vb j0), r, A, B, o] := rfl
    rw [iterN]
    dsimp only
    rw [e, ih]
    simp only [iterN, tabStep]
    congr 1; omega

/-- phase 1: `m1(i,j) = this(i,j); m2(i,j) = m(i,j)` -/
def G1 (i j : Nat) (arrs : Arrs α) : Arrs α :=
  let z : List Nat → α := fun _ => 0
  let a1 := arrs.set 0 (upd (arrs.getD 0 z) [i, j] ((arrs.getD 3 z) [i, j]))
  a1.set 1 (upd (a1.getD 1 z) [i, j] ((a1.getD 4 z) [i, j]))
def b1 : Stmt :=
  .seq (.rset 0 [(.var 7), (.var 8)] (.get 3 [(.var 7), (.var 8)])) (.rset 1 [(.var 7), (.var 8)] (.get 4 [(.var 7), (.var 8)]))
/-- phase 3: `o(i,j) = r(i,j)` -/
def G3 (i j : Nat) (arrs : Arrs α) : Arrs α :=
  let z : List Nat → α := fun _ => 0
  arrs.set 5 (upd (arrs.getD 5 z) [i, j] ((arrs.getD 2 z) [i, j]))
def b3 : Stmt := .rset 5 [(.var 7), (.var 8)] (.get 2 [(.var 7), (.var 8)])

theorem b1_exec (F n i j x0 x1 x2 x3 x4 x5 : Nat) (rs : List α) (arrs : Arrs α) :
    exec F b1 (cmpEnv [x0, x1, x2, x3, x4, x5] n i j rs arrs) = some (cmpEnv [x0, x1, x2, x3, x4, x5] n i j rs (G1 i j arrs)) := by
  simp [b1, cmpEnv, exec_seq, exec_rset, reval, ieval, Covfie.Imp.eval, G1]
theorem b3_exec (F n i j x0 x1 x2 x3 x4 x5 : Nat) (rs : List α) (arrs : Arrs α) :
    exec F b3 (cmpEnv [x0, x1, x2, x3, x4, x5] n i j rs arrs) = some (cmpEnv [x0, x1, x2, x3, x4, x5] n i j rs (G3 i j arrs)) := by
  simp [b3, cmpEnv, exec_rset, reval, ieval, Covfie.Imp.eval, G3]

theorem G1_eq_two (i j : Nat) (m1 m2 r A B o : List Nat → α) :
    G1 i j [m1, m2, r, A, B, o] = two i (fun j => A [i, j]) (fun j => B [i, j]) j [m1, m2, r, A, B, o] := by
  simp [G1, two]

/-- the arrays after phase 1 -/
theorem phase1 (m : Nat) (r A B o : List Nat → α) : ∀ k (m1 m2 : List Nat → α) (i0 : Nat),
    iterN (nestG G1 m) k ([m1, m2, r, A, B, o], i0)
      = ([(iterN (tab2Step (fun i j => A [i, j]) m) k (m1, i0)).1, (iterN (tab2Step (fun i j => B [i, j]) m) k (m2, i0)).1, r, A, B, o], i0 + k) := by
  intro k
  induction k with
  | zero => intro m1 m2 i0; rfl
  | succ k ih =>
    intro m1 m2 i0
    rw [iterN]
    have hrow : iterN (rowG G1 i0) m ([m1, m2, r, A, B, o], 0)
        = ([(iterN (tabStep (fun c => [i0, c]) (fun j => A [i0, j])) m (m1, 0)).1,
            (iterN (tabStep (fun c => [i0, c]) (fun j => B [i0, j])) m (m2, 0)).1, r, A, B, o], 0 + m) := by
      rw [← two_row i0 (fun j => A [i0, j]) (fun j => B [i0, j]) r A B o m m1 m2 0]
      -- the two step functions agree on lists of this shape, which the iteration preserves
      have : ∀ k (a1 a2 : List Nat → α) (j0 : Nat),
          iterN (rowG G1 i0) k ([a1, a2, r, A, B, o], j0)
            = iterN (fun (s : Arrs α × Nat) => (two i0 (fun j => A [i0, j]) (fun j => B [i0, j]) s.2 s.1, s.2 + 1)) k ([a1, a2, r, A, B, o], j0) := by
        intro k
        induction k with
        | zero => intros; rfl
        | succ k ih2 =>
          intro a1 a2 j0
          have e : two i0 (fun j => A [i0, j]) (fun j => B [i0, j]) j0 [a1, a2, r, A, B, o]
              = [upd a1 [i0, j0] (A [i0, j0]), upd a2 [i0, j0] (B [i0, j0]), r, A, B, o] := rfl
          rw [iterN, iterN]
          dsimp only [rowG]
          rw [G1_eq_two, e]
          exact ih2 _ _ _
      exact this m m1 m2 0
    simp only [nestG, hrow]
    rw [ih]
    simp only [iterN, tab2Step]
    congr 1; omega

theorem phase3 (m : Nat) (m1 m2 r A B : List Nat → α) : ∀ k (o : List Nat → α) (i0 : Nat),
    iterN (nestG G3 m) k ([m1, m2, r, A, B, o], i0)
      = ([m1, m2, r, A, B, (iterN (tab2Step (fun i j => r [i, j]) m) k (o, i0)).1], i0 + k) := by
  intro k
  induction k with
  | zero => intro o i0; rfl
  | succ k ih =>
    intro o i0
    rw [iterN]
    have hrow : ∀ k (o : List Nat → α) (j0 : Nat), iterN (rowG G3 i0) k ([m1, m2, r, A, B, o], j0)
        = ([m1, m2, r, A, B, (iterN (tabStep (fun c => [i0, c]) (fun j => r [i0, j])) k (o, j0)).1], j0 + k) := by
      intro k
      induction k with
      | zero => intros; rfl
      | succ k ih2 =>
        intro o j0
        rw [iterN]
        simp only [rowG, G3, List.getD_cons_succ, List.getD_cons_zero, List.set_cons_succ, List.set_cons_zero]
        rw [ih2]
        simp only [iterN, tabStep]
        congr 1; omega
    simp only [nestG, hrow]
    rw [ih]
    simp only [iterN, tab2Step]
    congr 1; omega


/-- phase 2: the last row of both factors becomes `(0, …, 0, 1)` -/
def b2 : Stmt :=
  .ite (.bin .eq .S (.var 8) (.var 6))
    (.seq (.rset 0 [(.var 6), (.var 8)] .one) (.rset 1 [(.var 6), (.var 8)] .one))
    (.seq (.rset 0 [(.var 6), (.var 8)] .zero) (.rset 1 [(.var 6), (.var 8)] .zero))
def loop2 : Stmt := .seq (.iassign 8 (.lit 0)) (.while (.bin .lt .S (.var 8) (.bin .add .S (.var 6) (.lit 1))) (cmpInner b2))

def lastRow (n : Nat) (j : Nat) : α := if j = n then 1 else 0

def pairStep (n : Nat) (s : ((List Nat → α) × (List Nat → α)) × Nat) : ((List Nat → α) × (List Nat → α)) × Nat :=
  ((upd s.1.1 [n, s.2] (lastRow n s.2), upd s.1.2 [n, s.2] (lastRow n s.2)), s.2 + 1)

theorem pair_row (n : Nat) : ∀ k (m1 m2 : List Nat → α) (j0 : Nat),
    iterN (pairStep n) k ((m1, m2), j0)
      = (((iterN (tabStep (fun c => [n, c]) (lastRow n)) k (m1, j0)).1, (iterN (tabStep (fun c => [n, c]) (lastRow n)) k (m2, j0)).1), j0 + k) := by
  intro k
  induction k with
  | zero => intros; rfl
  | succ k ih =>
    intro m1 m2 j0
    rw [iterN]
    dsimp only [pairStep]
    rw [ih]
    simp only [iterN, tabStep]
    congr 1; omega

theorem loop2_exec (F n x0 x1 x2 x3 x4 x5 i j0 : Nat) (rs : List α) (m1 m2 r A B o : List Nat → α)
    (hn : n + 1 < 2^64) (hF : n + 1 < F) :
    exec F loop2 (cmpEnv [x0, x1, x2, x3, x4, x5] n i j0 rs [m1, m2, r, A, B, o])
      = some (cmpEnv [x0, x1, x2, x3, x4, x5] n i (n + 1) rs
          [(iterN (tabStep (fun c => [n, c]) (lastRow n)) (n + 1) (m1, 0)).1, (iterN (tabStep (fun c => [n, c]) (lastRow n)) (n + 1) (m2, 0)).1, r, A, B, o]) := by
  have hn1 : (n + 1) % 2^64 = n + 1 := Nat.mod_eq_of_lt hn
  have := wloop_count (fun env => ieval env (.bin .lt .S (.var 8) (.bin .add .S (.var 6) (.lit 1))) ≠ 0) (exec (α := α) F (cmpInner b2))
    (fun (s : ((List Nat → α) × (List Nat → α)) × Nat) => cmpEnv [x0, x1, x2, x3, x4, x5] n i s.2 rs [s.1.1, s.1.2, r, A, B, o])
    (fun s => s.2) (n + 1) (pairStep n)
    (by intro s _; simp [cmpEnv, ieval, Covfie.Imp.eval, Covfie.Imp.evalBin, Covfie.Imp.bits, hn1])
    (by
      intro ⟨⟨a1, a2⟩, j⟩ hj
      have hj1 : (j + 1) % 2^64 = j + 1 := Nat.mod_eq_of_lt (by simp only at hj; omega)
      have hn' : n + 1 < 18446744073709551616 := by simpa using hn
      by_cases hjn : j = n <;>
        simp [cmpInner, b2, cmpEnv, exec_seq, exec_ite, exec_rset, exec_iassign, reval, ieval, Covfie.Imp.eval, Covfie.Imp.evalBin,
          Covfie.Imp.bits, pairStep, lastRow, hj1, hjn, hn'])
    (by intro s _; rfl) ((m1, m2), 0) (Nat.zero_le _) F (by simpa using hF)
  simp only [Nat.sub_zero, pair_row, Nat.zero_add] at this
  simp only [loop2, exec_seq, exec_iassign, exec_while, Option.bind_some]
  simp only [cmpEnv, ieval, Covfie.Imp.eval, List.cons_append, List.nil_append, List.set_cons_zero, List.set_cons_succ, Nat.zero_mod] at this ⊢
  exact this


/-! ### assembly -/
def dimE : Covfie.Imp.Expr := .bin .add .S (.var 6) (.lit 1)
def cmpProg : Stmt :=
  .seq (.iassign 7 (.lit 0)) (.seq (.while (.bin .lt .S (.var 7) (.var 6)) (cmpOuter b1))
    (.seq (.iassign 8 (.lit 0)) (.seq (.while (.bin .lt .S (.var 8) (.bin .add .S (.var 6) (.lit 1))) (cmpInner b2))
      (.seq (.iassign 0 dimE) (.seq (.iassign 1 dimE) (.seq (.iassign 2 dimE) (.seq mmProg (cmpNest b3))))))))
theorem cmp_shape : Ref.affine_compose = cmpProg := rfl

theorem exec_seq2 (F : Nat) (a w K : Stmt) (env : Env α) :
    exec F (.seq a (.seq w K)) env = (exec F (.seq a w) env).bind (exec F K) := by
  simp only [exec_seq]; cases exec F a env <;> rfl

theorem dotN_congr (A1 A2 B1 B2 : List Nat → α) (i j m : Nat) (t : α)
    (hA : ∀ k, k < m → A1 [i, k] = A2 [i, k]) (hB : ∀ k, k < m → B1 [k, j] = B2 [k, j]) :
    dotN A1 B1 i j m t = dotN A2 B2 i j m t := by
  unfold dotN
  induction m generalizing t with
  | zero => rfl
  | succ m ih =>
    rw [List.range_succ, List.foldl_append, List.foldl_append]
    rw [ih _ (fun k hk => hA k (by omega)) (fun k hk => hB k (by omega))]
    simp [hA m (by omega), hB m (by omega)]

/-- the homogeneous embedding the code builds: rows below `n` from the matrix, row `n` = `(0, …, 0, 1)` -/
def embN (n : Nat) (A : List Nat → α) : List Nat → α :=
  fun ix => if ix.getD 0 0 < n then A ix else lastRow n (ix.getD 1 0)

/-- `affine::operator*(affine)` as written: entry (i, j) of the result is the (i, j) entry of the product of the two
homogeneous embeddings, accumulated from 0 in the order k = 0 … N. -/
theorem affine_compose_translated (F n : Nat) (A B m1 m2 r o : List Nat → α) (hn : n + 1 < 2^64) (hF : n + 1 < F)
    (x0 x1 x2 x3 x4 x5 i0 j0 : Nat) (t0 : α) :
    ∃ env' : Env α, exec F Ref.affine_compose ⟨[x0, x1, x2, x3, x4, x5, n, i0, j0], [t0], [m1, m2, r, A, B, o]⟩ = some env'
      ∧ ∀ i j, i < n → j < n + 1 → (env'.arr.getD 5 (fun _ => 0)) [i, j] = dotN (embN n A) (embN n B) i j (n + 1) 0 := by
  have hn1 : (n + 1) % 2^64 = n + 1 := Nat.mod_eq_of_lt hn
  -- phase 1
  obtain ⟨j1, h1⟩ := cmpNest_exec b1 G1 F n [x0, x1, x2, x3, x4, x5] rfl [t0] hn hF
    (fun i j arrs _ _ => b1_exec F n i j x0 x1 x2 x3 x4 x5 [t0] arrs) [m1, m2, r, A, B, o] i0 j0
  rw [phase1] at h1
  -- phase 2
  have h2 := loop2_exec F n x0 x1 x2 x3 x4 x5 n j1 [t0]
    (iterN (tab2Step (fun i j => A [i, j]) (n + 1)) n (m1, 0)).1 (iterN (tab2Step (fun i j => B [i, j]) (n + 1)) n (m2, 0)).1 r A B o hn hF
  generalize hM1 : (iterN (tabStep (fun c => [n, c]) (lastRow n)) (n + 1) ((iterN (tab2Step (fun i j => A [i, j]) (n + 1)) n (m1, 0)).1, 0)).1 = M1 at h2
  generalize hM2 : (iterN (tabStep (fun c => [n, c]) (lastRow n)) (n + 1) ((iterN (tab2Step (fun i j => B [i, j]) (n + 1)) n (m2, 0)).1, 0)).1 = M2 at h2
  -- the product
  have h4 := matmul_exec [n, n, n + 1] ([] : List α) [A, B, o] F (n + 1) (n + 1) (n + 1) M1 M2 r hn hn hn ⟨hF, hF, hF⟩ x3 x4 x5 t0
  generalize hQ : iterN (mmStepI M1 M2 (n + 1) (n + 1)) (n + 1) ⟨r, 0, x4, t0, x5⟩ = Q at h4
  have hQr : ∀ i j, i < n + 1 → j < n + 1 → Q.r [i, j] = dotN M1 M2 i j (n + 1) 0 := by
    intro i j hi hj; rw [← hQ, mmI_iterN_r]; simp [hi, hj]
  -- phase 3
  obtain ⟨j3, h5⟩ := cmpNest_exec b3 G3 F n [n + 1, n + 1, n + 1, Q.i, Q.j, Q.k] rfl [Q.t] hn hF
    (fun i j arrs _ _ => b3_exec F n i j (n + 1) (n + 1) (n + 1) Q.i Q.j Q.k [Q.t] arrs) [M1, M2, Q.r, A, B, o] n (n + 1)
  rw [phase3] at h5
  refine ⟨cmpEnv [n + 1, n + 1, n + 1, Q.i, Q.j, Q.k] n n j3 [Q.t]
      ([M1, M2, Q.r, A, B, (iterN (tab2Step (fun i j => Q.r [i, j]) (n + 1)) n (o, 0)).1], 0 + n).1, ?_, ?_⟩
  · have e0 : (⟨[x0, x1, x2, x3, x4, x5, n, i0, j0], [t0], [m1, m2, r, A, B, o]⟩ : Env α)
        = cmpEnv [x0, x1, x2, x3, x4, x5] n i0 j0 [t0] [m1, m2, r, A, B, o] := rfl
    have h1' : exec F (.seq (.iassign 7 (.lit 0)) (.while (.bin .lt .S (.var 7) (.var 6)) (cmpOuter b1)))
        (cmpEnv [x0, x1, x2, x3, x4, x5] n i0 j0 [t0] [m1, m2, r, A, B, o]) = _ := h1
    have el : (Stmt.seq (.iassign 8 (.lit 0)) (.while (.bin .lt .S (.var 8) (.bin .add .S (.var 6) (.lit 1))) (cmpInner b2))) = loop2 := rfl
    have h3' : exec F (.seq (.iassign 0 dimE) (.seq (.iassign 1 dimE) (.seq (.iassign 2 dimE) (.seq mmProg (cmpNest b3)))))
        (cmpEnv [x0, x1, x2, x3, x4, x5] n n (n + 1) [t0] [M1, M2, r, A, B, o])
        = (exec F mmProg (mmEnv [n, n, n + 1] [] [A, B, o] (n + 1) (n + 1) (n + 1) M1 M2 r x3 x4 x5 t0)).bind (exec F (cmpNest b3)) := by
      simp only [exec_seq, exec_iassign, Option.bind_some]
      simp [cmpEnv, mmEnv, dimE, ieval, Covfie.Imp.eval, Covfie.Imp.evalBin, Covfie.Imp.bits, hn1]
    rw [cmp_shape, e0]
    unfold cmpProg
    rw [exec_seq2, h1']
    simp only [Option.bind_some, Nat.zero_add]
    rw [exec_seq2, el, h2]
    simp only [Option.bind_some]
    rw [h3', h4]
    simp only [Option.bind_some]
    exact h5
  · intro i j hi hj
    simp only [cmpEnv, List.getD_cons_succ, List.getD_cons_zero, tab2_at, Nat.zero_add]
    simp only [hi, hj, Nat.zero_le, true_and, and_self, if_true]
    rw [hQr i j (by omega) hj]
    apply dotN_congr
    · intro k hk
      rw [← hM1, row_fill, tab2_at]
      have hne : ¬ (i = n) := by omega
      simp [hne, hi, hk, embN]
    · intro k hk
      rw [← hM2, row_fill, tab2_at]
      by_cases hkn : k = n
      · subst hkn; simp [hj, embN]
      · have : k < n := by omega
        simp [hkn, this, hj, embN]


theorem dotN_embN_eq_affMul {N : Nat} (P Q : Fin N → Fin (N+1) → α) (i : Fin N) (j : Fin (N+1)) :
    dotN (embN N (ofMat P)) (embN N (ofMat Q)) i.val j.val (N + 1) 0 = affMul P Q i j := by
  rw [affMul, matMul, sumFin, dotN]
  symm
  apply foldl_finRange_eq_range
  intro k hk
  have hi := i.isLt
  have hj := j.isLt
  by_cases hkn : k < N
  · simp [embN, embed, ofMat, hi, hj, hk, hkn]
  · have : k = N := by omega
    subst this
    simp [embN, embed, ofMat, hi, hj, lastRow]

/-- Entry (i, j) of what `affine::operator*(affine)` as written computes is the model's `affMul` — whose action on a vector is
"apply the right factor, then the left" (`Covfie.C09.affMul_apply`). -/
theorem affine_compose_translated_model {N : Nat} (P Q : Fin N → Fin (N+1) → α) (m1 m2 r o : List Nat → α)
    (F : Nat) (hN : N + 1 < 2^64) (hF : N + 1 < F) (x0 x1 x2 x3 x4 x5 i0 j0 : Nat) (t0 : α) :
    ∃ env' : Env α, exec F Ref.affine_compose ⟨[x0, x1, x2, x3, x4, x5, N, i0, j0], [t0], [m1, m2, r, ofMat P, ofMat Q, o]⟩ = some env'
      ∧ ∀ (i : Fin N) (j : Fin (N+1)), (env'.arr.getD 5 (fun _ => 0)) [i.val, j.val] = affMul P Q i j := by
  obtain ⟨env', h1, h2⟩ := affine_compose_translated F N (ofMat P) (ofMat Q) m1 m2 r o hN hF x0 x1 x2 x3 x4 x5 i0 j0 t0
  exact ⟨env', h1, fun i j => by rw [h2 i.val j.val i.isLt j.isLt, dotN_embN_eq_affMul]⟩

end Covfie.RImp
