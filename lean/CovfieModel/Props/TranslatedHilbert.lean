import CovfieModel.Props.Translated
import CovfieModel.Lemmas.HilbertList
/-! # The translated Hilbert index (`hilbert::calculate_index` with `rot` inlined) is the model's `hilbertIdx` -/
namespace Covfie.Imp

/-- the scalars of the kernel that change in the main loop -/
structure HS where
  rx : Nat
  ry : Nat
  s : Nat
  d : Nat
  x : Nat
  y : Nat
  t : Nat

def hsEnv (r0 n : Nat) (c sizes : List Nat) (a : HS) : Env :=
  ⟨[r0, a.rx, a.ry, a.s, a.d, a.x, a.y, n, a.t], [c, sizes]⟩

def hsStep (n : Nat) (a : HS) : HS :=
  let rx := b2n (a.x &&& a.s > 0)
  let ry := b2n (a.y &&& a.s > 0)
  { rx := rx, ry := ry, s := a.s / 2, d := a.d + a.s * a.s * ((3 * rx) ^^^ ry),
    x := if ry = 0 then (if rx = 1 then n - 1 - a.y else a.y) else a.x,
    y := if ry = 0 then (if rx = 1 then n - 1 - a.x else a.x) else a.y,
    t := if ry = 0 then (if rx = 1 then n - 1 - a.x else a.x) else a.t }

def hsInv (n : Nat) (a : HS) : Prop :=
  a.x < n ∧ a.y < n ∧ a.d + 4 * (a.s * a.s) ≤ n * n ∧ n * n ≤ 2^64 ∧ a.d < n * n

theorem hs_iter (n : Nat) : ∀ f a, a.s < 2^f →
    ∃ a', iter (fun (a : HS) => decide (a.s > 0)) (hsStep n) (f+1) a = some a'
      ∧ a'.d = hilLoop n (f+1) a.s a.x a.y a.d := by
  intro f
  induction f with
  | zero =>
    intro a hs
    have : a.s = 0 := by omega
    exact ⟨a, by simp [iter, this], by simp [hilLoop, this]⟩
  | succ f ih =>
    intro a hs
    by_cases h0 : a.s = 0
    · exact ⟨a, by simp [iter, h0], by simp [hilLoop, h0]⟩
    · obtain ⟨a', e1, e2⟩ := ih (hsStep n a) (by
        have : (hsStep n a).s = a.s / 2 := rfl
        rw [this]; rw [Nat.pow_succ] at hs; omega)
      refine ⟨a', ?_, ?_⟩
      · rw [iter]; simp only [gt_iff_lt, Nat.pos_of_ne_zero h0, decide_true, if_true]; exact e1
      · rw [e2]
        conv => rhs; unfold hilLoop; simp only [h0, if_false]
        simp only [hsStep, rot, b2n]
        by_cases hx : a.x &&& a.s > 0 <;> by_cases hy : a.y &&& a.s > 0 <;> simp [hx, hy]


/-- body of the main loop, as translated -/
def hilBody : Stmt :=
  (.seq
    (.seq
      (.assign 1 .S (.bin .gt .S (.bin .band .S (.var 5) (.var 3)) (.lit 0)))
      (.seq
        (.assign 2 .S (.bin .gt .S (.bin .band .S (.var 6) (.var 3)) (.lit 0)))
        (.seq
          (.assign 4 .S (.bin .add .S (.var 4) (.bin .mul .S (.bin .mul .S (.var 3) (.var 3)) (.bin .bxor .S (.bin .mul .S (.lit 3) (.var 1)) (.var 2)))))
          (.ite (.bin .eq .S (.var 2) (.lit 0))
            (.seq
              (.ite (.bin .eq .S (.var 1) (.lit 1))
                (.seq
                  (.assign 5 .S (.bin .sub .S (.bin .sub .S (.var 7) (.lit 1)) (.var 5)))
                  (.assign 6 .S (.bin .sub .S (.bin .sub .S (.var 7) (.lit 1)) (.var 6))))
                .skip)
              (.seq
                (.assign 8 .S (.var 5))
                (.seq
                  (.assign 5 .S (.var 6))
                  (.assign 6 .S (.var 8)))))
            .skip))))
    (.assign 3 .S (.bin .div .S (.var 3) (.lit 2))))

def hilGrow : Stmt := .assign 7 .S (.bin .mul .S (.var 7) (.lit 2))

/-- the whole kernel with the two loop bodies named -/
def hilProg : Stmt :=
  (.seq (.assign 4 .S (.lit 0))
    (.seq (.assign 5 .S (.idx 0 (.lit 0)))
      (.seq (.assign 6 .S (.idx 0 (.lit 1)))
        (.seq (.assign 7 .S (.lit 1))
          (.seq
            (.while (.bin .lor .S (.bin .lt .S (.var 7) (.idx 1 (.lit 0))) (.bin .lt .S (.var 7) (.idx 1 (.lit 1)))) hilGrow)
            (.seq
              (.seq (.assign 3 .S (.bin .div .S (.var 7) (.lit 2)))
                (.while (.bin .gt .S (.var 3) (.lit 0)) hilBody))
              (.assign 0 .S (.var 4))))))))

theorem hil_shape : Ref.hilbert_index = hilProg := rfl

theorem hil_body (F r0 n : Nat) (c sizes : List Nat) (a : HS) (hP : hsInv n a) (hs : a.s > 0) :
    exec 64 F hilBody (hsEnv r0 n c sizes a) = some (hsEnv r0 n c sizes (hsStep n a)) := by
  obtain ⟨hx, hy, hd, hn, _⟩ := hP
  obtain ⟨rx, ry, s, d, x, y, t⟩ := a
  dsimp only at hx hy hd hn hs
  have hss : 1 ≤ s * s := Nat.mul_pos hs hs
  have hn1 : 1 ≤ n := by omega
  have hnn : n ≤ n * n := Nat.le_mul_of_pos_right n hn1
  have hsle : s ≤ s * s := Nat.le_mul_of_pos_right s hs
  simp only [Nat.reducePow] at hn
  have fx : ((n + 18446744073709551615) % 18446744073709551616 + (18446744073709551616 - x % 18446744073709551616)) % 18446744073709551616 = n - 1 - x := by omega
  have fy : ((n + 18446744073709551615) % 18446744073709551616 + (18446744073709551616 - y % 18446744073709551616)) % 18446744073709551616 = n - 1 - y := by omega
  have fd0 : d % 18446744073709551616 = d := by omega
  have fd1 : (d + s * s % 18446744073709551616) % 18446744073709551616 = d + s * s := by omega
  have fd2 : (d + s * s % 18446744073709551616 * 2 % 18446744073709551616) % 18446744073709551616 = d + s * s * 2 := by omega
  have fd3 : (d + s * s % 18446744073709551616 * (3 % 18446744073709551616) % 18446744073709551616) % 18446744073709551616 = d + s * s * 3 := by omega
  have key : ∀ bx by_ : Bool, decide (x &&& s > 0) = bx → decide (y &&& s > 0) = by_ →
      exec 64 F hilBody (hsEnv r0 n c sizes ⟨rx, ry, s, d, x, y, t⟩) = some (hsEnv r0 n c sizes (hsStep n ⟨rx, ry, s, d, x, y, t⟩)) := by
    intro bx by_ hbx hby
    simp only [hilBody, hsEnv, exec_seq, exec_assign, exec_ite, exec_skip, eval, evalBin, Env.set, bits,
      List.getD_cons_zero, List.getD_cons_succ, List.set_cons_zero, List.set_cons_succ, Option.bind_some,
      hbx, hby, hsStep]
    cases bx <;> cases by_ <;>
    · simp only [b2n, Nat.reducePow, Nat.reduceMod, Bool.false_eq_true, if_false, if_true]
      simp only [decide_true, Nat.reduceEqDiff, decide_false, Bool.false_eq_true, if_true, if_false, ne_eq, Nat.one_ne_zero,
        not_false_eq_true, not_true_eq_false]
      try simp only [Nat.reduceMul, Nat.reduceMod]
      try simp only [Nat.reduceXor]
      try simp only [Nat.reduceSub]
      try simp only [Nat.mod_mod, Nat.mul_zero, Nat.add_zero, Nat.zero_mod, Nat.mul_one]
      try simp only [fx, fy, fd0, fd1, fd2, fd3]
      simp only [Option.bind_some, exec_seq, exec_assign, eval, evalBin, Env.set, bits, List.getD_cons_zero,
        List.getD_cons_succ, List.set_cons_zero, List.set_cons_succ, Nat.reducePow]
      simp only [Option.some.injEq, Env.mk.injEq, List.cons.injEq, and_true, true_and]
      omega
  exact key _ _ rfl rfl


theorem hs_inv_step (n : Nat) (a : HS) (hP : hsInv n a) (hs : a.s > 0) : hsInv n (hsStep n a) := by
  obtain ⟨hx, hy, hd, hn, hdn⟩ := hP
  obtain ⟨rx, ry, s, d, x, y, t⟩ := a
  dsimp only at hx hy hd hn hs hdn
  have hss : 1 ≤ s * s := Nat.mul_pos hs hs
  have h2 : 2 * (s / 2) ≤ s := by omega
  have h4 : 4 * (s / 2 * (s / 2)) ≤ s * s := by
    have := Nat.mul_le_mul h2 h2
    rw [Nat.mul_mul_mul_comm] at this
    simpa using this
  have hq : ∀ bx by_ : Bool, (3 * b2n bx) ^^^ b2n by_ ≤ 3 := by intro bx by_; cases bx <;> cases by_ <;> decide
  have hq' := hq (decide (x &&& s > 0)) (decide (y &&& s > 0))
  have hm : s * s * ((3 * b2n (decide (x &&& s > 0))) ^^^ b2n (decide (y &&& s > 0))) ≤ s * s * 3 :=
    Nat.mul_le_mul_left _ hq'
  refine ⟨?_, ?_, ?_, hn, ?_⟩
  · simp only [hsStep]; split <;> (try split) <;> omega
  · simp only [hsStep]; split <;> (try split) <;> omega
  · simp only [hsStep]; omega
  · simp only [hsStep]; omega


/-- `hilbert::calculate_index` (with `rot` inlined) as written in `hilbert.hpp`, executed on 64-bit words, returns the
model's `hilbertIdx` for every field whose extents are at most 2^32 and every coordinate inside the curve's square. -/
theorem hilbert_index_translated (sx sy x y : Nat) (hmax : max sx sy ≤ 2^32)
    (hx : x < hilN sx sy) (hy : y < hilN sx sy) (r0 rx0 ry0 s0 d0 x0 y0 n0 t0 : Nat) :
    ∃ env', exec 64 65 Ref.hilbert_index ⟨[r0, rx0, ry0, s0, d0, x0, y0, n0, t0], [[x, y], [sx, sy]]⟩ = some env'
      ∧ env'.sc.getD 0 0 = hilbertIdx [sx, sy] [x, y] := by
  -- the curve's side
  obtain ⟨k, hk, hle, hleast, _⟩ := roundPow2_spec' 64 (max sx sy) (by omega)
    (Nat.le_trans hmax (Nat.pow_le_pow_right (by omega) (by omega)))
  have hk32 : k ≤ 32 := hleast 32 hmax
  have hN : hilN sx sy = 2^k := by simp [hilN, hk]
  rw [hN] at hx hy
  have hn32 : 2^k ≤ 2^32 := Nat.pow_le_pow_right (by omega) hk32
  have hnn : 2^k * 2^k ≤ 2^64 :=
    calc 2^k * 2^k ≤ 2^32 * 2^32 := Nat.mul_le_mul hn32 hn32
      _ = 2^64 := by decide
  have hn1 : 1 ≤ 2^k := Nat.one_le_two_pow
  have h232 : (2:Nat)^32 = 4294967296 := by decide
  have hx64 : x % 2^64 = x := Nat.mod_eq_of_lt (by omega)
  have hy64 : y % 2^64 = y := Nat.mod_eq_of_lt (by omega)
  have h1 : 1 % 2^64 = 1 := by decide
  -- the doubling loop is the model's
  have hgrow := whileLoop_sim
    (fun env => eval 64 env (.bin .lor .S (.bin .lt .S (.var 7) (.idx 1 (.lit 0))) (.bin .lt .S (.var 7) (.idx 1 (.lit 1)))) ≠ 0)
    (exec 64 65 hilGrow) (fun (n : Nat) => (⟨[r0, rx0, ry0, s0, 0, x, y, n, t0], [[x, y], [sx, sy]]⟩ : Env)) (fun _ => True)
    (fun n => decide (n < max sx sy)) (fun n => n * 2 % 2^64)
    (by intro n _; simp [eval, evalBin]; rw [Bool.eq_iff_iff]; simp; omega)
    (by intro n _ _; simp [hilGrow, exec_assign, eval, evalBin, Env.set, bits])
    (by intros; trivial)
  have hrp : rp2Loop 64 (max sx sy) 65 1 = some (2^k) := by
    have := hk; unfold roundPow2 at this; simpa using this
  -- the main loop
  have hmain := whileLoop_sim (fun env => eval 64 env (.bin .gt .S (.var 3) (.lit 0)) ≠ 0) (exec 64 65 hilBody)
    (hsEnv r0 (2^k) [x, y] [sx, sy]) (hsInv (2^k)) (fun a => decide (a.s > 0)) (hsStep (2^k))
    (by intro a _; simp [eval, evalBin, hsEnv]; by_cases h : a.s = 0 <;> simp [h, Nat.pos_of_ne_zero])
    (by intro a hP hc; simp only [decide_eq_true_eq] at hc; exact hil_body 65 r0 (2^k) _ _ a hP hc)
    (by intro a hP hc; simp only [decide_eq_true_eq] at hc; exact hs_inv_step (2^k) a hP hc)
  have ha0 : hsInv (2^k) ⟨rx0, ry0, 2^k / 2, 0, x, y, t0⟩ := by
    refine ⟨hx, hy, ?_, hnn, Nat.mul_pos hn1 hn1⟩
    have h2 : 2 * (2^k / 2) ≤ 2^k := by omega
    have := Nat.mul_le_mul h2 h2
    rw [Nat.mul_mul_mul_comm] at this
    simpa using this
  obtain ⟨a', hit, hd⟩ := hs_iter (2^k) 64 ⟨rx0, ry0, 2^k / 2, 0, x, y, t0⟩ (by show 2^k / 2 < 2^64; omega)
  obtain ⟨⟨_, _, _, _, hdlt⟩, _⟩ := iter_inv _ _ (hsInv (2^k))
    (by intro a hP hc; simp only [decide_eq_true_eq] at hc; exact hs_inv_step (2^k) a hP hc) _ _ _ ha0 hit
  have hd64 : a'.d % 2^64 = a'.d := Nat.mod_eq_of_lt (by omega)
  refine ⟨⟨[a'.d, a'.rx, a'.ry, a'.s, a'.d, a'.x, a'.y, 2^k, a'.t], [[x, y], [sx, sy]]⟩, ?_, ?_⟩
  · rw [hil_shape]
    simp only [hilProg, exec_seq, exec_assign, exec_while, Option.bind_some]
    have e0 : ((Env.set ⟨[r0, rx0, ry0, s0, d0, x0, y0, n0, t0], [[x, y], [sx, sy]]⟩ 4
        (eval 64 ⟨[r0, rx0, ry0, s0, d0, x0, y0, n0, t0], [[x, y], [sx, sy]]⟩ (.lit 0) % 2 ^ bits 64 .S)).set 5
        (eval 64 (Env.set ⟨[r0, rx0, ry0, s0, d0, x0, y0, n0, t0], [[x, y], [sx, sy]]⟩ 4
          (eval 64 ⟨[r0, rx0, ry0, s0, d0, x0, y0, n0, t0], [[x, y], [sx, sy]]⟩ (.lit 0) % 2 ^ bits 64 .S))
          (.idx 0 (.lit 0)) % 2 ^ bits 64 .S)) = ⟨[r0, rx0, ry0, s0, 0, x, y0, n0, t0], [[x, y], [sx, sy]]⟩ := by
      simp [Env.set, eval, bits, hx64]
    rw [e0]
    have e1 : ((Env.set ⟨[r0, rx0, ry0, s0, 0, x, y0, n0, t0], [[x, y], [sx, sy]]⟩ 6
        (eval 64 ⟨[r0, rx0, ry0, s0, 0, x, y0, n0, t0], [[x, y], [sx, sy]]⟩ (.idx 0 (.lit 1)) % 2 ^ bits 64 .S)).set 7
        (eval 64 (Env.set ⟨[r0, rx0, ry0, s0, 0, x, y0, n0, t0], [[x, y], [sx, sy]]⟩ 6
          (eval 64 ⟨[r0, rx0, ry0, s0, 0, x, y0, n0, t0], [[x, y], [sx, sy]]⟩ (.idx 0 (.lit 1)) % 2 ^ bits 64 .S))
          (.lit 1) % 2 ^ bits 64 .S)) = ⟨[r0, rx0, ry0, s0, 0, x, y, 1, t0], [[x, y], [sx, sy]]⟩ := by
      simp [Env.set, eval, bits, hy64]
    rw [e1, hgrow 65 1 trivial, rp2_iter, hrp]
    simp only [Option.map_some, Option.bind_some]
    have e2 : Env.set ⟨[r0, rx0, ry0, s0, 0, x, y, 2^k, t0], [[x, y], [sx, sy]]⟩ 3
        (eval 64 ⟨[r0, rx0, ry0, s0, 0, x, y, 2^k, t0], [[x, y], [sx, sy]]⟩ (.bin .div .S (.var 7) (.lit 2)) % 2 ^ bits 64 .S)
        = hsEnv r0 (2^k) [x, y] [sx, sy] ⟨rx0, ry0, 2^k / 2, 0, x, y, t0⟩ := by
      have : 2^k / 2 % 2^64 = 2^k / 2 := Nat.mod_eq_of_lt (by omega)
      simp [Env.set, eval, evalBin, bits, hsEnv, this]
    simp only [exec_seq, exec_assign, exec_while, Option.bind_some]
    rw [e2, hmain 65 _ ha0, hit]
    simp [hsEnv, exec_assign, Env.set, eval, bits, hd64]
  · simp [hilbertIdx, hN, hd]

end Covfie.Imp
