import CovfieModel.Model.IOScript
/-! # The layers' `write_binary` / `read_binary` members, as the scripts they are written as, are the model's writer and reader

For every layer with a footprint the model's `dumpB` / `loadB` clause *is* the interpretation of the script `harness/cxx2io.py`
recognises in the source (header, fields in the written order, inner layer, footer); the footprint-free layers forward to the
inner layer. Every check of C06 re-reads the current text and compares. -/
namespace Covfie.IO


/-! ### writers -/
theorem dump_constant (sz M : Nat) (v : List Nat) :
    dumpB (.constant sz M) (.constant v) = wr Ref.constant.tag Ref.constant.write [words sz v] [] := by
  simp [dumpB, wr, wrapD, Ref.constant]
theorem dump_identity : dumpB .identity .identity = wr Ref.identity.tag Ref.identity.write [] [] := by
  simp [dumpB, wr, wrapD, Ref.identity]
theorem dump_sized (s : Script) (hs : s.write = [.hdr, .field .sizes, .inner, .ftr]) (N : Nat) (b : Ty) (cfg : List Nat) (d : Dat) :
    dumpB (.sized s.tag N b) (.sized cfg d) = wr s.tag s.write [words 8 cfg] (dumpB b d) := by
  simp [dumpB, wr, wrapD, hs, List.append_assoc]
theorem dump_clamp (sz N : Nat) (b : Ty) (lo hi : List Nat) (d : Dat) :
    dumpB (.clamp sz N b) (.clamp lo hi d) = wr Ref.clamp.tag Ref.clamp.write [words sz lo, words sz hi] (dumpB b d) := by
  simp [dumpB, wr, wrapD, Ref.clamp, List.append_assoc]
theorem dump_backup (sz N osz M : Nat) (b : Ty) (lo hi df : List Nat) (d : Dat) :
    dumpB (.backup sz N osz M b) (.backup lo hi df d)
      = wr Ref.backup.tag Ref.backup.write [words sz lo, words sz hi, words osz df] (dumpB b d) := by
  simp [dumpB, wr, wrapD, Ref.backup, List.append_assoc]
theorem dump_affine (sz N : Nat) (b : Ty) (m : List Nat) (d : Dat) :
    dumpB (.affine sz N b) (.affine m d) = wr Ref.affine.tag Ref.affine.write [words sz m] (dumpB b d) := by
  simp [dumpB, wr, wrapD, Ref.affine, List.append_assoc]
theorem dump_thin (b : Ty) (d : Dat) : dumpB (.thin b) (.thin d) = wr Ref.thin.tag Ref.thin.write [] (dumpB b d) := by
  simp [dumpB, wr, Ref.thin]

/-! ### readers -/
theorem load_clamp (sz N : Nat) (b : Ty) :
    loadB (.clamp sz N b) = bindP (rdS Ref.clamp.tag Ref.clamp.read [readN (rd sz) N, readN (rd sz) N] (loadB b)) fun r =>
      match r with
      | ([lo, hi], some d) => pureP (.clamp lo hi d)
      | _ => failP .truncated := by
  funext bs
  simp only [loadB, rdS, wrapP, bindP, pureP, Ref.clamp]
  cases pHdr T_CLAMP bs with
  | error e => rfl
  | ok r1 =>
    simp only
    cases readN (rd sz) N r1.2 with
    | error e => rfl
    | ok r2 =>
      simp only
      cases readN (rd sz) N r2.2 with
      | error e => rfl
      | ok r3 =>
        simp only
        cases loadB b r3.2 with
        | error e => rfl
        | ok r4 =>
          simp only
          cases pFtr T_CLAMP r4.2 with
          | error e => rfl
          | ok r5 => rfl



theorem load_constant (sz M : Nat) :
    loadB (.constant sz M) = bindP (rdS Ref.constant.tag Ref.constant.read [readN (rd sz) M] (pureP .identity)) fun r =>
      match r with
      | ([v], none) => pureP (.constant v)
      | _ => failP .truncated := by
  funext bs
  simp only [loadB, rdS, wrapP, bindP, pureP, Ref.constant]
  cases pHdr T_CONST bs with
  | error e => rfl
  | ok r1 =>
    simp only
    cases readN (rd sz) M r1.2 with
    | error e => rfl
    | ok r2 =>
      simp only
      cases pFtr T_CONST r2.2 with
      | error e => rfl
      | ok r3 => rfl

theorem load_identity :
    loadB .identity = bindP (rdS Ref.identity.tag Ref.identity.read [] (pureP .identity)) fun r =>
      match r with
      | ([], none) => pureP .identity
      | _ => failP .truncated := by
  funext bs
  simp only [loadB, rdS, wrapP, bindP, pureP, Ref.identity]
  cases pHdr T_IDENT bs with
  | error e => rfl
  | ok r1 =>
    simp only
    cases pFtr T_IDENT r1.2 with
    | error e => rfl
    | ok r2 => rfl

theorem load_sized (s : Script) (hs : s.read = [.hdr, .field .sizes, .inner, .ftr]) (N : Nat) (b : Ty) :
    loadB (.sized s.tag N b) = bindP (rdS s.tag s.read [readN (rd 8) N] (loadB b)) fun r =>
      match r with
      | ([cfg], some d) => pureP (.sized cfg d)
      | _ => failP .truncated := by
  funext bs
  simp only [loadB, rdS, wrapP, bindP, pureP, hs]
  cases pHdr s.tag bs with
  | error e => rfl
  | ok r1 =>
    simp only
    cases readN (rd 8) N r1.2 with
    | error e => rfl
    | ok r2 =>
      simp only
      cases loadB b r2.2 with
      | error e => rfl
      | ok r3 =>
        simp only
        cases pFtr s.tag r3.2 with
        | error e => rfl
        | ok r4 => rfl

theorem load_backup (sz N osz M : Nat) (b : Ty) :
    loadB (.backup sz N osz M b)
      = bindP (rdS Ref.backup.tag Ref.backup.read [readN (rd sz) N, readN (rd sz) N, readN (rd osz) M] (loadB b)) fun r =>
      match r with
      | ([lo, hi, df], some d) => pureP (.backup lo hi df d)
      | _ => failP .truncated := by
  funext bs
  simp only [loadB, rdS, wrapP, bindP, pureP, Ref.backup]
  cases pHdr T_BACKUP bs with
  | error e => rfl
  | ok r1 =>
    simp only
    cases readN (rd sz) N r1.2 with
    | error e => rfl
    | ok r2 =>
      simp only
      cases readN (rd sz) N r2.2 with
      | error e => rfl
      | ok r3 =>
        simp only
        cases readN (rd osz) M r3.2 with
        | error e => rfl
        | ok r4 =>
          simp only
          cases loadB b r4.2 with
          | error e => rfl
          | ok r5 =>
            simp only
            cases pFtr T_BACKUP r5.2 with
            | error e => rfl
            | ok r6 => rfl

theorem load_affine (sz N : Nat) (b : Ty) :
    loadB (.affine sz N b) = bindP (rdS Ref.affine.tag Ref.affine.read [readN (rd sz) (N * (N + 1))] (loadB b)) fun r =>
      match r with
      | ([m], some d) => pureP (.affine m d)
      | _ => failP .truncated := by
  funext bs
  simp only [loadB, rdS, wrapP, bindP, pureP, Ref.affine]
  cases pHdr T_AFFINE bs with
  | error e => rfl
  | ok r1 =>
    simp only
    cases readN (rd sz) (N * (N + 1)) r1.2 with
    | error e => rfl
    | ok r2 =>
      simp only
      cases loadB b r2.2 with
      | error e => rfl
      | ok r3 =>
        simp only
        cases pFtr T_AFFINE r3.2 with
        | error e => rfl
        | ok r4 => rfl

theorem load_thin (b : Ty) :
    loadB (.thin b) = bindP (rdS Ref.thin.tag Ref.thin.read [] (loadB b)) fun r =>
      match r with
      | ([], some d) => pureP (.thin d)
      | _ => failP .truncated := by
  funext bs
  simp only [loadB, rdS, wrapP, bindP, pureP, Ref.thin]
  cases loadB b bs with
  | error e => rfl
  | ok r1 => rfl

/-- `field::dump` as written is the model's `dump` -/
theorem dump_field (ty : Ty) (d : Dat) : dump ty d = wr Ref.field.tag Ref.field.write [] (dumpB ty d) := by
  simp [dump, wr, wrapD, Ref.field, List.append_assoc]

/-- `field(std::istream&)` as written (header inside the member initialiser, stack, footer in the body) is the model's `load` -/
theorem load_field (ty : Ty) :
    load ty = bindP (rdS Ref.field.tag Ref.field.read [] (loadB ty)) fun r =>
      match r with
      | ([], some d) => pureP d
      | _ => failP .truncated := by
  funext bs
  simp only [load, rdS, wrapP, bindP, pureP, Ref.field]
  cases pHdr T_FIELD bs with
  | error e => rfl
  | ok r1 =>
    simp only
    cases loadB ty r1.2 with
    | error e => rfl
    | ok r2 =>
      simp only
      cases pFtr T_FIELD r2.2 with
      | error e => rfl
      | ok r3 => rfl

/-- the three storage orders share one script shape and differ in the tag only -/
theorem sized_scripts : Ref.strided.write = [.hdr, .field .sizes, .inner, .ftr] ∧ Ref.morton.write = [.hdr, .field .sizes, .inner, .ftr]
    ∧ Ref.hilbert.write = [.hdr, .field .sizes, .inner, .ftr] ∧ Ref.strided.read = Ref.strided.write
    ∧ Ref.morton.read = Ref.morton.write ∧ Ref.hilbert.read = Ref.hilbert.write
    ∧ Ref.strided.tag = T_STRIDED ∧ Ref.morton.tag = T_MORTON ∧ Ref.hilbert.tag = T_HILBERT := by decide

end Covfie.IO
