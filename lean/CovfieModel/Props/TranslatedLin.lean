import CovfieModel.Model.LinRef
import CovfieModel.Model.Interp
import CovfieModel.Props.C03
/-! # The weighted sums of `linear.hpp`, as translated from the source text, are the model's `lin1` / `lin2` / `lin3`

`Covfie.Lin.Ref.lin1/2/3` are what `harness/cxx2lin.py` produces from the three specialised branches of
`linear<…>::non_owning_data_t::at` (after checking that the integer part is `static_cast<index>(coord[k])`, the fraction
`coord[k] - std::trunc(coord[k])`, the complement `1 - fraction`, and that corner `n` is fetched at
`i_k + ((n & mask_k) ? 1 : 0)`).  Every check of C03 re-translates the current text and compares. -/
namespace Covfie.Lin

variable {α : Type} [Add α] [Mul α] [Sub α] [OfNat α 1]

theorem lin1_translated (a : α) (v : List Bool → α) : Ref.lin1.eval [a] v = lin1 a v := rfl
theorem lin2_translated (a b : α) (v : List Bool → α) : Ref.lin2.eval [a, b] v = lin2 a b v := rfl
theorem lin3_translated (a b c : α) (v : List Bool → α) : Ref.lin3.eval [a, b, c] v = lin3 a b c v := rfl

/-- corner `n` of the 3-D branch is offset on axis 0 by bit 2 of `n`, on axis 1 by bit 1, on axis 2 by bit 0
(axis 0 most significant), and likewise for the other two branches -/
theorem corner_lin3 (n : Nat) (h : n < 8) : corner Ref.lin3.masks n = [n / 4 % 2 == 1, n / 2 % 2 == 1, n % 2 == 1] := by
  have : n = 0 ∨ n = 1 ∨ n = 2 ∨ n = 3 ∨ n = 4 ∨ n = 5 ∨ n = 6 ∨ n = 7 := by omega
  rcases this with h | h | h | h | h | h | h | h <;> subst h <;> decide
theorem corner_lin2 (n : Nat) (h : n < 4) : corner Ref.lin2.masks n = [n / 2 % 2 == 1, n % 2 == 1] := by
  have : n = 0 ∨ n = 1 ∨ n = 2 ∨ n = 3 := by omega
  rcases this with h | h | h | h <;> subst h <;> decide
theorem corner_lin1 (n : Nat) (h : n < 2) : corner Ref.lin1.masks n = [n % 2 == 1] := by
  have : n = 0 ∨ n = 1 := by omega
  rcases this with h | h <;> subst h <;> decide

end Covfie.Lin

namespace Covfie.Lin
/-- the three translated branches compute the N-linear interpolant of the corner values (any commutative ring) -/
theorem translated_eq_nlin {α : Type} [CommRing α] (a b c : α) (v : List Bool → α) :
    Ref.lin1.eval [a] v = nlin [a] v ∧ Ref.lin2.eval [a, b] v = nlin [a, b] v ∧ Ref.lin3.eval [a, b, c] v = nlin [a, b, c] v :=
  ⟨by rw [lin1_translated]; exact C03.branch1_eq_nlin a v, by rw [lin2_translated]; exact C03.branch2_eq_nlin a b v,
   by rw [lin3_translated]; exact C03.branch3_eq_nlin a b c v⟩
end Covfie.Lin
