import CovfieModel.Model.RImpRef
import CovfieModel.Props.TranslatedCompose
import CovfieModel.Model.Interp
import CovfieModel.Lemmas.Hilbert
/-! # The generic (N ≥ 4) branch of `linear<…>::at`, as translated, is the model's `linGenericC` -/
namespace Covfie.RImp
open Covfie.Imp (iter iterN iter_count iterN_succ')

variable {α : Type} [Add α] [Mul α] [Sub α] [OfNat α 0] [OfNat α 1]

/-- the factor the code picks for axis `m` of corner `n` -/
def wsel (vs rs : List Nat → α) (n m : Nat) : α := if n &&& (1 <<< m) ≠ 0 then vs [m] else rs [m]
/-- `f = f0; for m < D: f *= …` -/
def wprod (vs rs : List Nat → α) (n D : Nat) (f0 : α) : α := (List.range D).foldl (fun f m => f * wsel vs rs n m) f0

def lgStepM (vs rs : List Nat → α) (n : Nat) (s : α × Nat) : α × Nat := (s.1 * wsel vs rs n s.2, s.2 + 1)

theorem lgM_iterN (vs rs : List Nat → α) (n : Nat) : ∀ d f m,
    iterN (lgStepM vs rs n) d (f, m) = ((List.range' m d).foldl (fun f m => f * wsel vs rs n m) f, m + d) := by
  intro d
  induction d with
  | zero => intro f m; simp [iterN]
  | succ d ih => intro f m; rw [iterN, lgStepM, ih, List.range'_succ, List.foldl_cons]; simp only; congr 1; omega

def lgEnv (D M n q m : Nat) (f : α) (vs rs pc rv : List Nat → α) : Env α := ⟨[D, M, n, q, m], [f], [vs, rs, pc, rv]⟩

def lgBodyM : Stmt :=
  .seq (.ite (.bin .band .S (.var 2) (.bin .shl .S (.lit 1) (.var 4)))
      (.rassign 0 (.mul (.rvar 0) (.get 0 [(.var 4)]))) (.rassign 0 (.mul (.rvar 0) (.get 1 [(.var 4)]))))
    (.iassign 4 (.bin .add .S (.var 4) (.lit 1)))

theorem lg_loopM (F D M n q : Nat) (f : α) (vs rs pc rv : List Nat → α) (hD : D < 64) (hn : n < 2^64) (hF : D < F) :
    wloop (fun env => ieval env (.bin .lt .S (.var 4) (.var 0)) ≠ 0) (exec (α := α) F lgBodyM) F (lgEnv D M n q 0 f vs rs pc rv)
    = some (lgEnv D M n q D (wprod vs rs n D f) vs rs pc rv) := by
  have := wloop_count (fun env => ieval env (.bin .lt .S (.var 4) (.var 0)) ≠ 0) (exec (α := α) F lgBodyM)
    (fun (s : α × Nat) => lgEnv D M n q s.2 s.1 vs rs pc rv) (fun s => s.2) D (lgStepM vs rs n)
    (by intro s _; simp [lgEnv, ieval, Covfie.Imp.eval, Covfie.Imp.evalBin])
    (by
      intro ⟨f, m⟩ hm
      simp only at hm
      have hm1 : (m + 1) % 2^64 = m + 1 := Nat.mod_eq_of_lt (by omega)
      have hsh : (1 <<< m) % 2^64 = 1 <<< m := by
        rw [Nat.one_shiftLeft]; exact Nat.mod_eq_of_lt (Nat.pow_lt_pow_right (by omega) (by omega))
      by_cases hb : n &&& (1 <<< m) ≠ 0
      · simp [lgBodyM, lgEnv, exec_seq, exec_ite, exec_rassign, exec_iassign, reval, ieval, Covfie.Imp.eval, Covfie.Imp.evalBin,
          Covfie.Imp.bits, lgStepM, wsel, hm1, hsh, hb]
      · have hb' : n &&& (1 <<< m) = 0 := by simpa using hb
        simp [lgBodyM, lgEnv, exec_seq, exec_ite, exec_rassign, exec_iassign, reval, ieval, Covfie.Imp.eval, Covfie.Imp.evalBin,
          Covfie.Imp.bits, lgStepM, wsel, hm1, hsh, hb'])
    (by intro s _; rfl) (f, 0) (Nat.zero_le _) F (by simpa using hF)
  simp only [Nat.sub_zero, lgM_iterN, Nat.zero_add] at this
  rw [this, wprod, List.range_eq_range']


def lgBodyN : Stmt :=
  .seq (.seq (.rassign 0 .one) (.seq (.iassign 4 (.lit 0)) (.seq (.while (.bin .lt .S (.var 4) (.var 0)) lgBodyM)
      (.rset 3 [(.var 3)] (.add (.get 3 [(.var 3)]) (.mul (.rvar 0) (.get 2 [(.var 2), (.var 3)])))))))
    (.iassign 2 (.bin .add .S (.var 2) (.lit 1)))

structure LN (α : Type) where
  rv : List Nat → α
  n : Nat
  f : α
  m : Nat

def lgStepN (vs rs pc : List Nat → α) (D q : Nat) (s : LN α) : LN α :=
  ⟨upd s.rv [q] (s.rv [q] + wprod vs rs s.n D 1 * pc [s.n, q]), s.n + 1, wprod vs rs s.n D 1, D⟩

theorem lg_bodyN (F D M q : Nat) (vs rs pc : List Nat → α) (hD : D < 64) (hF : D < F) (s : LN α) (hn : s.n < 2^D) :
    exec F lgBodyN (lgEnv D M s.n q s.m s.f vs rs pc s.rv)
      = some ((fun (s : LN α) => lgEnv D M s.n q s.m s.f vs rs pc s.rv) (lgStepN vs rs pc D q s)) := by
  obtain ⟨rv, n, f, m⟩ := s
  simp only at hn
  have h2D : 2^D < 2^64 := Nat.pow_lt_pow_right (by omega) hD
  have hn1 : (n + 1) % 2^64 = n + 1 := Nat.mod_eq_of_lt (by omega)
  have hM := lg_loopM F D M n q (1 : α) vs rs pc rv hD (by omega) hF
  simp only [lgBodyN, exec_seq, exec_rassign, exec_iassign, exec_while, Option.bind_some]
  generalize (fun (env : Env α) => decide (ieval env (.bin .lt .S (.var 4) (.var 0)) ≠ 0)) = condM at hM ⊢
  generalize (exec (α := α) F lgBodyM) = bodyM at hM ⊢
  simp only [lgEnv, reval, ieval, Covfie.Imp.eval, List.set_cons_zero, List.set_cons_succ, Nat.zero_mod] at hM ⊢
  rw [hM]
  simp [exec_rset, exec_iassign, reval, ieval, Covfie.Imp.eval, Covfie.Imp.evalBin, Covfie.Imp.bits, lgStepN, hn1]

theorem lgN_iterN_n (vs rs pc : List Nat → α) (D q : Nat) : ∀ k (s : LN α), (iterN (lgStepN vs rs pc D q) k s).n = s.n + k := by
  intro k
  induction k with
  | zero => intro s; rfl
  | succ k ih => intro s; rw [iterN, ih]; simp only [lgStepN]; omega

theorem lgN_iterN_rv (vs rs pc : List Nat → α) (D q : Nat) : ∀ k (s : LN α) (q' : Nat),
    (iterN (lgStepN vs rs pc D q) k s).rv [q']
      = if q' = q then (List.range' s.n k).foldl (fun acc n => acc + wprod vs rs n D 1 * pc [n, q]) (s.rv [q]) else s.rv [q'] := by
  intro k
  induction k with
  | zero => intro s q'; by_cases h : q' = q <;> simp [iterN, h]
  | succ k ih =>
    intro s q'
    rw [iterN, ih]
    by_cases h : q' = q
    · subst h; simp [lgStepN, upd, List.range'_succ]
    · have : ¬ ([q'] = [q]) := by simp [h]
      simp [lgStepN, upd, h, this]


theorem lg_loopN (F D M q : Nat) (vs rs pc rv : List Nat → α) (f : α) (m : Nat) (hD : D < 64) (hF : D < F) (hF2 : 2^D < F) :
    wloop (fun env => ieval env (.bin .lt .S (.var 2) (.bin .shl .S (.lit 1) (.var 0))) ≠ 0) (exec (α := α) F lgBodyN) F
      (lgEnv D M 0 q m f vs rs pc rv)
    = some ((fun (s : LN α) => lgEnv D M s.n q s.m s.f vs rs pc s.rv) (iterN (lgStepN vs rs pc D q) (2^D) ⟨rv, 0, f, m⟩)) := by
  have hsh : (1 <<< D) % 2^64 = 2^D := by
    rw [Nat.one_shiftLeft]; exact Nat.mod_eq_of_lt (Nat.pow_lt_pow_right (by omega) hD)
  have := wloop_count (fun env => ieval env (.bin .lt .S (.var 2) (.bin .shl .S (.lit 1) (.var 0))) ≠ 0) (exec (α := α) F lgBodyN)
    (fun (s : LN α) => lgEnv D M s.n q s.m s.f vs rs pc s.rv) (fun s => s.n) (2^D) (lgStepN vs rs pc D q)
    (by intro s _; simp [lgEnv, ieval, Covfie.Imp.eval, Covfie.Imp.evalBin, Covfie.Imp.bits, hsh])
    (by intro s hn; exact lg_bodyN F D M q vs rs pc hD hF s hn)
    (by intro s _; rfl) ⟨rv, 0, f, m⟩ (Nat.zero_le _) F (by simpa using hF2)
  simpa using this

def lgBodyQ : Stmt :=
  .seq (.seq (.rset 3 [(.var 3)] .zero) (.seq (.iassign 2 (.lit 0))
      (.while (.bin .lt .S (.var 2) (.bin .shl .S (.lit 1) (.var 0))) lgBodyN)))
    (.iassign 3 (.bin .add .S (.var 3) (.lit 1)))

structure LQ (α : Type) where
  rv : List Nat → α
  q : Nat
  n : Nat
  f : α
  m : Nat

def lgStepQ (vs rs pc : List Nat → α) (D : Nat) (s : LQ α) : LQ α :=
  let r := iterN (lgStepN vs rs pc D s.q) (2^D) ⟨upd s.rv [s.q] 0, 0, s.f, s.m⟩
  ⟨r.rv, s.q + 1, r.n, r.f, r.m⟩

theorem lg_bodyQ (F D M : Nat) (vs rs pc : List Nat → α) (hD : D < 64) (hM : M < 2^64) (hF : D < F) (hF2 : 2^D < F)
    (s : LQ α) (hq : s.q < M) :
    exec F lgBodyQ (lgEnv D M s.n s.q s.m s.f vs rs pc s.rv)
      = some ((fun (s : LQ α) => lgEnv D M s.n s.q s.m s.f vs rs pc s.rv) (lgStepQ vs rs pc D s)) := by
  obtain ⟨rv, q, n, f, m⟩ := s
  simp only at hq
  have hq1 : (q + 1) % 2^64 = q + 1 := Nat.mod_eq_of_lt (by omega)
  have hN := lg_loopN F D M q vs rs pc (upd rv [q] 0) f m hD hF hF2
  simp only [lgBodyQ, exec_seq, exec_rset, exec_iassign, exec_while, Option.bind_some]
  generalize (fun (env : Env α) => decide (ieval env (.bin .lt .S (.var 2) (.bin .shl .S (.lit 1) (.var 0))) ≠ 0)) = condN at hN ⊢
  generalize (exec (α := α) F lgBodyN) = bodyN at hN ⊢
  simp only [lgEnv, reval, ieval, Covfie.Imp.eval, List.set_cons_zero, List.set_cons_succ, List.getD_cons_zero, List.getD_cons_succ,
    List.map_cons, List.map_nil, Nat.zero_mod] at hN ⊢
  rw [hN]
  simp [exec_iassign, ieval, Covfie.Imp.eval, Covfie.Imp.evalBin, Covfie.Imp.bits, lgStepQ, hq1]

theorem lgQ_iterN_q (vs rs pc : List Nat → α) (D : Nat) : ∀ k (s : LQ α), (iterN (lgStepQ vs rs pc D) k s).q = s.q + k := by
  intro k
  induction k with
  | zero => intro s; rfl
  | succ k ih => intro s; rw [iterN, ih]; simp only [lgStepQ]; omega

/-- `rv[q] = 0; for n < 2^D: rv[q] += (Π_m …) * pc[n][q]` -/
def lgSum (vs rs pc : List Nat → α) (D q : Nat) : α :=
  (List.range (2^D)).foldl (fun acc n => acc + wprod vs rs n D 1 * pc [n, q]) 0

theorem lgQ_iterN_rv (vs rs pc : List Nat → α) (D : Nat) : ∀ k (s : LQ α) (q' : Nat),
    (iterN (lgStepQ vs rs pc D) k s).rv [q'] = if s.q ≤ q' ∧ q' < s.q + k then lgSum vs rs pc D q' else s.rv [q'] := by
  intro k
  induction k with
  | zero => intro s q'; simp [iterN]; intro h1 h2; omega
  | succ k ih =>
    intro s q'
    rw [iterN, ih]
    simp only [lgStepQ, lgN_iterN_rv]
    by_cases h1 : q' = s.q
    · subst h1
      simp [upd, lgSum, List.range_eq_range']
    · have : ¬ ([q'] = [s.q]) := by simp [h1]
      by_cases h3 : s.q + 1 ≤ q' ∧ q' < s.q + 1 + k
      · have h4 : s.q ≤ q' ∧ q' < s.q + (k + 1) := by omega
        simp [h3, h4]
      · have h4 : ¬ (s.q ≤ q' ∧ q' < s.q + (k + 1)) := by omega
        simp [h3, h4, h1, upd, this]


/-! ### the complement loop and the assembly -/
def oneInv : List Nat → Option Nat
  | [c] => some c
  | _ => none
theorem oneInv_spec (c : Nat) (ix : List Nat) : ([c] : List Nat) = ix ↔ oneInv ix = some c := by
  constructor
  · intro h; subst h; rfl
  · intro h
    match ix, h with
    | [c'], h => simp only [oneInv, Option.some.injEq] at h; rw [h]

def lgBodyR : Stmt := .seq (.rset 1 [(.var 2)] (.sub .one (.get 0 [(.var 2)]))) (.iassign 2 (.bin .add .S (.var 2) (.lit 1)))
def lgProg : Stmt :=
  .seq (.seq (.iassign 2 (.lit 0)) (.while (.bin .lt .S (.var 2) (.var 0)) lgBodyR))
    (.seq (.iassign 3 (.lit 0)) (.while (.bin .lt .S (.var 3) (.var 1)) lgBodyQ))
theorem lg_shape : Ref.lin_generic = lgProg := rfl

/-- the complements the code computes: `rs[m] = 1 - vs[m]` for `m < D` -/
def compl (D : Nat) (vs rs0 : List Nat → α) : List Nat → α :=
  (iterN (tabStep (fun c => [c]) (fun c => 1 - vs [c])) D (rs0, 0)).1

theorem compl_at (D : Nat) (vs rs0 : List Nat → α) (m : Nat) (hm : m < D) : compl D vs rs0 [m] = 1 - vs [m] := by
  rw [compl, tab_iterN_r (fun c => [c]) (fun c => 1 - vs [c]) oneInv oneInv_spec]
  simp [oneInv, hm]

/-- The generic branch of `linear<…>::at` as written (complement loop and weighted-sum nest): component `q` of the result is
`Σ_n (Π_m (bit m of n ? vs[m] : 1 - vs[m])) · pc[n][q]`, the product accumulated from 1 in the order m = 0 … D−1, the sum from 0 in
the order n = 0 … 2^D − 1. -/
theorem lin_generic_translated (F D M : Nat) (vs rs0 pc rv0 : List Nat → α) (hD : D < 64) (hM : M < 2^64)
    (hF : D < F ∧ 2^D < F ∧ M < F) (n0 q0 m0 : Nat) (f0 : α) :
    ∃ env' : Env α, exec F Ref.lin_generic ⟨[D, M, n0, q0, m0], [f0], [vs, rs0, pc, rv0]⟩ = some env'
      ∧ ∀ q, q < M → (env'.arr.getD 3 (fun _ => 0)) [q] = lgSum vs (compl D vs rs0) pc D q := by
  have hR := wloop_count (fun env => ieval env (.bin .lt .S (.var 2) (.var 0)) ≠ 0) (exec (α := α) F lgBodyR)
    (fun (s : (List Nat → α) × Nat) => lgEnv D M s.2 q0 m0 f0 vs s.1 pc rv0) (fun s => s.2) D
    (tabStep (fun c => [c]) (fun c => 1 - vs [c]))
    (by intro s _; simp [lgEnv, ieval, Covfie.Imp.eval, Covfie.Imp.evalBin])
    (by
      intro ⟨r, c⟩ hc
      simp only at hc
      have hc1 : (c + 1) % 2^64 = c + 1 := Nat.mod_eq_of_lt (by omega)
      simp [lgBodyR, lgEnv, exec_seq, exec_rset, exec_iassign, reval, ieval, Covfie.Imp.eval, Covfie.Imp.evalBin, Covfie.Imp.bits,
        tabStep, hc1])
    (by intro s _; rfl) (rs0, 0) (Nat.zero_le _) F (by simpa using hF.1)
  simp only [Nat.sub_zero] at hR
  have hRc : (iterN (tabStep (fun c => [c]) (fun c => 1 - vs [c])) D (rs0, 0)).2 = D := by rw [tab_iterN_c]; simp
  have hQ := wloop_count (fun env => ieval env (.bin .lt .S (.var 3) (.var 1)) ≠ 0) (exec (α := α) F lgBodyQ)
    (fun (s : LQ α) => lgEnv D M s.n s.q s.m s.f vs (compl D vs rs0) pc s.rv) (fun s => s.q) M (lgStepQ vs (compl D vs rs0) pc D)
    (by intro s _; simp [lgEnv, ieval, Covfie.Imp.eval, Covfie.Imp.evalBin])
    (by intro s hq; exact lg_bodyQ F D M vs (compl D vs rs0) pc hD hM hF.1 hF.2.1 s hq)
    (by intro s _; rfl) ⟨rv0, 0, D, f0, m0⟩ (Nat.zero_le _) F (by simpa using hF.2.2)
  simp only [Nat.sub_zero] at hQ
  refine ⟨(fun (s : LQ α) => lgEnv D M s.n s.q s.m s.f vs (compl D vs rs0) pc s.rv)
      (iterN (lgStepQ vs (compl D vs rs0) pc D) M ⟨rv0, 0, D, f0, m0⟩), ?_, ?_⟩
  · rw [lg_shape]
    simp only [lgProg, exec_seq, exec_iassign, exec_while, Option.bind_some]
    simp only [lgEnv, ieval, Covfie.Imp.eval, List.set_cons_zero, List.set_cons_succ, Nat.zero_mod] at hR hQ ⊢
    rw [hR]
    simp only [Option.bind_some, hRc, List.set_cons_zero, List.set_cons_succ, Nat.zero_mod]
    exact hQ
  · intro q hq
    simp [lgEnv, lgQ_iterN_rv, hq]


/-! ### bridge to `linGenericC` of `Model/Interp.lean` -/
theorem bit_iff (n m : Nat) : (n &&& (1 <<< m) ≠ 0) ↔ (n / 2^m) % 2 = 1 := by
  rw [Nat.one_shiftLeft]
  have h := Covfie.and_pow_pos n m
  have h2 : n / 2^m % 2 < 2 := Nat.mod_lt _ (by omega)
  by_cases hp : n &&& 2^m > 0
  · rw [if_pos hp] at h; constructor
    · intro _; omega
    · intro _; omega
  · rw [if_neg hp] at h; constructor
    · intro hne; omega
    · intro h1; omega

theorem wprod_eq_weightGo (vs rs : List Nat → α) (n : Nat) : ∀ d m0 (f : α),
    (∀ m, m0 ≤ m → m < m0 + d → rs [m] = 1 - vs [m]) →
    (List.range' m0 d).foldl (fun f m => f * wsel vs rs n m) f
      = weightGo ((List.range' m0 d).map (fun m => vs [m])) (n / 2^m0) f := by
  intro d
  induction d with
  | zero => intro m0 f _; simp [weightGo]
  | succ d ih =>
    intro m0 f h
    rw [List.range'_succ, List.foldl_cons, List.map_cons, weightGo]
    rw [ih (m0 + 1) _ (fun m h1 h2 => h m (by omega) (by omega))]
    have hdiv : n / 2^m0 / 2 = n / 2^(m0 + 1) := by rw [Nat.div_div_eq_div_mul, Nat.pow_succ]
    rw [hdiv]
    congr 1
    simp only [wsel]
    by_cases hb : n &&& (1 <<< m0) ≠ 0
    · have := (bit_iff n m0).mp hb
      simp [hb, this]
    · have h1 : ¬ ((n / 2^m0) % 2 = 1) := fun e => hb ((bit_iff n m0).mpr e)
      have h0 : n &&& (1 <<< m0) = 0 := by simpa using hb
      simp [h0, h1, h m0 (by omega) (by omega)]

theorem foldl_congr' {β γ : Type} (f g : β → γ → β) : ∀ (l : List γ) (a : β), (∀ acc x, x ∈ l → f acc x = g acc x) →
    l.foldl f a = l.foldl g a := by
  intro l
  induction l with
  | nil => intro a _; rfl
  | cons x xs ih =>
    intro a h
    rw [List.foldl_cons, List.foldl_cons, h a x (List.mem_cons_self), ih _ (fun acc y hy => h acc y (List.mem_cons_of_mem _ hy))]

/-- little-endian value of a bit list -/
def fromBits : List Bool → Nat
  | [] => 0
  | b :: bs => (if b then 1 else 0) + 2 * fromBits bs

theorem fromBits_bitsOf : ∀ N n, n < 2^N → fromBits (bitsOf N n) = n := by
  intro N
  induction N with
  | zero => intro n h; simp at h; subst h; rfl
  | succ N ih =>
    intro n h
    rw [bitsOf, fromBits, ih (n / 2) (by rw [Nat.pow_succ] at h; omega)]
    by_cases hb : n % 2 = 1 <;> simp [hb] <;> omega

/-- Component `q` of what the generic branch as written computes is the model's `linGenericC` of the fractions and the corner
values (hence, `Covfie.C03.linGenericC_eq` / `generic_eq_nlin`, the N-linear interpolant). -/
theorem lin_generic_translated_model (F D M : Nat) (vs rs0 pc rv0 : List Nat → α) (hD : D < 64) (hM : M < 2^64)
    (hF : D < F ∧ 2^D < F ∧ M < F) (n0 q0 m0 : Nat) (f0 : α) :
    ∃ env' : Env α, exec F Ref.lin_generic ⟨[D, M, n0, q0, m0], [f0], [vs, rs0, pc, rv0]⟩ = some env'
      ∧ ∀ q, q < M → (env'.arr.getD 3 (fun _ => 0)) [q]
          = linGenericC ((List.range D).map (fun m => vs [m])) (fun bs => pc [fromBits bs, q]) := by
  obtain ⟨env', h1, h2⟩ := lin_generic_translated F D M vs rs0 pc rv0 hD hM hF n0 q0 m0 f0
  refine ⟨env', h1, fun q hq => ?_⟩
  rw [h2 q hq, lgSum, linGenericC]
  simp only [List.length_map, List.length_range]
  apply foldl_congr'
  intro acc n hn
  have hn' : n < 2^D := by simpa using hn
  rw [fromBits_bitsOf D n hn']
  congr 1
  congr 1
  rw [wprod, weightC, List.range_eq_range', wprod_eq_weightGo vs (compl D vs rs0) n D 0 1
    (fun m _ hm => compl_at D vs rs0 m (by omega))]
  simp

end Covfie.RImp
