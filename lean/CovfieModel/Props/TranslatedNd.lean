import CovfieModel.Model.NdScript
import CovfieModel.Props.C19
/-! # `utility/nd_map.hpp` as written determines the model's `ndMap` (C19)

`harness/cxx2tmpl.py` (`translate_ndmap`) recognises `tail`, `cat` and the three `if constexpr` branches of `nd_map`; `Holds` reads
each as an equation about the meanings of `tail`, `cat` and of the sequence of tuples the callback is called with. Any meanings
satisfying them give the model's visit sequence (`visits_eq`), hence the property (`as_written`); the model satisfies them
(`model_satisfies`). Trusted: that a call of `nd_map` with a recording callback computes by these equations (the lambda
`[f, i](tail_t r) { f(cat({i}, r)); }` prepends `i`; the loops run `i` from 0 below `s.at(0)` without wrap-around, i.e. the
extent fits the index type). -/
namespace Covfie.Nd
open Covfie

/-- the equations as written determine the visit sequence: it is the model's `ndMap` -/
theorem visits_eq (F : Funs) (h : ∀ e ∈ Ref.nd_map, Holds F e) : ∀ sz : List Nat, F.visits sz = ndMap sz := by
  have ht := h .tail (by decide); have hc := h .cat (by decide)
  have h0 := h .nd0 (by decide); have h1 := h .nd1 (by decide); have hN := h .ndN (by decide)
  simp only [Holds] at ht hc h0 h1 hN
  intro sz
  induction sz with
  | nil => simp [h0, ndMap]
  | cons s ss ih =>
    cases ss with
    | nil => rw [h1]; simp [ndMap, List.map_eq_flatMap]
    | cons s' ss =>
      rw [hN, ht, ih]
      simp only [hc, ndMap, List.singleton_append]

/-- C19 for `nd_map` as written: whatever meanings satisfy the recognised declarations and branches, the callback is called with
exactly the tuples of the box, each once, `∏ extents` times in all. -/
theorem as_written (F : Funs) (h : ∀ e ∈ Ref.nd_map, Holds F e) (sz : List Nat) :
    (∀ t, t ∈ F.visits sz ↔ InBox sz t) ∧ (F.visits sz).Nodup ∧ (F.visits sz).length = prodL sz := by
  rw [visits_eq F h sz]
  exact ⟨Covfie.C19.visits_exactly_box sz, Covfie.C19.visits_once sz, Covfie.C19.visit_count sz⟩

/-- not vacuous: the model's functions satisfy every equation -/
theorem model_satisfies : ∀ e ∈ Ref.nd_map, Holds ⟨List.tail, (· ++ ·), ndMap⟩ e := by
  intro e _
  cases e <;> simp only [Holds]
  all_goals first | trivial | (intros; rfl) | (intro s; simp [ndMap, List.map_eq_flatMap]; done) | (intro s s' ss; simp [ndMap])

end Covfie.Nd
