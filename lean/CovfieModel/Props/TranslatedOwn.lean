import CovfieModel.Model.OwnScript
import CovfieModel.Props.C12
/-! # The copy members of `array::owning_data_t`, run as the scripts they are written as, are the machine's steps -/
namespace Covfie.Heap


theorem upd_upd_same' {α} (f : Nat → Option α) (i : Nat) (x y : Option α) : upd (upd f i x) i y = upd f i y := by
  funext j; simp only [upd]; split <;> rfl

theorem take_all {α} (l : List α) (n : Nat) (h : l.length = n) : l.take n = l := by
  subst h; exact List.take_length

/-- what the copy reads, given the invariant: the source's whole buffer -/
theorem srcBuf_of_live (s : CState) (hs : HInv s) (i : Nat) (o : Own) (ho : s.slots i = some o) (a : Addr) (ha : o.ptr = some a) :
    ∃ buf, s.heap a = some buf ∧ buf.length = o.size ∧ srcBuf s o = buf ∧ a < s.next := by
  obtain ⟨n, p⟩ := o
  simp only at ha; subst ha
  obtain ⟨buf, hb, hl⟩ := hs.live i n a ho
  exact ⟨buf, hb, hl, by simp [srcBuf, hb], hs.fresh a (by simp [hb])⟩

theorem copy_ctor_translated (s : CState) (hs : HInv s) (dst src : Nat) :
    runCtor Ref.copy_ctor s dst src = cstep s (.copyCtor dst src) := by
  simp only [runCtor, cstep]
  cases hd : s.slots dst with
  | some d => rfl
  | none =>
    cases hsrc : s.slots src with
    | none => rfl
    | some o =>
      simp only [Ref.copy_ctor, List.foldl_cons, List.foldl_nil]
      cases hp : o.ptr with
      | none =>
        simp [ostep, alloc, hp, srcBuf]
      | some a =>
        obtain ⟨buf, hb, hl, hsb, hlt⟩ := srcBuf_of_live s hs src o hsrc a hp
        have hne : a ≠ s.next := Nat.ne_of_lt hlt
        by_cases hz : o.size > 0
        · simp [ostep, alloc, hp, hz, upd, hne, hb, hsb, take_all buf o.size hl]
          funext j; by_cases hj : j = s.next <;> simp [upd, hj]
        · have h0 : o.size = 0 := by omega
          have hbuf : buf = [] := List.eq_nil_of_length_eq_zero (by rw [hl]; exact h0)
          simp [ostep, alloc, hp, h0, hsb, hbuf, zeros]


theorem free_live' (s : CState) (b : Addr) (buf : List Nat) (h : s.heap b = some buf) :
    free s (some b) = { s with heap := upd s.heap b none } := by
  simp [free, h]

theorem copy_assign_translated (s : CState) (hs : HInv s) (dst src : Nat) :
    runAssign Ref.copy_assign s dst src = cstep s (.copyAssign dst src) := by
  simp only [runAssign, cstep]
  cases hd : s.slots dst with
  | none => rfl
  | some d =>
    cases hsrc : s.slots src with
    | none => rfl
    | some o =>
      by_cases hsame : dst = src
      · subst hsame
        have : (upd s.slots dst (some d)) = s.slots := by
          funext j; by_cases hj : j = dst <;> simp [upd, hj, hd]
        simp [Ref.copy_assign, ostep, this]
      · have hbeq : (dst == src) = false := by simp [hsame]
        simp only [Ref.copy_assign, List.foldl_cons, List.foldl_nil, hbeq, hsame, if_false]
        cases hdp : d.ptr with
        | none =>
          cases hop : o.ptr with
          | none => simp [ostep, alloc, free, hdp, hop, srcBuf]
          | some a =>
            obtain ⟨buf, hb, hl, hsb, hlt⟩ := srcBuf_of_live s hs src o hsrc a hop
            have hne : a ≠ s.next := Nat.ne_of_lt hlt
            by_cases hz : o.size > 0
            · simp [ostep, alloc, free, hdp, hop, hz, upd, hne, hb, hsb, take_all buf o.size hl]
              funext j; by_cases hj : j = s.next <;> simp [upd, hj]
            · have h0 : o.size = 0 := by omega
              have hbuf : buf = [] := List.eq_nil_of_length_eq_zero (by rw [hl]; exact h0)
              simp [ostep, alloc, free, hdp, hop, h0, hsb, hbuf, zeros]
        | some b =>
          obtain ⟨bufd, hbd, _, _, hltd⟩ := srcBuf_of_live s hs dst d hd b hdp
          have hbn : b ≠ s.next := Nat.ne_of_lt hltd
          cases hop : o.ptr with
          | none =>
            simp [ostep, alloc, free, hdp, hop, srcBuf, upd, hbn, hbd]
          | some a =>
            obtain ⟨buf, hb, hl, hsb, hlt⟩ := srcBuf_of_live s hs src o hsrc a hop
            have hne : a ≠ s.next := Nat.ne_of_lt hlt
            have hab : a ≠ b := by
              intro e; subst e
              obtain ⟨no, po⟩ := o; obtain ⟨nd, pd⟩ := d
              simp only at hop hdp; subst hop; subst hdp
              exact hsame (hs.noalias dst src nd no a hd hsrc)
            by_cases hz : o.size > 0
            · simp [ostep, alloc, free, hdp, hop, hz, upd, hne, hbn, hab, hb, hbd, hsb, take_all buf o.size hl]
              funext j
              by_cases hj : j = s.next
              · subst hj; simp [upd, hbn.symm]
              · by_cases hjb : j = b <;> simp [upd, hj, hjb, hbn]
            · have h0 : o.size = 0 := by omega
              have hbuf : buf = [] := List.eq_nil_of_length_eq_zero (by rw [hl]; exact h0)
              simp [ostep, alloc, free, hdp, hop, h0, hsb, hbuf, zeros, upd, hbn, hbd]


/-- after any history the invariant holds (`Covfie.C12.history_inv`), so on every reachable state the copy members as written
are exactly the machine's `copyCtor` / `copyAssign` steps -/
theorem copy_members_on_reachable (ops : List Op) (dst src : Nat) :
    runCtor Ref.copy_ctor (ops.foldl cstep cinit) dst src = cstep (ops.foldl cstep cinit) (.copyCtor dst src) ∧
    runAssign Ref.copy_assign (ops.foldl cstep cinit) dst src = cstep (ops.foldl cstep cinit) (.copyAssign dst src) :=
  ⟨copy_ctor_translated _ (Covfie.C12.history_inv ops) dst src, copy_assign_translated _ (Covfie.C12.history_inv ops) dst src⟩

end Covfie.Heap
