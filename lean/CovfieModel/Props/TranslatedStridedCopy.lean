import CovfieModel.Props.Translated
/-! # The index loop of `make_strided_copy` (the position a conversion to row-major writes to) is `stridedIdxW` too -/
namespace Covfie.Imp

theorem mod64_mod (a w : Nat) (hw : w ≤ 64) : a % 2^64 % 2^w = a % 2^w :=
  Nat.mod_mod_of_dvd a (Nat.pow_dvd_pow 2 hw)

def scInnerStep (w : Nat) (sizes : List Nat) (s : Nat × Nat) : Nat × Nat :=
  (s.1 * sizes.getD s.2 0 % 2^64 % 2^w, s.2 + 1)

theorem scInner_iterN (w : Nat) (hw : w ≤ 64) (sizes : List Nat) : ∀ d tmp l, sizes.length - l = d → l ≤ sizes.length →
    iterN (scInnerStep w sizes) d (tmp, l) = (stridedTmpW w tmp (sizes.drop l), sizes.length) := by
  intro d
  induction d with
  | zero =>
    intro tmp l hd hl
    have : l = sizes.length := by omega
    subst this
    simp [iterN, stridedTmpW]
  | succ d ih =>
    intro tmp l hd hl
    have h : l < sizes.length := by omega
    rw [iterN, scInnerStep, ih _ _ (by simp only; omega) (by simp only; omega), List.drop_eq_getElem_cons h, stridedTmpW]
    simp only [List.getD_eq_getElem?_getD, List.getElem?_eq_getElem h, Option.getD_some]
    rw [mod64_mod _ w hw, Nat.mul_mod tmp, Nat.mul_mod tmp (sizes[l] % 2^w), Nat.mod_mod]

theorem sc_inner (w F idx k : Nat) (hw : w ≤ 64) (c sizes : List Nat) (hlen : sizes.length < 2^64)
    (l tmp f : Nat) (hl : l ≤ sizes.length) (hf : sizes.length - l < f) :
    whileLoop (fun env => eval w env (.bin .lt .S (.var 4) (.var 0)) ≠ 0)
      (exec w F (.seq (.assign 3 .T (.bin .mul .S (.var 3) (.idx 1 (.var 4))))
        (.assign 4 .S (.bin .add .S (.var 4) (.lit 1))))) f ⟨[sizes.length, idx, k, tmp, l], [c, sizes]⟩
    = some ⟨[sizes.length, idx, k, stridedTmpW w tmp (sizes.drop l), sizes.length], [c, sizes]⟩ := by
  have hsim := whileLoop_sim (fun env => eval w env (.bin .lt .S (.var 4) (.var 0)) ≠ 0)
    (exec w F (.seq (.assign 3 .T (.bin .mul .S (.var 3) (.idx 1 (.var 4))))
        (.assign 4 .S (.bin .add .S (.var 4) (.lit 1)))))
    (fun (s : Nat × Nat) => ⟨[sizes.length, idx, k, s.1, s.2], [c, sizes]⟩) (fun s => s.2 ≤ sizes.length)
    (fun s => decide (s.2 < sizes.length)) (scInnerStep w sizes)
    (by intro s _; simp [eval, evalBin])
    (by
      intro ⟨t, l⟩ hl' hc
      simp only [decide_eq_true_eq] at hc hl'
      have hl1 : (l + 1) % 2^64 = l + 1 := Nat.mod_eq_of_lt (by omega)
      simp [exec_seq, exec_assign, eval, evalBin, Env.set, bits, scInnerStep, hl1])
    (by intro ⟨t, l⟩ hl' hc; simp only [decide_eq_true_eq] at hc; simp only [scInnerStep]; omega)
  rw [hsim f (tmp, l) hl, iter_count (fun (s : Nat × Nat) => s.2) sizes.length (scInnerStep w sizes)
    (by intro a _; rfl) (sizes.length - l) (tmp, l) rfl f hf, scInner_iterN w hw sizes _ tmp l rfl hl]
  rfl

def scOuterStep (w : Nat) (c sizes : List Nat) (s : Nat × Nat × Nat × Nat) : Nat × Nat × Nat × Nat :=
  let t := stridedTmpW w (c.getD s.2.1 0 % 2^w) (sizes.drop (s.2.1 + 1))
  ((s.1 + t) % 2^w, s.2.1 + 1, t, sizes.length)

theorem sc_outer_body (w F : Nat) (hw : w ≤ 64) (c sizes : List Nat) (hlen : sizes.length < 2^64) (hF : sizes.length < F)
    (s : Nat × Nat × Nat × Nat) (hk : s.2.1 < sizes.length) :
    exec w F (.seq (.seq (.assign 3 .T (.idx 0 (.var 2)))
        (.seq (.seq (.assign 4 .S (.bin .add .S (.var 2) (.lit 1)))
          (.while (.bin .lt .S (.var 4) (.var 0))
            (.seq (.assign 3 .T (.bin .mul .S (.var 3) (.idx 1 (.var 4))))
              (.assign 4 .S (.bin .add .S (.var 4) (.lit 1))))))
          (.assign 1 .T (.bin .add .T (.var 1) (.var 3)))))
        (.assign 2 .S (.bin .add .S (.var 2) (.lit 1))))
      ⟨[sizes.length, s.1, s.2.1, s.2.2.1, s.2.2.2], [c, sizes]⟩
    = some ((fun (s : Nat × Nat × Nat × Nat) => (⟨[sizes.length, s.1, s.2.1, s.2.2.1, s.2.2.2], [c, sizes]⟩ : Env))
        (scOuterStep w c sizes s)) := by
  obtain ⟨idx, k, t0, l0⟩ := s
  dsimp only at hk ⊢
  have hk1 : (k + 1) % 2^64 = k + 1 := Nat.mod_eq_of_lt (by omega)
  have hinner := sc_inner w F idx k hw c sizes hlen (k+1) (c.getD k 0 % 2^w) F (by omega) (by omega)
  simp only [exec_seq, exec_assign, exec_while, Option.bind_some]
  generalize (fun env => decide (eval w env (.bin .lt .S (.var 4) (.var 0)) ≠ 0)) = condI at hinner ⊢
  generalize exec w F (.seq (.assign 3 .T (.bin .mul .S (.var 3) (.idx 1 (.var 4))))
        (.assign 4 .S (.bin .add .S (.var 4) (.lit 1)))) = bodyI at hinner ⊢
  simp only [eval, evalBin, Env.set, bits, List.getD_cons_zero, List.getD_cons_succ, List.set_cons_zero,
    List.set_cons_succ, hk1]
  rw [hinner]
  simp [exec_assign, eval, evalBin, Env.set, bits, scOuterStep, hk1]

theorem scOuter_iterN (w : Nat) (c sizes : List Nat) (hN : sizes.length = c.length) :
    ∀ d idx k t l, sizes.length - k = d → k ≤ sizes.length → idx < 2^w →
    ∃ t' l', iterN (scOuterStep w c sizes) d (idx, k, t, l)
      = ((idx + stridedIdxW w (sizes.drop k) (c.drop k)) % 2^w, sizes.length, t', l') := by
  intro d
  induction d with
  | zero =>
    intro idx k t l hd hk hidx
    have : k = sizes.length := by omega
    subst this
    refine ⟨t, l, ?_⟩
    simp [iterN, hN, stridedIdxW, Nat.mod_eq_of_lt hidx]
  | succ d ih =>
    intro idx k t l hd hk hidx
    have h : k < sizes.length := by omega
    have h' : k < c.length := by omega
    obtain ⟨t', l', e⟩ := ih ((idx + stridedTmpW w (c.getD k 0 % 2^w) (sizes.drop (k + 1))) % 2^w) (k+1)
      (stridedTmpW w (c.getD k 0 % 2^w) (sizes.drop (k + 1))) sizes.length (by omega) (by omega)
      (Nat.mod_lt _ (Nat.two_pow_pos w))
    refine ⟨t', l', ?_⟩
    rw [iterN]
    simp only [scOuterStep]
    rw [e, List.drop_eq_getElem_cons h, List.drop_eq_getElem_cons h', stridedIdxW]
    simp [List.getD_eq_getElem?_getD, List.getElem?_eq_getElem h', Nat.add_assoc]

/-- The index loop inside `make_strided_copy` as written leaves `stridedIdxW w sizes t` in `idx`: a conversion to row-major writes
the cell of lattice point `t` exactly where `strided::at` will look for it (`strided_index_translated`). -/
theorem strided_copy_index_translated (w F : Nat) (hw : w ≤ 64) (c sizes : List Nat) (hN : sizes.length = c.length)
    (hlen : sizes.length < 2^64) (hF : sizes.length < F) (i0 k0 t0 l0 : Nat) :
    ∃ env', exec w F Ref.strided_copy_index ⟨[sizes.length, i0, k0, t0, l0], [c, sizes]⟩ = some env'
      ∧ env'.sc.getD 1 0 = stridedIdxW w sizes c := by
  have hsim := whileLoop_sim (fun env => eval w env (.bin .lt .S (.var 2) (.var 0)) ≠ 0) _
    (fun (s : Nat × Nat × Nat × Nat) => (⟨[sizes.length, s.1, s.2.1, s.2.2.1, s.2.2.2], [c, sizes]⟩ : Env))
    (fun s => s.2.1 ≤ sizes.length) (fun s => decide (s.2.1 < sizes.length)) (scOuterStep w c sizes)
    (by intro s _; simp [eval, evalBin])
    (by intro s _ hc; simp only [decide_eq_true_eq] at hc; exact sc_outer_body w F hw c sizes hlen hF s hc)
    (by intro s _ hc; simp only [decide_eq_true_eq] at hc; simp only [scOuterStep]; omega)
  obtain ⟨t', l', e⟩ := scOuter_iterN w c sizes hN (sizes.length - 0) 0 0 t0 l0 rfl (by omega) (Nat.two_pow_pos w)
  refine ⟨⟨[sizes.length, stridedIdxW w sizes c % 2^w, sizes.length, t', l'], [c, sizes]⟩, ?_, ?_⟩
  · simp only [Ref.strided_copy_index, exec_seq, exec_assign, exec_while, Option.bind_some]
    have e0 : ((Env.set ⟨[sizes.length, i0, k0, t0, l0], [c, sizes]⟩ 1
        (eval w ⟨[sizes.length, i0, k0, t0, l0], [c, sizes]⟩ (.lit 0) % 2 ^ bits w .T)).set 2
        (eval w (Env.set ⟨[sizes.length, i0, k0, t0, l0], [c, sizes]⟩ 1
          (eval w ⟨[sizes.length, i0, k0, t0, l0], [c, sizes]⟩ (.lit 0) % 2 ^ bits w .T)) (.lit 0) % 2 ^ bits w .S))
        = ⟨[sizes.length, 0, 0, t0, l0], [c, sizes]⟩ := by
      simp [Env.set, eval, bits]
    rw [e0, hsim F (0, 0, t0, l0) (by simp),
      iter_count (fun (s : Nat × Nat × Nat × Nat) => s.2.1) sizes.length (scOuterStep w c sizes)
        (by intro a _; rfl) (sizes.length - 0) (0, 0, t0, l0) rfl F (by omega), e]
    simp
  · simp [Nat.mod_eq_of_lt (stridedIdxW_lt w sizes c)]

end Covfie.Imp
