import CovfieModel.Model.TmplScript
import CovfieModel.Props.C20
/-! # `utility/static_permutation.hpp` as written determines the model's `sortSeq` / `isPerm` (C20)

The header is a functional program over index sequences written as template specialisations. `harness/cxx2tmpl.py` recognises every
specialisation as one of the equations of `Model/TmplScript.lean`; `Holds` reads an equation as a statement about the meanings of
the five templates. The theorems: *any* meanings that satisfy the recognised equations are the model's functions (`sort_eq`,
`perm_eq`: the equations determine them, by induction on the length), hence have the property (`as_written`); and the model's
functions do satisfy them (`model_satisfies`), so the statement is not vacuous. -/
namespace Covfie.Tmpl
open Covfie

theorem sortFuel_mono : ∀ (f g : Nat) (l : List Nat), l.length ≤ f → l.length ≤ g → sortFuel f l = sortFuel g l := by
  intro f
  induction f with
  | zero => intro g l hl _; have : l = [] := List.length_eq_zero_iff.mp (by omega); subst this; cases g <;> simp [sortFuel]
  | succ f ih =>
    intro g l hl hg
    cases l with
    | nil => cases g <;> simp [sortFuel]
    | cons p xs =>
      cases g with
      | zero => simp at hg
      | succ g =>
        have l1 : (xs.filter (· < p)).length ≤ xs.length := List.length_filter_le _ _
        have l2 : (xs.filter (fun x => decide (x ≥ p))).length ≤ xs.length := List.length_filter_le _ _
        simp only [List.length_cons] at hl hg
        simp only [sortFuel]
        rw [ih g _ (by omega) (by omega), ih g (xs.filter (fun x => decide (x ≥ p))) (by omega) (by omega)]

variable (F : Funs) (h : ∀ e ∈ Ref.static_permutation, Holds F e)
include h

theorem lt_eq (n : Nat) (l : List Nat) : F.lt n l = l.filter (· < n) := by
  have hc := h .concat (by decide); have h0 := h .ltNil (by decide); have h1 := h .ltCons (by decide)
  simp only [Holds] at hc h0 h1
  induction l with
  | nil => simp [h0]
  | cons v vs ih => rw [h1, hc, ih]; by_cases hv : v < n <;> simp [hv]

theorem geq_eq (n : Nat) (l : List Nat) : F.geq n l = l.filter (fun x => decide (x ≥ n)) := by
  have hc := h .concat (by decide); have h0 := h .geqNil (by decide); have h1 := h .geqCons (by decide)
  simp only [Holds] at hc h0 h1
  induction l with
  | nil => simp [h0]
  | cons v vs ih => rw [h1, hc, ih]; by_cases hv : v ≥ n <;> simp [hv]

theorem sort_eq_fuel : ∀ (f : Nat) (l : List Nat), l.length ≤ f → F.sort l = sortFuel f l := by
  have hc := h .concat (by decide); have h0 := h .sortNil (by decide); have h1 := h .sortCons (by decide)
  simp only [Holds] at hc h0 h1
  intro f
  induction f with
  | zero => intro l hl; have : l = [] := List.length_eq_zero_iff.mp (by omega); subst this; simp [h0, sortFuel]
  | succ f ih =>
    intro l hl
    cases l with
    | nil => simp [h0, sortFuel]
    | cons p xs =>
      have l1 : (xs.filter (· < p)).length ≤ f := Nat.le_trans (List.length_filter_le _ _) (by simpa using hl)
      have l2 : (xs.filter (fun x => decide (x ≥ p))).length ≤ f := Nat.le_trans (List.length_filter_le _ _) (by simpa using hl)
      rw [h1, hc, hc, lt_eq F h, geq_eq F h, ih _ l1, ih _ l2]
      simp [sortFuel]

/-- the specialisations as written determine the templates: `sort_index_sequence` is the model's `sortSeq` … -/
theorem sort_eq (l : List Nat) : F.sort l = sortSeq l := sort_eq_fuel F h l.length l (Nat.le_refl _)

/-- … and `is_permutation` is the model's `isPerm` -/
theorem perm_eq (a b : List Nat) : F.perm a b = isPerm a b := by
  have hp := h .permSeq (by decide)
  simp only [Holds] at hp
  rw [hp, sort_eq F h, sort_eq F h]; rfl

/-- C20 for the header as written: whatever meanings satisfy the specialisations read as equations, `sort_index_sequence`
yields a sorted rearrangement of its argument and `is_permutation` holds exactly of rearrangements. -/
theorem as_written (l a b : List Nat) :
    (F.sort l).Perm l ∧ (F.sort l).Pairwise (· ≤ ·) ∧ (F.perm a b = true ↔ a.Perm b) := by
  rw [sort_eq F h, perm_eq F h]
  exact ⟨Covfie.C20.sortSeq_perm l, Covfie.C20.sortSeq_sorted l, Covfie.C20.isPerm_iff a b⟩

omit h in
/-- the equations are satisfiable: the model's functions satisfy every one of them (so `as_written` is not vacuous) -/
theorem model_satisfies :
    ∀ e ∈ Ref.static_permutation, Holds ⟨(· ++ ·), fun n l => l.filter (· < n), fun n l => l.filter (fun x => decide (x ≥ n)), sortSeq, isPerm⟩ e := by
  intro e _
  cases e <;> simp only [Holds]
  · intros; trivial
  · intros; rfl
  · intro n v vs; by_cases hv : v < n <;> simp [hv]
  · intros; rfl
  · intro n v vs; by_cases hv : v ≥ n <;> simp [hv]
  · rfl
  · intro n ns
    show sortFuel (ns.length + 1) (n :: ns) = _
    have l1 : (ns.filter (· < n)).length ≤ ns.length := List.length_filter_le _ _
    have l2 : (ns.filter (fun x => decide (x ≥ n))).length ≤ ns.length := List.length_filter_le _ _
    simp only [sortFuel, sortSeq]
    rw [sortFuel_mono ns.length _ _ l1 (Nat.le_refl _), sortFuel_mono ns.length _ (ns.filter (fun x => decide (x ≥ n))) l2 (Nat.le_refl _)]
    simp
  · intros; rfl

end Covfie.Tmpl
