import CovfieModel.Model.Algebra
import CovfieModel.Model.Scalar
/-! Judge for C09 (`affcheck`): evaluates the model's `affApply` / `affMul` / `affTranslation` / `affScaling` / `affId`
  (the definitions the theorems of `Props/C09.lean` are about) on exact rationals and compares the implementation's
  outputs (bit patterns) with them.

  mode `x` (exact stream): all inputs are integers and every intermediate (bounded by the same computation on absolute
        values) is below 2^24 / 2^53, so every IEEE operation is exact: outputs must EQUAL the model's values;
  mode `b` (bound stream): arbitrary finite inputs: every output must lie within `γ_c · |…| + underflow slack` of the
        model's exact value, `γ_c = c·u/(1−c·u)`, `c` = (number of matrix products / applications on the way) · (N+1),
        `|…|` = the same expression evaluated on absolute values.

  `apply N prec mode | A | v || r`                          r = A * v            (algebra operator, or the affine layer)
  `chain N prec mode k | A1 | … | Ak | v || P | Pr | pv | nest`
        P = ((A1*A2)*…)*Ak, Pr = A1*(…*(Ak-1*Ak)), pv = P*v, nest = A1*(A2*(…(Ak*v)))
  `ctor N prec mode kind | args | v || Mx | r`               kind t|s|i: Mx = translation/scaling/identity(args), r = Mx*v
  answers: `ok|BAD|skip <field>=<e|t|B per entry> … [detail]` -/
open Covfie

def qabs (q : Rat) : Rat := if q < 0 then -q else q

abbrev Mat (N : Nat) := Fin N → Fin (N+1) → Rat
def matOf (N : Nat) (l : List Rat) : Mat N := fun i j => l.getD (i.val * (N+1) + j.val) 0
def matList {N : Nat} (A : Mat N) : List Rat :=
  (List.finRange N).flatMap fun i => (List.finRange (N+1)).map fun j => A i j
def vecOf (N : Nat) (l : List Rat) : Fin N → Rat := fun i => l.getD i.val 0
def vecList {N : Nat} (v : Fin N → Rat) : List Rat := (List.finRange N).map v

/-- the model's operations, tabulated into lists after every step (function-typed state would be re-evaluated) -/
def mulL (N : Nat) (a b : List Rat) : List Rat := matList (affMul (matOf N a) (matOf N b))
def applyL (N : Nat) (a v : List Rat) : List Rat := vecList (affApply (matOf N a) (vecOf N v))

def nats (xs : List String) : Option (List Nat) := xs.mapM (fun s => s.toNat?)
def splitOnTok (sep : String) (xs : List String) : List (List String) :=
  xs.foldr (fun x acc => if x == sep then [] :: acc else match acc with | a :: r => (x :: a) :: r | [] => [[x]]) [[]]
def dec (prec : Nat) (b : Nat) : Num := if prec = 32 then decodeF32 b else decodeF64 b
def ufor (prec : Nat) : Rat := if prec = 32 then uF32 else uF64
def tiny (prec : Nat) : Rat := if prec = 32 then pow2 (-149) else pow2 (-1074)
def exactLimit (prec : Nat) : Rat := if prec = 32 then pow2 24 else pow2 53
def maxFinite (prec : Nat) : Rat := if prec = 32 then pow2 127 else pow2 1023

def decAll (prec : Nat) (l : List Nat) : Option (List Rat) :=
  l.mapM fun b => match dec prec b with | .fin q => some q | _ => none

def maxAbs (l : List Rat) : Rat := l.foldl (fun m x => max m (qabs x)) 0

structure Judge where
  prec : Nat
  exact : Bool
  N : Nat
  slack : Rat        -- underflow slack (bound mode)

/-- per-entry verdict of implementation words against model values; `c` = rounding-error count, `ab` = the same
    expression on absolute values -/
def judge (J : Judge) (c : Nat) (impl : List Nat) (model ab : List Rat) : String × Bool × String := Id.run do
  if impl.length ≠ model.length then return ("?", true, " wrong-length")
  let cu := (c : Rat) * ufor J.prec
  let gamma := cu / (1 - cu)
  let mut s := ""
  let mut bad := false
  let mut detail := ""
  for (w, (m, a)) in impl.zip (model.zip ab) do
    match dec J.prec w with
    | .fin r =>
      if r = m then s := s ++ "e"
      else if !J.exact ∧ qabs (r - m) ≤ gamma * a + J.slack then s := s ++ "t"
      else
        s := s ++ "B"; bad := true
        if detail == "" then detail := s!" impl={r} model={m} bound={gamma * a + J.slack}"
    | _ =>
      s := s ++ "B"; bad := true
      if detail == "" then detail := s!" impl-nonfinite model={m}"
  return (s, bad, detail)

def isInt (q : Rat) : Bool := q.den = 1

def pre (J : Judge) (inputs : List (List Rat)) (absInter : List (List Rat)) : Option String :=
  let worst := (absInter.map maxAbs).foldl max 0
  if J.exact then
    if !(inputs.all (·.all isInt)) then some "skip non-integer-input"
    else if worst ≥ exactLimit J.prec then some "skip not-representable"
    else none
  else if worst ≥ maxFinite J.prec then some "skip overflow-risk"
  else none

def mkJudge (N prec : Nat) (mode : String) (mats : List (List Rat)) (v : List Rat) : Judge :=
  let amp := (mats.map fun m => max 1 (maxAbs m)).foldl (· * ·) (max 1 (maxAbs v))
  let k := mats.length
  { prec := prec, exact := mode == "x", N := N,
    slack := tiny prec * ((k + 1 : Nat) : Rat) * (((N + 1) ^ (k + 2) : Nat) : Rat) * amp }

def doApply (N prec : Nat) (mode : String) (g : List (List Nat)) (o : List (List Nat)) : String :=
  match g, o with
  | [aW, vW], [rW] =>
    match decAll prec aW, decAll prec vW with
    | some a, some v =>
      if a.length ≠ N * (N+1) ∨ v.length ≠ N then "bad-op" else
      let J := mkJudge N prec mode [a] v
      let ab := applyL N (a.map qabs) (v.map qabs)
      match pre J [a, v] [ab] with
      | some s => s
      | none =>
        let (s, bad, d) := judge J (N+1) rW (applyL N a v) ab
        (if bad then "BAD" else "ok") ++ s!" r={s}" ++ d
    | _, _ => "skip nonfinite-input"
  | _, _ => "bad-op"

def doChain (N prec : Nat) (mode : String) (g : List (List Nat)) (o : List (List Nat)) : String :=
  match o with
  | [pW, prW, pvW, nestW] =>
    match g.reverse with
    | vW :: matsRev =>
      let matsW := matsRev.reverse
      match matsW.mapM (decAll prec), decAll prec vW with
      | some mats, some v =>
        if mats.isEmpty ∨ mats.any (·.length ≠ N * (N+1)) ∨ v.length ≠ N then "bad-op" else
        let k := mats.length
        let J := mkJudge N prec mode mats v
        let amats := mats.map (·.map qabs)
        let av := v.map qabs
        -- left-associated products and every intermediate
        let lefts := (mats.drop 1).foldl (fun acc m => acc ++ [mulL N (acc.getLastD []) m]) [mats.headD []]
        let aLefts := (amats.drop 1).foldl (fun acc m => acc ++ [mulL N (acc.getLastD []) m]) [amats.headD []]
        let rights := (mats.reverse.drop 1).foldl (fun acc m => acc ++ [mulL N m (acc.getLastD [])]) [mats.getLastD []]
        let aRights := (amats.reverse.drop 1).foldl (fun acc m => acc ++ [mulL N m (acc.getLastD [])]) [amats.getLastD []]
        let nests := mats.reverse.foldl (fun acc m => acc ++ [applyL N m (acc.getLastD [])]) [v]
        let aNests := amats.reverse.foldl (fun acc m => acc ++ [applyL N m (acc.getLastD [])]) [av]
        let p := lefts.getLastD []
        let pv := applyL N p v
        let apv := applyL N (aLefts.getLastD []) av
        match pre J (mats ++ [v]) (aLefts ++ aRights ++ aNests ++ [apv]) with
        | some s => s
        | none =>
          let (s1, b1, d1) := judge J ((k - 1) * (N+1)) pW p (aLefts.getLastD [])
          let (s2, b2, d2) := judge J ((k - 1) * (N+1)) prW (rights.getLastD []) (aRights.getLastD [])
          let (s3, b3, d3) := judge J (k * (N+1)) pvW pv apv
          let (s4, b4, d4) := judge J (k * (N+1)) nestW (nests.getLastD []) (aNests.getLastD [])
          -- the model's own composition law (C09.affMul_apply): product applied = factors applied in turn
          let law := pv == nests.getLastD [] && p == rights.getLastD []
          let bad := b1 || b2 || b3 || b4 || !law
          (if bad then "BAD" else "ok") ++ s!" P={s1} Pr={s2} pv={s3} nest={s4} law={if law then "eq" else "ne"}" ++
            (if b1 then " [P]" ++ d1 else if b2 then " [Pr]" ++ d2 else if b3 then " [pv]" ++ d3 else if b4 then " [nest]" ++ d4 else "")
      | _, _ => "skip nonfinite-input"
    | [] => "bad-op"
  | _ => "bad-op"

def doCtor (N prec : Nat) (mode kind : String) (g : List (List Nat)) (o : List (List Nat)) : String :=
  match g, o with
  | [argW, vW], [mW, rW] =>
    match decAll prec argW, decAll prec vW with
    | some args, some v =>
      if v.length ≠ N ∨ (kind != "i" ∧ args.length ≠ N) then "bad-op" else
      let m : List Rat :=
        if kind == "t" then matList (affTranslation (vecOf N args))
        else if kind == "s" then matList (affScaling (vecOf N args))
        else matList (affId (α := Rat) N)
      let J := mkJudge N prec mode [m] v
      let ab := applyL N (m.map qabs) (v.map qabs)
      match pre J [if kind == "i" then [] else args, v] [ab] with
      | some s => s
      | none =>
        -- the constructed matrix holds copies of the arguments: exact in either mode
        let (s1, b1, d1) := judge { J with exact := true } 0 mW m (m.map qabs)
        let (s2, b2, d2) := judge J (N+1) rW (applyL N m v) ab
        (if b1 || b2 then "BAD" else "ok") ++ s!" M={s1} r={s2}" ++ (if b1 then " [M]" ++ d1 else if b2 then " [r]" ++ d2 else "")
    | _, _ => "skip nonfinite-input"
  | _, _ => "bad-op"

def answer (toks : List String) : String :=
  match splitOnTok "||" toks with
  | [inp, outp] =>
    let gs := splitOnTok "|" inp
    let os := (splitOnTok "|" outp).mapM nats
    match gs, os with
    | hd :: groups, some o =>
      match groups.mapM nats with
      | some g =>
        match hd with
        | ["apply", n, p, mode] | ["layer", n, p, mode] =>
          match n.toNat?, p.toNat? with
          | some n, some p => doApply n p mode g o
          | _, _ => "bad-op"
        | ["chain", n, p, mode, _k] =>
          match n.toNat?, p.toNat? with
          | some n, some p => doChain n p mode g o
          | _, _ => "bad-op"
        | ["ctor", n, p, mode, kind] =>
          match n.toNat?, p.toNat? with
          | some n, some p => doCtor n p mode kind g o
          | _, _ => "bad-op"
        | _ => "bad-op"
      | none => "bad-op"
    | _, _ => "bad-op"
  | _ => "bad-op"

partial def loop (h : IO.FS.Stream) (out : IO.FS.Stream) : IO Unit := do
  let line ← h.getLine
  if line.isEmpty then return ()
  let toks := (line.trimAscii.toString.splitOn " ").filter (· ≠ "")
  out.putStrLn (answer toks)
  loop h out

def main : IO Unit := do loop (← IO.getStdin) (← IO.getStdout)
