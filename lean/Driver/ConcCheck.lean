import CovfieModel.Model.Stack
import CovfieModel.Model.Conc
open Covfie
/-! C16 driver.
    `fp <interp> <lay> <w> N s1..sN | c1..cN`
        the footprint (trace of flat indices reaching the array) of one lookup of `interp(lay(array))` as evaluated
        by `Covfie.eval`; interp = direct | nn | linear; coordinates are naturals for `direct`, f32 bit patterns otherwise.
        Answer: `k i1 .. ik` (in the evaluator's order) or `ub <reason>`.
    `run T | m0 m1 .. | <thread 0 actions> | .. | <thread T-1 actions> | <schedule: thread ids>`
        actions: `r k c1..ck` (a lookup reading k cells) and `w c v`; runs `Covfie.Conc.run` on the schedule (then lets
        every thread finish in order) and prints the values each thread obtained, threads separated by `|`,
        followed by `; solo` and the same for every thread run alone (`Covfie.Conc.solo`). -/
def nats (xs : List String) : Option (List Nat) := xs.mapM String.toNat?
def splitBar (xs : List String) : List (List String) :=
  xs.foldr (fun x acc => if x == "|" then [] :: acc else match acc with | a :: r => (x :: a) :: r | [] => [[x]]) [[]]

def mkLay (lay : String) (w : Nat) : Option Stack :=
  match lay with
  | "strided" => some (.strided w .array)
  | "mortonT" => some (.mortonT .array)
  | "mortonF" => some (.mortonF .array)
  | "hilbert" => some (.hilbert .array)
  | _ => none

def fp (interp lay : String) (w : Nat) (sz c : List Nat) : String :=
  match mkLay lay w with
  | none => "bad-op"
  | some L =>
    let len := if lay == "strided" then prod sz else curveLen sz
    let cells : List (List Num) := List.replicate len [Num.fin 0]
    let dl : Data := .sized sz (.array cells)
    let r : Option (Stack × Data × List Num) :=
      match interp with
      | "direct" => some (L, dl, c.map fun (n : Nat) => Num.fin ((n : Nat) : Rat))
      | "nn" => some (.nn L, .thin dl, c.map decodeF32)
      | "linear" => some (.linear L, .thin dl, c.map decodeF32)
      | _ => none
    match r with
    | none => "bad-op"
    | some (s, d, co) =>
      match eval (fun x => .ok x) s d co with
      | .error e => s!"ub {repr e}"
      | .ok (_, t) => " ".intercalate ((toString t.length) :: t.map toString)

/-- parse `r k c1..ck` / `w c v` sequences -/
partial def pActs : List String → Option (List Conc.Act)
  | [] => some []
  | "r" :: k :: r => do
      let k ← k.toNat?
      let cs ← nats (r.take k)
      if cs.length ≠ k then none else
      let rest ← pActs (r.drop k)
      pure (.read cs :: rest)
  | "w" :: c :: v :: r => do
      let rest ← pActs r
      pure (.write (← c.toNat?) (← v.toNat?) :: rest)
  | _ => none

/-- tabulate the function-typed state after every step (a chain of closures would be re-walked on every lookup) -/
def tabulate (M T : Nat) (s : Conc.State) : Conc.State :=
  let mem := ((List.range M).map s.mem).toArray
  let rest := ((List.range T).map s.rest).toArray
  let out := ((List.range T).map s.out).toArray
  { mem := fun x => mem.getD x 0, rest := fun t => rest.getD t [], done := fun _ => [], out := fun t => out.getD t [] }

def runConc (T : Nat) (memL : List Nat) (progs : List (List Conc.Act)) (sched : List Nat) : String :=
  let M := memL.length
  let memA := memL.toArray
  let progA := progs.toArray
  let m0 : Conc.Mem := fun x => memA.getD x 0
  let prog : Nat → List Conc.Act := fun t => progA.getD t []
  let total := (progs.map List.length).foldl (· + ·) 0
  -- the sampled schedule, then every thread to completion (a thread that has finished ignores its turns)
  let full := sched ++ (List.range T).flatMap fun t => List.replicate total t
  let fin := full.foldl (fun s t => tabulate M T (Conc.step s t)) (tabulate M T (Conc.init m0 prog))
  let showOuts (os : List (List Nat)) : String := " ".intercalate (os.flatten.map toString)
  let conc := " | ".intercalate ((List.range T).map fun t => showOuts (fin.out t))
  let solo := " | ".intercalate ((List.range T).map fun t => showOuts (Conc.solo m0 (prog t)).2)
  conc ++ " ; solo " ++ solo

def step (line : String) : String :=
  let toks := (line.trimAscii.toString.splitOn " ").filter (· ≠ "")
  match toks with
  | "fp" :: interp :: lay :: w :: n :: rest =>
    match w.toNat?, n.toNat?, splitBar rest with
    | some w, some n, [sz, c] =>
      match nats sz, nats c with
      | some sz, some c => if sz.length = n ∧ c.length = n then fp interp lay w sz c else "bad-op"
      | _, _ => "bad-op"
    | _, _, _ => "bad-op"
  | "run" :: t :: "|" :: rest =>
    match t.toNat?, splitBar rest with
    | some T, mem :: more =>
      if more.length ≠ T + 1 then "bad-op" else
      match nats mem, (more.take T).mapM pActs, nats (more.drop T).head! with
      | some memL, some progs, some sched => runConc T memL progs sched
      | _, _, _ => "bad-op"
    | _, _ => "bad-op"
  | _ => "bad-op"

partial def loop (h : IO.FS.Stream) : IO Unit := do
  let line ← h.getLine
  if line.isEmpty then return ()
  IO.println (step line)
  loop h
def main : IO Unit := do loop (← IO.getStdin)
