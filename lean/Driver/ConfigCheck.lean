import CovfieModel.Model.Config
open Covfie.Config
/-! Judge for construction from parameter packs and configuration read-back (C17).
    Lines:  <op> | ty w… | ty w… | … # ty w… | ty w… | …
      left of `#`: the configurations the field was constructed with, outermost first (the parameter pack / the
      arguments of make_parameter_pack_for); right: what the implementation reports level by level.
      op = chain    : layer i (i applications of get_backend) reports pack[i]
           packfor  : the same for a field built from `packFor args`
           rebuild  : a field rebuilt from the reported configurations is the original; the right-hand side is the
                      chain reported by the rebuilt field -/
def parseCfg (ts : List String) : Option Cfg :=
  match ts with
  | ty :: ws => do pure ⟨← ty.toNat?, ← ws.mapM String.toNat?⟩
  | [] => none
def splitOnTok (sep : String) (xs : List String) : List (List String) :=
  xs.foldr (fun x acc => if x == sep then [] :: acc else match acc with | a :: r => (x :: a) :: r | [] => [[x]]) [[]]
def parseCfgs (ts : List String) : Option (List Cfg) :=
  ((splitOnTok "|" ts).filter (· ≠ [])).mapM parseCfg
def chainOf (o : Own) (n : Nat) : List (Option Cfg) := (List.range n).map fun i => (nthLayer o i).map getConfig
def firstDiff (a b : List (Option Cfg)) : Nat :=
  ((List.range (max a.length b.length)).find? fun i => a[i]? != b[i]?).getD 0
def judgeChain (o : Own) (reported : List Cfg) : String :=
  let want := chainOf o (depth o)
  let got := reported.map some
  if want == got then "ok"
  else s!"BAD level {firstDiff want got}: model {repr (want[firstDiff want got]?.join)} impl {repr (got[firstDiff want got]?.join)} (model depth {depth o}, reported {reported.length})"
def step (line : String) : String :=
  let toks := (line.trimAscii.toString.splitOn " ").filter (· ≠ "")
  match toks with
  | op :: "|" :: rest =>
    match splitOnTok "#" rest with
    | [l, r] =>
      match parseCfgs l, parseCfgs r with
      | some pack, some reported =>
        match op with
        | "chain" => match construct pack with
          | some o => judgeChain o reported
          | none => "model-error empty pack"
        | "packfor" => match construct (packFor pack) with
          | some o => judgeChain o reported
          | none => "model-error empty pack"
        | "rebuild" => match construct pack with
          | some o =>
            if construct (configs o) != some o then "BAD model: rebuild differs"
            else match construct (configs o) with
              | some o' => judgeChain o' reported
              | none => "model-error"
          | none => "model-error empty pack"
        | _ => "bad-op"
      | _, _ => "bad-parse"
    | _ => "bad-op"
  | _ => "bad-op"
partial def loop (h : IO.FS.Stream) : IO Unit := do
  let line ← h.getLine
  if line.isEmpty then return ()
  IO.println (((step line).replace "\n" " ").replace "  " " ")
  loop h
def main : IO Unit := do loop (← IO.getStdin)
