import CovfieModel.Model.Layout
import CovfieModel.Model.NdMap
import CovfieModel.Model.Convert
/-! Driver for C05: the storage a layout conversion produces, computed with `Covfie.convertA` (tabulated form of
    `Covfie.convert`, see `C05.convertA_get`).  A field is described by its extents; the value at coordinate `c` is the
    cell id `1 + rowmajor(c)` (the harness stores `4*id + q` in component `q`; every seventh cell holds -0.0 throughout and has
    id 2^62); value-initialised cells have id 0.
      conv <L1> <L2> | s1..sN      -> `len1 h1 len2 h2 lenb hb`   (source storage in L1, target storage in L2 read from the
                                       source *through L1*, storage converted back to L1 read through L2)
      convfull <L1> <L2> | s1..sN  -> the same three storages cell by cell: `len1 ids.. ; len2 ids.. ; lenb ids..`
    layouts: strided | mortonT (pdep form) | mortonF (loop form) | hilbert.  h = FNV-1a over the ids (64 bit). -/
open Covfie

def nats (xs : List String) : Option (List Nat) := xs.mapM String.toNat?

def idxOf (lay : String) (sz : List Nat) : Option ((List Nat → Nat) × Nat) :=
  match lay with
  | "strided" => some (stridedIdx sz, prod sz)
  | "mortonT" => some (mortonPdep, curveLen sz)
  | "mortonF" => some (mortonLoop, curveLen sz)
  | "hilbert" => if sz.length = 2 then some (hilbertIdx sz, curveLen sz) else none
  | _ => none

def fnv (a : Array Nat) : UInt64 :=
  a.foldl (fun h x => (h ^^^ (UInt64.ofNat x)) * 1099511628211) 14695981039346656037

def three (l1 l2 : String) (sz : List Nat) : Option (Array Nat × Array Nat × Array Nat) := do
  let (i1, n1) ← idxOf l1 sz
  let (i2, n2) ← idxOf l2 sz
  -- every seventh cell holds -0.0 in all components (id 2^62): a conversion carries the sign of zero
  let orig : List Nat → Nat := fun c => if stridedIdx sz c % 7 = 3 then 2^62 else 1 + stridedIdx sz c
  let a1 := convertA i1 sz n1 0 orig
  let a2 := convertA i2 sz n2 0 (fun c => a1[i1 c]?.getD 0)
  let ab := convertA i1 sz n1 0 (fun c => a2[i2 c]?.getD 0)
  pure (a1, a2, ab)

def step (line : String) : String :=
  match line.trimAscii.toString.splitOn " " |>.filter (· ≠ "") with
  | "conv" :: l1 :: l2 :: "|" :: rest => match nats rest with
      | some sz => match three l1 l2 sz with
        | some (a1, a2, ab) => s!"{a1.size} {fnv a1} {a2.size} {fnv a2} {ab.size} {fnv ab}"
        | none => "unsupported"
      | none => "bad-op"
  | "convfull" :: l1 :: l2 :: "|" :: rest => match nats rest with
      | some sz => match three l1 l2 sz with
        | some (a1, a2, ab) =>
          let show_ (a : Array Nat) := s!"{a.size} " ++ " ".intercalate (a.toList.map toString)
          s!"{show_ a1} ; {show_ a2} ; {show_ ab}"
        | none => "unsupported"
      | none => "bad-op"
  | _ => "bad-op"

partial def loop (h : IO.FS.Stream) : IO Unit := do
  let line ← h.getLine
  if line.isEmpty then return ()
  IO.println (step line)
  loop h
def main : IO Unit := do loop (← IO.getStdin)
