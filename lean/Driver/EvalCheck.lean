import CovfieModel.Model.Stack
import CovfieModel.Model.StackConv
open Covfie
/-! Judge for stack evaluation: parses a stack, its data, a coordinate and the implementation's output (all as bit
    patterns tagged by scalar kind), evaluates the model, and prints a verdict.

    Lines (one answer per line):
      <stack> | <data> | <ck> cbits… | <ok> obits…                 one-shot form
      def <stack> | <data>                                         remember a stack              -> ok
      at <ck> cbits… | <ok> obits… [| q i₁ i₂ …]                   judge a lookup of the remembered stack;
                                                                   with `q`: also the multiset of flat indices
      pb backup <ck> <M> | lo… | hi… | df… | c… | obits… | count   `backup` over the probe backend: value and
                                                                   number of queries that reached the probe
      pb clamp <ck> <M> | lo… | hi… | c… | obits… | count          `clamp` over the probe backend
    Stack tokens: array constant identity strided <w> mortonT mortonF hilbert clamp backup affine shuffle <n> p…
      cast (identity conversion) cast.<kind> (static_cast to f32 f64 i32 u32 i64 u64) deref nn linear -/
def decodeKind (k : String) (b : Nat) : Num :=
  match k with
  | "f32" => decodeF32 b
  | "f64" => decodeF64 b
  | "i32" => .fin (((if b ≥ 2^31 then (b : Int) - 2^32 else (b : Int)) : Int) : Rat)
  | "i64" => .fin (((if b ≥ 2^63 then (b : Int) - 2^64 else (b : Int)) : Int) : Rat)
  | _ => .fin (b : Rat)
def takeNums (r : List String) : Option (List Nat × List String) :=
  match r with
  | n :: r' => do
      let k ← n.toNat?
      let xs ← (r'.take k).mapM String.toNat?
      if xs.length = k then pure (xs, r'.drop k) else none
  | _ => none
def finQ : Num → Rat | .fin q => q | _ => 0
def chunks (m : Nat) (xs : List α) : List (List α) :=
  if m = 0 then [] else
  let rec go (fuel : Nat) (xs : List α) : List (List α) :=
    match fuel, xs with
    | 0, _ => []
    | _, [] => []
    | f+1, xs => xs.take m :: go f (xs.drop m)
  go xs.length xs
def skOf : String → Option Kinds.SK
  | "f32" => some .f32 | "f64" => some .f64 | "i32" => some .i32 | "u32" => some .u32
  | "i64" => some .i64 | "u64" => some .u64 | _ => none
def idConv : Conv := fun x => .ok x
/-- the stack and the conversions of its cast layers, outermost first -/
partial def pStack : List String → Option (Stack × List Conv × List String)
  | "array" :: r => some (.array, [], r) | "constant" :: r => some (.constant, [], r) | "identity" :: r => some (.identity, [], r)
  | "strided" :: w :: r => do let (b, cs, r') ← pStack r; pure (.strided (← w.toNat?) b, cs, r')
  | "mortonT" :: r => do let (b, cs, r') ← pStack r; pure (.mortonT b, cs, r')
  | "mortonF" :: r => do let (b, cs, r') ← pStack r; pure (.mortonF b, cs, r')
  | "hilbert" :: r => do let (b, cs, r') ← pStack r; pure (.hilbert b, cs, r')
  | "clamp" :: r => do let (b, cs, r') ← pStack r; pure (.clamp b, cs, r')
  | "backup" :: r => do let (b, cs, r') ← pStack r; pure (.backup b, cs, r')
  | "affine" :: r => do let (b, cs, r') ← pStack r; pure (.affine b, cs, r')
  | "shuffle" :: r => do let (p, r1) ← takeNums r; let (b, cs, r') ← pStack r1; pure (.shuffle p b, cs, r')
  | "cast" :: r => do let (b, cs, r') ← pStack r; pure (.cast b, idConv :: cs, r')
  | "deref" :: r => do let (b, cs, r') ← pStack r; pure (.deref b, cs, r')
  | "nn" :: r => do let (b, cs, r') ← pStack r; pure (.nn b, cs, r')
  | "linear" :: r => do let (b, cs, r') ← pStack r; pure (.linear b, cs, r')
  | t :: r =>
    if t.startsWith "cast." then do
      let k ← skOf (t.drop 5).toString
      let (b, cs, r') ← pStack r
      pure (.cast b, convTo k :: cs, r')
    else none
  | _ => none
partial def pData : List String → Option (Data × List String)
  | "array" :: k :: m :: r => do
      let (xs, r') ← takeNums r
      pure (.array (chunks (← m.toNat?) (xs.map (decodeKind k))), r')
  | "constant" :: k :: r => do let (xs, r') ← takeNums r; pure (.constant (xs.map (decodeKind k)), r')
  | "identity" :: r => some (.identity, r)
  | "sized" :: r => do let (xs, r1) ← takeNums r; let (d, r2) ← pData r1; pure (.sized xs d, r2)
  | "box" :: k :: r => do
      let (lo, r1) ← takeNums r; let (hi, r2) ← takeNums r1; let (d, r3) ← pData r2
      pure (.box (lo.map (decodeKind k)) (hi.map (decodeKind k)) d, r3)
  | "boxd" :: k :: k2 :: r => do
      let (lo, r1) ← takeNums r; let (hi, r2) ← takeNums r1; let (df, r3) ← takeNums r2; let (d, r4) ← pData r3
      pure (.boxd (lo.map (decodeKind k)) (hi.map (decodeKind k)) (df.map (decodeKind k2)) d, r4)
  | "aff" :: k :: n :: r => do
      let (m, r1) ← takeNums r; let (d, r2) ← pData r1
      pure (.aff (chunks ((← n.toNat?) + 1) (m.map (fun b => finQ (decodeKind k b)))) d, r2)
  | "thin" :: r => do let (d, r1) ← pData r; pure (.thin d, r1)
  | _ => none
def splitBar (xs : List String) : List (List String) :=
  xs.foldr (fun x acc => if x == "|" then [] :: acc else match acc with | a :: r => (x :: a) :: r | [] => [[x]]) [[]]
def numEq : Num → Num → Bool
  | .fin a, .fin b => a == b | .pinf, .pinf => true | .ninf, .ninf => true | .nan, .nan => true | _, _ => false
def sameVals (v impl : List Num) : Bool := v.length == impl.length && (v.zip impl).all (fun (a, b) => numEq a b)
def sortNat (xs : List Nat) : List Nat := (xs.toArray.qsort (· < ·)).toList

structure Cur where
  s : Stack
  cv : List Conv
  d : Data

def evalCur (cur : Cur) (c : List Num) : Res :=
  evalN (fun k => cur.cv.getD k idConv) 0 cur.s cur.d c

def judge (cur : Cur) (ck : String) (cbits : List String) (ok : String) (obits : List String) (q : Option (List String)) : String :=
  match cbits.mapM String.toNat?, obits.mapM String.toNat?, (q.getD []).mapM String.toNat? with
  | some cb, some ob, some qs =>
    let c := cb.map (decodeKind ck)
    let impl := ob.map (decodeKind ok)
    match evalCur cur c with
    | .error e => s!"ub {repr e}"
    | .ok (v, t) =>
      if !sameVals v impl then s!"BAD model={repr v} impl={repr impl}"
      else if q.isSome && sortNat t != sortNat qs then s!"BAD trace model={t} impl={qs}"
      else "ok"
  | _, _, _ => "bad-parse"

def parseDef (st dt : List String) : Option Cur :=
  match pStack st, pData dt with
  | some (s, cv, _), some (d, _) => some ⟨s, cv, d⟩
  | _, _ => none

def verdictPb (r : Res) (impl : List Num) (cnt : Nat) : String :=
  match r with
  | .error e => s!"ub {repr e}"
  | .ok (v, t) =>
    if !sameVals v impl then s!"BAD model={repr v} impl={repr impl} queries={t.length}"
    else if t.length != cnt then s!"BAD queries model={t.length} impl={cnt}"
    else s!"ok {t.length}"

/-- `backup` / `clamp` over the probe backend (an arbitrary backend as far as the layer is concerned) -/
def stepPb (parts : List (List String)) : String :=
  let nums := fun (xs : List String) => xs.mapM String.toNat?
  match parts with
  | [["backup", ck, m], lo, hi, df, c, ob, [cnt]] =>
    match m.toNat?, nums lo, nums hi, nums df, nums c, nums ob, cnt.toNat? with
    | some M, some lo, some hi, some df, some c, some ob, some cnt =>
      let dk := fun (xs : List Nat) => xs.map (decodeKind ck)
      verdictPb (backupL (dk lo) (dk hi) (dk df) (probeB M) (dk c)) (dk ob) cnt
    | _, _, _, _, _, _, _ => "bad-parse"
  | [["clamp", ck, m], lo, hi, c, ob, [cnt]] =>
    match m.toNat?, nums lo, nums hi, nums c, nums ob, cnt.toNat? with
    | some M, some lo, some hi, some c, some ob, some cnt =>
      let dk := fun (xs : List Nat) => xs.map (decodeKind ck)
      verdictPb (clampL (dk lo) (dk hi) (probeB M) (dk c)) (dk ob) cnt
    | _, _, _, _, _, _ => "bad-parse"
  | _ => "bad-op"

def step (cur : Option Cur) (line : String) : Option Cur × String :=
  let toks := (line.trimAscii.toString.splitOn " ").filter (· ≠ "")
  match toks with
  | "def" :: rest =>
    match splitBar rest with
    | [st, dt] => match parseDef st dt with
      | some c => (some c, "ok")
      | none => (none, "bad-parse")
    | _ => (none, "bad-op")
  | "at" :: rest =>
    match cur, splitBar rest with
    | some c, [ck :: cbits, ok :: obits] => (cur, judge c ck cbits ok obits none)
    | some c, [ck :: cbits, ok :: obits, "q" :: qs] => (cur, judge c ck cbits ok obits (some qs))
    | none, _ => (cur, "no-stack")
    | _, _ => (cur, "bad-op")
  | "pb" :: rest => (cur, stepPb (splitBar rest))
  | _ =>
    match splitBar toks with
    | [st, dt, ck :: cbits, ok :: obits] =>
      match parseDef st dt with
      | some c => (cur, judge c ck cbits ok obits none)
      | none => (cur, "bad-parse")
    | _ => (cur, "bad-op")
partial def loop (h : IO.FS.Stream) (cur : Option Cur) : IO Unit := do
  let line ← h.getLine
  if line.isEmpty then return ()
  let (cur', out) := step cur line
  IO.println ((out.replace "\n" " ").replace "  " " ")
  loop h cur'
def main : IO Unit := do loop (← IO.getStdin) none
