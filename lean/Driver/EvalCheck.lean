import CovfieModel.Model.Stack
open Covfie
/-! Judge for stack evaluation: parses a stack, its data, a coordinate and the implementation's output (all as bit
    patterns tagged by scalar kind), evaluates the model, and prints a verdict. -/
def decodeKind (k : String) (b : Nat) : Num :=
  match k with
  | "f32" => decodeF32 b
  | "f64" => decodeF64 b
  | "i32" => .fin (((if b ≥ 2^31 then (b : Int) - 2^32 else (b : Int)) : Int) : Rat)
  | "i64" => .fin (((if b ≥ 2^63 then (b : Int) - 2^64 else (b : Int)) : Int) : Rat)
  | _ => .fin (b : Rat)
def takeNums (r : List String) : Option (List Nat × List String) :=
  match r with
  | n :: r' => do
      let k ← n.toNat?
      let xs ← (r'.take k).mapM String.toNat?
      if xs.length = k then pure (xs, r'.drop k) else none
  | _ => none
def finQ : Num → Rat | .fin q => q | _ => 0
def chunks (m : Nat) (xs : List α) : List (List α) :=
  if m = 0 then [] else
  let rec go (fuel : Nat) (xs : List α) : List (List α) :=
    match fuel, xs with
    | 0, _ => []
    | _, [] => []
    | f+1, xs => xs.take m :: go f (xs.drop m)
  go xs.length xs
partial def pStack : List String → Option (Stack × List String)
  | "array" :: r => some (.array, r) | "constant" :: r => some (.constant, r) | "identity" :: r => some (.identity, r)
  | "strided" :: w :: r => do let (b, r') ← pStack r; pure (.strided (← w.toNat?) b, r')
  | "mortonT" :: r => do let (b, r') ← pStack r; pure (.mortonT b, r')
  | "mortonF" :: r => do let (b, r') ← pStack r; pure (.mortonF b, r')
  | "hilbert" :: r => do let (b, r') ← pStack r; pure (.hilbert b, r')
  | "clamp" :: r => do let (b, r') ← pStack r; pure (.clamp b, r')
  | "backup" :: r => do let (b, r') ← pStack r; pure (.backup b, r')
  | "affine" :: r => do let (b, r') ← pStack r; pure (.affine b, r')
  | "shuffle" :: r => do let (p, r1) ← takeNums r; let (b, r') ← pStack r1; pure (.shuffle p b, r')
  | "cast" :: r => do let (b, r') ← pStack r; pure (.cast b, r')
  | "deref" :: r => do let (b, r') ← pStack r; pure (.deref b, r')
  | "nn" :: r => do let (b, r') ← pStack r; pure (.nn b, r')
  | "linear" :: r => do let (b, r') ← pStack r; pure (.linear b, r')
  | _ => none
partial def pData : List String → Option (Data × List String)
  | "array" :: k :: m :: r => do
      let (xs, r') ← takeNums r
      pure (.array (chunks (← m.toNat?) (xs.map (decodeKind k))), r')
  | "constant" :: k :: r => do let (xs, r') ← takeNums r; pure (.constant (xs.map (decodeKind k)), r')
  | "identity" :: r => some (.identity, r)
  | "sized" :: r => do let (xs, r1) ← takeNums r; let (d, r2) ← pData r1; pure (.sized xs d, r2)
  | "box" :: k :: r => do
      let (lo, r1) ← takeNums r; let (hi, r2) ← takeNums r1; let (d, r3) ← pData r2
      pure (.box (lo.map (decodeKind k)) (hi.map (decodeKind k)) d, r3)
  | "boxd" :: k :: k2 :: r => do
      let (lo, r1) ← takeNums r; let (hi, r2) ← takeNums r1; let (df, r3) ← takeNums r2; let (d, r4) ← pData r3
      pure (.boxd (lo.map (decodeKind k)) (hi.map (decodeKind k)) (df.map (decodeKind k2)) d, r4)
  | "aff" :: k :: n :: r => do
      let (m, r1) ← takeNums r; let (d, r2) ← pData r1
      pure (.aff (chunks ((← n.toNat?) + 1) (m.map (fun b => finQ (decodeKind k b)))) d, r2)
  | "thin" :: r => do let (d, r1) ← pData r; pure (.thin d, r1)
  | _ => none
def splitBar (xs : List String) : List (List String) :=
  xs.foldr (fun x acc => if x == "|" then [] :: acc else match acc with | a :: r => (x :: a) :: r | [] => [[x]]) [[]]
def numEq : Num → Num → Bool
  | .fin a, .fin b => a == b | .pinf, .pinf => true | .ninf, .ninf => true | .nan, .nan => true | _, _ => false
def step (line : String) : String :=
  let toks := (line.trimAscii.toString.splitOn " ").filter (· ≠ "")
  match splitBar toks with
  | [st, dt, ck :: cbits, ok :: obits] =>
    match pStack st, pData dt, cbits.mapM String.toNat?, obits.mapM String.toNat? with
    | some (s, _), some (d, _), some cb, some ob =>
      let c := cb.map (decodeKind ck)
      let impl := ob.map (decodeKind ok)
      match eval (fun x => .ok x) s d c with
      | .error e => s!"ub {repr e}"
      | .ok (v, _) =>
        if v.length == impl.length && (v.zip impl).all (fun (a, b) => numEq a b) then "ok"
        else s!"BAD model={repr v} impl={repr impl}"
    | _, _, _, _ => "bad-parse"
  | _ => "bad-op"
partial def loop (h : IO.FS.Stream) : IO Unit := do
  let line ← h.getLine
  if line.isEmpty then return ()
  IO.println (step line)
  loop h
def main : IO Unit := do loop (← IO.getStdin)
