import CovfieModel.Model.Heap
open Covfie.Heap
def showVal : Option AVal → String
  | none => "-"
  | some (.live c) => "live[" ++ ",".intercalate (c.map toString) ++ "]"
  | some (.moved n) => s!"moved{n}"
def showState (s : AState) (k : Nat) : String := " ".intercalate ((List.range k).map fun i => showVal (s i))
def parseOp (t : List String) : Option Op :=
  match t with
  | ["ctor", i, n] => do pure (.ctor (← i.toNat?) (← n.toNat?))
  | ["dtor", i] => do pure (.dtor (← i.toNat?))
  | ["copyCtor", d, s] => do pure (.copyCtor (← d.toNat?) (← s.toNat?))
  | ["moveCtor", d, s] => do pure (.moveCtor (← d.toNat?) (← s.toNat?))
  | ["copyAssign", d, s] => do pure (.copyAssign (← d.toNat?) (← s.toNat?))
  | ["moveAssign", d, s] => do pure (.moveAssign (← d.toNat?) (← s.toNat?))
  | ["write", i, k, v] => do pure (.write (← i.toNat?) (← k.toNat?) (← v.toNat?))
  | ["convert", d, s] => do pure (.convert (← d.toNat?) (← s.toNat?))
  | ["dumpLoad", d, s] => do pure (.dumpLoad (← d.toNat?) (← s.toNat?))
  | _ => none
partial def loop (h : IO.FS.Stream) (s : AState) (c : CState) : IO Unit := do
  let line ← h.getLine
  if line.isEmpty then return ()
  let toks := (line.trimAscii.toString.splitOn " ").filter (· ≠ "")
  match toks with
  | ["reset"] => IO.println "reset"; loop h (abs cinit) cinit
  | _ => match parseOp toks with
    | some op =>
      -- tabulate: function-typed states re-run their predecessor on every lookup (exponential otherwise)
      let tab := (List.range 4).map (astep s op)
      let s' : AState := fun i => (tab[i]?).join
      let c1 := cstep c op
      let slots := (List.range 4).map c1.slots
      let heap := (List.range c1.next).map c1.heap
      let c' : CState := { heap := fun a => (heap[a]?).join, next := c1.next, slots := fun i => (slots[i]?).join, bad := c1.bad }
      -- the concrete machine is run alongside: its abstraction must coincide and it must never flag an error
      let agree := (List.range 4).all fun i => showVal (s' i) == showVal (abs c' i)
      IO.println (showState s' 4 ++ (if agree && !c'.bad then "" else " CONCRETE-DIFFERS"))
      loop h s' c'
    | none => IO.println "bad-op"; loop h s c
def main : IO Unit := do loop (← IO.getStdin) (abs cinit) cinit
