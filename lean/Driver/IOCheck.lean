import CovfieModel.Model.IO
import CovfieModel.Model.Narrow
open Covfie.IO
/-- prefix-notation token parsers for `Ty` and `Dat` -/
partial def pTy : List String → Option (Ty × List String)
  | "A" :: m :: r => do pure (.array (← m.toNat?), r)
  | "C" :: sz :: m :: r => do pure (.constant (← sz.toNat?) (← m.toNat?), r)
  | "I" :: r => some (.identity, r)
  | "S" :: t :: n :: r => do let (b, r') ← pTy r; pure (.sized (← t.toNat?) (← n.toNat?) b, r')
  | "K" :: sz :: n :: r => do let (b, r') ← pTy r; pure (.clamp (← sz.toNat?) (← n.toNat?) b, r')
  | "B" :: sz :: n :: osz :: m :: r => do
      let (b, r') ← pTy r; pure (.backup (← sz.toNat?) (← n.toNat?) (← osz.toNat?) (← m.toNat?) b, r')
  | "F" :: sz :: n :: r => do let (b, r') ← pTy r; pure (.affine (← sz.toNat?) (← n.toNat?) b, r')
  | "T" :: r => do let (b, r') ← pTy r; pure (.thin b, r')
  | _ => none
def takeNums (r : List String) : Option (List Nat × List String) :=
  match r with
  | n :: r' => do
      let k ← n.toNat?
      let xs ← (r'.take k).mapM String.toNat?
      if xs.length = k then pure (xs, r'.drop k) else none
  | _ => none
partial def pDat : List String → Option (Dat × List String)
  | "A" :: wd :: cnt :: r => do let (xs, r') ← takeNums r; pure (.array (← wd.toNat?) (← cnt.toNat?) xs, r')
  | "C" :: r => do let (xs, r') ← takeNums r; pure (.constant xs, r')
  | "I" :: r => some (.identity, r)
  | "S" :: r => do let (c, r1) ← takeNums r; let (d, r2) ← pDat r1; pure (.sized c d, r2)
  | "K" :: r => do let (lo, r1) ← takeNums r; let (hi, r2) ← takeNums r1; let (d, r3) ← pDat r2; pure (.clamp lo hi d, r3)
  | "B" :: r => do
      let (lo, r1) ← takeNums r; let (hi, r2) ← takeNums r1; let (df, r3) ← takeNums r2
      let (d, r4) ← pDat r3; pure (.backup lo hi df d, r4)
  | "F" :: r => do let (m, r1) ← takeNums r; let (d, r2) ← pDat r1; pure (.affine m d, r2)
  | "T" :: r => do let (d, r1) ← pDat r; pure (.thin d, r1)
  | _ => none
def hex2 (b : Nat) : String :=
  let h := "0123456789abcdef".toList
  String.ofList [h.getD (b / 16) '?', h.getD (b % 16) '?']
def parseHex (s : String) : List Nat :=
  if s = "-" then [] else
  let cs := s.toList
  let v (c : Char) : Nat := if c.isDigit then c.toNat - 48 else c.toNat - 87
  let rec go : List Char → List Nat
    | a :: b :: r => (v a * 16 + v b) :: go r
    | _ => []
  go cs
def showNums (xs : List Nat) : String := " ".intercalate ((toString xs.length) :: xs.map toString)
/-- canonical token form of parsed content (the harness prints a loaded field in exactly this shape) -/
def showDat : Dat → String
  | .array wd n cells => s!"A {wd} {n} {showNums cells}"
  | .constant v => s!"C {showNums v}"
  | .identity => "I"
  | .sized c d => s!"S {showNums c} {showDat d}"
  | .clamp lo hi d => s!"K {showNums lo} {showNums hi} {showDat d}"
  | .backup lo hi df d => s!"B {showNums lo} {showNums hi} {showNums df} {showDat d}"
  | .affine m d => s!"F {showNums m} {showDat d}"
  | .thin d => s!"T {showDat d}"
def errName : IOErr → String
  | .truncated => "truncated" | .badMagic => "badMagic" | .badTag => "badTag" | .badWidth => "badWidth"
def verdict (ty : Ty) (bs : List Nat) : Char := match load ty bs with | .ok _ => 'F' | .error _ => 'E'
/-- replace the 4-byte little-endian word at `off` -/
def patch (bs : List Nat) (off w : Nat) : List Nat := bs.take off ++ le 4 w ++ bs.drop (off + 4)
def hexVal (s : String) : Nat := s.toList.foldl (fun a c => a * 16 + (if c.isDigit then c.toNat - 48 else c.toNat - 87)) 0
def parseAlt (s : String) : Option (Nat × Nat) :=
  match s.splitOn ":" with
  | [a, b] => do pure (← a.toNat?, hexVal b)
  | _ => none
/-- `<Ty tokens> | rest…` -/
def tyThen (r : List String) : Option (Ty × List String) :=
  match pTy r with
  | some (ty, "|" :: r2) => some (ty, r2)
  | _ => none
def step (line : String) : String :=
  let toks := (line.trimAscii.toString.splitOn " ").filter (· ≠ "")
  match toks with
  | ["consts"] =>
    s!"MAGIC_HEADER={MAGH} MAGIC_FOOTER={MAGF} FOOTER_OFFSET={FOOT} field={T_FIELD} array={T_ARRAY} constant={T_CONST} identity={T_IDENT} " ++
    s!"affine={T_AFFINE} backup={T_BACKUP} clamp={T_CLAMP} hilbert={T_HILBERT} morton={T_MORTON} strided={T_STRIDED}"
  | "dump" :: r =>
    match tyThen r with
    | some (ty, r2) => match pDat r2 with
        | some (d, _) => String.join ((dump ty d).map hex2)
        | none => "bad-dat"
    | none => "bad-ty"
  | "load" :: r =>
    match tyThen r with
    | some (ty, [hex]) => match load ty (parseHex hex) with
        | .ok (_, rest) => s!"ok {rest.length}"
        | .error e => s!"error {errName e}"
    | some (ty, []) => match load ty [] with | .ok _ => "ok 0" | .error e => s!"error {errName e}"
    | _ => "bad-ty"
  | "reload" :: r =>
    match tyThen r with
    | some (ty, [hex]) => match load ty (parseHex hex) with
        | .ok (d, rest) => s!"ok {rest.length} | {showDat d}"
        | .error e => s!"error {errName e}"
    | _ => "bad-ty"
  | "crossload" :: w :: r =>      -- a file loaded into a field type whose stored scalars are `w` bytes wide
    match tyThen r, w.toNat? with
    | some (ty, [hex]), some wn => match load ty (parseHex hex) with
        | .ok (d, rest) => s!"ok {rest.length} | {showDat (convDat wn d)}"
        | .error e => s!"error {errName e}"
    | _, _ => "bad-ty"
  | "prefixes" :: r =>            -- every k in 0..len: is the stream that ends after k bytes rejected?
    match tyThen r with
    | some (ty, [hex]) =>
        let bs := parseHex hex
        String.ofList ((List.range (bs.length + 1)).map fun k => verdict ty (bs.take k))
    | _ => "bad-ty"
  | "alts" :: r =>                -- alts <Ty> | <hex> off:word …
    match tyThen r with
    | some (ty, hex :: alts) =>
        let bs := parseHex hex
        let out := alts.map fun a => match parseAlt a with
          | some (off, w) => verdict ty (patch bs off w)
          | none => '?'
        if out.isEmpty then "-" else String.ofList out
    | _ => "bad-ty"
  | "narrow" :: r => " ".intercalate (r.map fun x => toString (Covfie.C07.narrowBits x.toNat!))
  | "widen" :: r => " ".intercalate (r.map fun x => toString (Covfie.C07.widenBits x.toNat!))
  | _ => "bad-op"
partial def loop (h : IO.FS.Stream) : IO Unit := do
  let line ← h.getLine
  if line.isEmpty then return ()
  IO.println (step line)
  loop h
def main : IO Unit := do loop (← IO.getStdin)
