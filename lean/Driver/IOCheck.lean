import CovfieModel.Model.IO
open Covfie.IO
/-- prefix-notation token parsers for `Ty` and `Dat` -/
partial def pTy : List String → Option (Ty × List String)
  | "A" :: m :: r => do pure (.array (← m.toNat?), r)
  | "C" :: sz :: m :: r => do pure (.constant (← sz.toNat?) (← m.toNat?), r)
  | "I" :: r => some (.identity, r)
  | "S" :: t :: n :: r => do let (b, r') ← pTy r; pure (.sized (← t.toNat?) (← n.toNat?) b, r')
  | "K" :: sz :: n :: r => do let (b, r') ← pTy r; pure (.clamp (← sz.toNat?) (← n.toNat?) b, r')
  | "B" :: sz :: n :: osz :: m :: r => do
      let (b, r') ← pTy r; pure (.backup (← sz.toNat?) (← n.toNat?) (← osz.toNat?) (← m.toNat?) b, r')
  | "F" :: sz :: n :: r => do let (b, r') ← pTy r; pure (.affine (← sz.toNat?) (← n.toNat?) b, r')
  | "T" :: r => do let (b, r') ← pTy r; pure (.thin b, r')
  | _ => none
def takeNums (r : List String) : Option (List Nat × List String) :=
  match r with
  | n :: r' => do
      let k ← n.toNat?
      let xs ← (r'.take k).mapM String.toNat?
      if xs.length = k then pure (xs, r'.drop k) else none
  | _ => none
partial def pDat : List String → Option (Dat × List String)
  | "A" :: wd :: cnt :: r => do let (xs, r') ← takeNums r; pure (.array (← wd.toNat?) (← cnt.toNat?) xs, r')
  | "C" :: r => do let (xs, r') ← takeNums r; pure (.constant xs, r')
  | "I" :: r => some (.identity, r)
  | "S" :: r => do let (c, r1) ← takeNums r; let (d, r2) ← pDat r1; pure (.sized c d, r2)
  | "K" :: r => do let (lo, r1) ← takeNums r; let (hi, r2) ← takeNums r1; let (d, r3) ← pDat r2; pure (.clamp lo hi d, r3)
  | "B" :: r => do
      let (lo, r1) ← takeNums r; let (hi, r2) ← takeNums r1; let (df, r3) ← takeNums r2
      let (d, r4) ← pDat r3; pure (.backup lo hi df d, r4)
  | "F" :: r => do let (m, r1) ← takeNums r; let (d, r2) ← pDat r1; pure (.affine m d, r2)
  | "T" :: r => do let (d, r1) ← pDat r; pure (.thin d, r1)
  | _ => none
def hex2 (b : Nat) : String :=
  let h := "0123456789abcdef".toList
  String.mk [h.getD (b / 16) '?', h.getD (b % 16) '?']
def parseHex (s : String) : List Nat :=
  let cs := s.toList
  let v (c : Char) : Nat := if c.isDigit then c.toNat - 48 else c.toNat - 87
  let rec go : List Char → List Nat
    | a :: b :: r => (v a * 16 + v b) :: go r
    | _ => []
  go cs
def step (line : String) : String :=
  let toks := (line.trimAscii.toString.splitOn " ").filter (· ≠ "")
  match toks with
  | "dump" :: r =>
    match pTy r with
    | some (ty, r1) => match r1 with
      | "|" :: r2 => match pDat r2 with
        | some (d, _) => String.join ((dump ty d).map hex2)
        | none => "bad-dat"
      | _ => "bad-sep"
    | none => "bad-ty"
  | "load" :: r =>
    match pTy r with
    | some (ty, r1) => match r1 with
      | ["|", hex] => match load ty (parseHex hex) with
        | .ok (_, rest) => s!"ok {rest.length}"
        | .error _ => "error"
      | ["|"] => match load ty [] with | .ok _ => "ok 0" | .error _ => "error"
      | _ => "bad-sep"
    | none => "bad-ty"
  | _ => "bad-op"
partial def loop (h : IO.FS.Stream) : IO Unit := do
  let line ← h.getLine
  if line.isEmpty then return ()
  IO.println (step line)
  loop h
def main : IO Unit := do loop (← IO.getStdin)
