import CovfieModel.Model.ImpRef
import CovfieModel.Model.LinRef
import CovfieModel.Model.RImpRef
import CovfieModel.Model.OwnScript
import CovfieModel.Model.IOScript
import CovfieModel.Model.ArrScript
import CovfieModel.Model.TmplScript
import CovfieModel.Model.NdScript
import CovfieModel.Model.BinScript
import CovfieModel.Model.Sentences
/-! Driver for the translated kernels (DESIGN.md §11.6).
  print                         -> one line `K <name> <s-expression>` per reference kernel (the terms the theorems are about)
  ref <name> | prog <sexp>      -> selects the program the following `run` lines execute
  run <wT> <fuel> <ret> s.. | a.. | a..   -> `ok <value of scalar ret>` or `fuel` (a loop ran out of fuel) -/
open Covfie.Imp

def splitBar (ws : List String) : List (List String) :=
  ws.foldr (fun w acc => if w = "|" then [] :: acc else match acc with
    | [] => [[w]]
    | h :: t => (w :: h) :: t) [[]]

def step (cur : Option Stmt) (line : String) : Option Stmt × List String :=
  match line.trimAscii.toString.splitOn " " with
  | ["print"] => (cur, [s!"K context {Covfie.Imp.contextSexp}", s!"K morton_pdep {Covfie.Imp.pdepSexp}"] ++ Ref.all.map (fun (n, p) => s!"K {n} {p.toSexp}") ++
      Covfie.Lin.Ref.all.map (fun (n, p) => s!"K {n} {p.toSexp}") ++
      Covfie.RImp.Ref.all.map (fun (n, p) => s!"K {n} {Covfie.RImp.Ref.text n p}") ++
      Covfie.Heap.Ref.all.map (fun (n, t) => s!"K {n} {t}") ++
      Covfie.IO.Ref.all.map (fun (n, p) => s!"K {n} {p.toSexp}") ++
      [s!"K io_array {Covfie.IO.ARef.text}", s!"K static_permutation {Covfie.Tmpl.Ref.text}", s!"K nd_map_equations {Covfie.Nd.Ref.text}"] ++
      Covfie.IO.BRef.all.map (fun (n, t) => s!"K {n} {t}") ++
      Covfie.Sentences.all.map (fun (n, _, t) => s!"K {n} {t}"))
  | ["ref", n] =>
    match Ref.all.find? (·.1 = n) with
    | some (_, p) => (some p, ["prog-ok"])
    | none => (cur, ["bad-prog"])
  | "prog" :: rest =>
    match Stmt.ofSexp (" ".intercalate rest) with
    | some p => (some p, ["prog-ok"])
    | none => (none, ["bad-prog"])
  | "run" :: w :: fuel :: ret :: rest =>
    match cur, w.toNat?, fuel.toNat?, ret.toNat? with
    | some p, some w, some fuel, some ret =>
      let parts := splitBar rest
      let nums := parts.map (fun ws => ws.filterMap String.toNat?)
      let env : Env := ⟨nums.headD [], nums.drop 1⟩
      match exec w fuel p env with
      | some e => (cur, [s!"ok {e.sc.getD ret 0}"])
      | none => (cur, ["fuel"])
    | _, _, _, _ => (cur, ["bad-op"])
  | _ => (cur, ["bad-op"])

partial def loop (h : IO.FS.Stream) (cur : Option Stmt) : IO Unit := do
  let line ← h.getLine
  if line.isEmpty then return ()
  let (cur', outs) := step cur line
  for o in outs do IO.println o
  loop h cur'

def main : IO Unit := do loop (← IO.getStdin) none
