import CovfieModel.Model.Kinds
/-! Driver for C13: parses a stack descriptor (prefix notation) and prints the kind model's verdicts.
      k <stack>                -> `ok inSk inDim bare outSk outDim ref | lookup <none|Err> | view size align fits | ops b0..b10 | stated b`
                                  or `err <KindErr> | view ... | ops 00000000000`
      conv <dst> ; <src>       -> `supports applicable compatible convertible` (0/1 each)
    <stack> ::= array sk M | constant sk N sk M | identity sk N | strided|mortonT|mortonF|hilbert sk N <stack>
              | clamp|backup|affine|deref <stack> | shuffle k p1..pk <stack> | cast sk <stack> | nn|linear sk N <stack> -/
open Covfie.Kinds

def parseSK : String → Option SK
  | "f32" => some .f32 | "f64" => some .f64 | "i32" => some .i32 | "u32" => some .u32 | "i64" => some .i64 | "u64" => some .u64
  | _ => none
def skName : SK → String
  | .f32 => "f32" | .f64 => "f64" | .i32 => "i32" | .u32 => "u32" | .i64 => "i64" | .u64 => "u64"
def errName : KindErr → String
  | .zeroDimension => "zeroDimension" | .hilbertNeeds2D => "hilbertNeeds2D"
  | .interpNeedsFloatCoordinate => "interpNeedsFloatCoordinate" | .linearNeedsFloatValues => "linearNeedsFloatValues"
  | .interpDimMismatch => "interpDimMismatch" | .coordinateMustBeVector => "coordinateMustBeVector"
  | .shuffleArity => "shuffleArity" | .mortonNeedsIntegerCoordinate => "mortonNeedsIntegerCoordinate"

/-- recursive descent; fuel = number of tokens -/
def parseStack : Nat → List String → Option (KStack × List String)
  | 0, _ => none
  | fuel + 1, toks =>
    match toks with
    | "array" :: s :: m :: rest => do pure (.array (← parseSK s) (← m.toNat?), rest)
    | "constant" :: a :: n :: b :: m :: rest => do pure (.constant (← parseSK a) (← n.toNat?) (← parseSK b) (← m.toNat?), rest)
    | "identity" :: s :: n :: rest => do pure (.identity (← parseSK s) (← n.toNat?), rest)
    | "clamp" :: rest => do let (b, r) ← parseStack fuel rest; pure (.clamp b, r)
    | "backup" :: rest => do let (b, r) ← parseStack fuel rest; pure (.backup b, r)
    | "affine" :: rest => do let (b, r) ← parseStack fuel rest; pure (.affine b, r)
    | "deref" :: rest => do let (b, r) ← parseStack fuel rest; pure (.deref b, r)
    | "cast" :: t :: rest => do let (b, r) ← parseStack fuel rest; pure (.cast (← parseSK t) b, r)
    | "shuffle" :: k :: rest => do
        let k ← k.toNat?
        let p ← (rest.take k).mapM String.toNat?
        if p.length ≠ k then none else
        let (b, r) ← parseStack fuel (rest.drop k); pure (.shuffle p b, r)
    | "nn" :: a :: n :: rest => do let (b, r) ← parseStack fuel rest; pure (.interp .nn (← parseSK a) (← n.toNat?) b, r)
    | "linear" :: a :: n :: rest => do let (b, r) ← parseStack fuel rest; pure (.interp .linear (← parseSK a) (← n.toNat?) b, r)
    | l :: a :: n :: rest =>
        match (match l with | "strided" => some Lay.strided | "mortonT" => some .mortonT | "mortonF" => some .mortonF
                            | "hilbert" => some .hilbert | _ => none) with
        | some l => do let (b, r) ← parseStack fuel rest; pure (.layout l (← parseSK a) (← n.toNat?) b, r)
        | none => none
    | _ => none

def parseWhole (toks : List String) : Option KStack :=
  match parseStack (toks.length + 1) toks with
  | some (s, []) => some s
  | _ => none

def bit (b : Bool) : String := if b then "1" else "0"
def baseOps : List ApiOp := [.concept, .fromPack, .view, .at, .copy, .move, .copyAssign, .moveAssign, .dump, .load, .viewTrivial]

def describe (s : KStack) : String :=
  let v := match viewSize s with
    | .ok (n, a) => s!"view {n} {a} {bit (viewFits s)}"
    | .error _ => "view - - 0"
  let ops := String.join (baseOps.map fun op => bit (supports s op))
  let ops := ops ++ s!" | stated {bit (stated s)}"
  match kind s with
  | .error e => s!"err {errName e} | {v} | ops {ops}"
  | .ok k =>
    let lk := match lookupErr s with | none => "none" | some e => errName e
    s!"ok {skName k.inSk} {k.inDim} {bit k.inBare} {skName k.outSk} {k.outDim} {bit k.outRef} | lookup {lk} | {v} | ops {ops}"

def step (line : String) : String :=
  match line.trimAscii.toString.splitOn " " |>.filter (· ≠ "") with
  | "k" :: rest => match parseWhole rest with
      | some s => describe s
      | none => "bad-op"
  | "conv" :: rest =>
      let a := rest.takeWhile (· ≠ ";")
      let b := (rest.dropWhile (· ≠ ";")).drop 1
      match parseWhole a, parseWhole b with
      | some d, some s => s!"{bit (supports d (.convertFrom s))} {bit (applicable d (.convertFrom s))} {bit (compatible d s)} {bit (convertible d s)}"
      | _, _ => "bad-op"
  | _ => "bad-op"

partial def loop (h : IO.FS.Stream) : IO Unit := do
  let line ← h.getLine
  if line.isEmpty then return ()
  IO.println (step line)
  loop h
def main : IO Unit := do loop (← IO.getStdin)
