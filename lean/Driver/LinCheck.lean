import CovfieModel.Model.Interp
import CovfieModel.Model.Layout
import CovfieModel.Model.LinearW
/-! Judge for C03 (`lincheck`): one verdict per lookup of `linear<[clamp<]strided<sizeN, array<T M>>[>], C N>`.

  `F vprec M clamp s1..sN | cells`            sets the field (cells = bit patterns, row-major, M per cell) → `set <n>`
  `L cprec c1..cN | r1..rM [| i1..i2^N]`      coordinate bits | implementation's result bits | flat indices it read
     → `ok|BAD|skip v=<e|t|B per component> lat=<na|ok|bad> hull=<ok|bad> nb=<na|ok|okset|bad> br=<1|2|3|g><eq|ne> …`

  All arithmetic is exact (`Rat`) on the decoded bit patterns; the interpolant is the model's `nlin`, the code-shaped sum
  is the model's `lin1/lin2/lin3/linGeneric` (chosen by N, as `linear.hpp` does); the acceptance bound is that of
  DESIGN §5 C03 with the underflow term scaled by max(1, Σ_n |v_n|) (subnormal weights).  -/
open Covfie

structure Fld where
  vprec : Nat := 32
  M : Nat := 1
  clamp : Bool := false
  sizes : List Nat := []
  cells : Array Rat := #[]
  finite : Bool := true
  synth : Bool := false      -- large synthetic field (`G` line): the word at flat position k is `synthVal k`, nothing is stored

/-- contents of a synthetic field: small integers (exact in every precision), a fixed function of the flat word position -/
def synthVal (k : Nat) : Rat := (((k * 2654435761) % 4294967296) % 1021 : Nat) - 510

def hexs (xs : List String) : Option (List Nat) := xs.mapM (fun s => (String.toNat? s))
def splitBar (xs : List String) : List (List String) :=
  xs.foldr (fun x acc => if x == "|" then [] :: acc else match acc with | a :: r => (x :: a) :: r | [] => [[x]]) [[]]
def dec (prec : Nat) (b : Nat) : Num := if prec = 32 then decodeF32 b else decodeF64 b
def ufor (prec : Nat) : Rat := if prec = 32 then uF32 else uF64
def tiny (prec : Nat) : Rat := if prec = 32 then pow2 (-149) else pow2 (-1074)
def truncNat (q : Rat) : Nat := (q.num / q.den).toNat      -- q ≥ 0

/-- ⌊log2 a⌋ for a > 0 -/
def ilog2 (a : Rat) : Int :=
  let e0 : Int := (Nat.log2 a.num.toNat : Int) - (Nat.log2 a.den : Int)
  if a < pow2 e0 then e0 - 1 else if pow2 (e0 + 1) ≤ a then e0 + 1 else e0

/-- nearest binary32 value, ties to even (what `static_cast<float>(double)` does below the overflow threshold) -/
def roundF32 (q : Rat) : Rat :=
  if q = 0 then 0 else
  let a := rabs q
  let e := ilog2 a
  let ee := if e < -126 then -126 else e
  let ulp := pow2 (ee - 23)
  let r : Rat := ((nnRound (a / ulp) : Int) : Rat) * ulp
  if q < 0 then -r else r

/-- the order in which the branch in use numbers its neighbours: specialised branches have axis 0 as the most
    significant bit of `n`, the generic branch has axis `m` as bit `m` -/
def branchCorners (N : Nat) : List (List Bool) :=
  (List.range (2 ^ N)).map fun n => if N ≤ 3 then (bitsOf N n).reverse else bitsOf N n

def neighbourIdx (f : Fld) (is : List Nat) (bs : List Bool) : Nat :=
  stridedIdx f.sizes ((is.zip (bs.zip f.sizes)).map (fun (i, b, s) =>
    let c := if b then i + 1 else i
    if f.clamp then min c (s - 1) else c))

def sortNat (l : List Nat) : List Nat := (l.toArray.qsort (· < ·)).toList

/-- verdict for one lookup -/
def linCheck (f : Fld) (cprec : Nat) (coord impl : List Nat) (idx : Option (List Nat)) : String := Id.run do
  let N := f.sizes.length
  if coord.length ≠ N ∨ impl.length ≠ f.M then return "bad-op"
  if !f.finite then return "skip nonfinite-cell"
  let cs := coord.map (dec cprec)
  let mut qs : List Rat := []
  for c in cs do
    match c with
    | .fin q => if q < 0 then return "skip negative-coord" else qs := qs ++ [q]
    | _ => return "skip nonfinite-coord"
  let is := qs.map truncNat
  let fr := (qs.zip is).map (fun (q, i) => q - (i : Rat))
  if !f.clamp ∧ (is.zip f.sizes).any (fun (i, s) => i + 1 ≥ s) then return "skip out-of-domain"
  let lattice := fr.all (· == 0)
  -- working precision = coordinate precision; result stored at value precision
  let k : Nat := 2 * N + 2^N + 3
  let u := max (ufor cprec) (ufor f.vprec)
  let gamma : Rat := (k : Rat) * u / (1 - (k : Rat) * u)
  let cornersL := branchCorners N
  let mut vs := ""
  let mut lat := if lattice then "ok" else "na"
  let mut hull := "ok"
  let mut br := "eq"
  let mut bad := false
  let mut detail := ""
  for q in List.range f.M do
    let v : List Bool → Rat := fun bs =>
      let k := neighbourIdx f is bs * f.M + q
      if f.synth then synthVal k else f.cells.getD k 0
    let exact := nlin fr v
    let code := match fr with
      | [a] => lin1 a v
      | [a, b] => lin2 a b v
      | [a, b, c] => lin3 a b c v
      | _ => linGeneric fr v
    if code ≠ exact then
      br := "ne"; bad := true
    -- underflow: a weight product that lands in the subnormal range carries an ABSOLUTE error ≤ tiny/2, which the
    -- multiplication by the stored value then scales by |v_n|; hence the factor max(1, Σ_n |v_n|) on the tiny term
    let sumAbs := (cornersL.map fun bs => rabs (v bs)).foldl (· + ·) 0
    let bound := gamma * nlinAbs fr v + (k : Rat) * max (tiny cprec) (tiny f.vprec) * max 1 sumAbs
    match dec f.vprec (impl.getD q 0) with
    | .fin r =>
      let d := rabs (r - exact)
      if d = 0 then vs := vs ++ "e"
      else if d ≤ bound then vs := vs ++ "t"
      else
        vs := vs ++ "B"; bad := true
        if detail == "" then detail := s!" comp={q} exact={exact} impl={r} bound={bound}"
      -- hull
      let vals := cornersL.map v
      let lo := vals.foldl min (vals.headD 0)
      let hi := vals.foldl max (vals.headD 0)
      if r < lo - bound ∨ hi + bound < r then
        hull := "bad"; bad := true
        if detail == "" then detail := s!" comp={q} impl={r} hull=[{lo},{hi}] bound={bound}"
      -- lattice point: the stored value, after conversion to the coordinate precision when that is the narrower one
      if lattice then
        let v0 := v (is.map fun _ => false)
        let want := if cprec < f.vprec then roundF32 v0 else v0
        if r ≠ want then
          lat := "bad"; bad := true
          if detail == "" then detail := s!" comp={q} impl={r} stored={v0} expected={want}"
    | _ =>
      vs := vs ++ "B"; bad := true
      if detail == "" then detail := s!" comp={q} impl-nonfinite"
  -- neighbour set
  let mut nb := "na"
  match idx with
  | some got =>
    let want := cornersL.map (neighbourIdx f is)
    if got == want then nb := "ok"
    else if sortNat got == sortNat want then nb := "okset"
    else
      nb := "bad"; bad := true
      if detail == "" then detail := s!" read={got} model={want}"
  | none => pure ()
  let b := if N = 1 then "1" else if N = 2 then "2" else if N = 3 then "3" else "g"
  return (if bad then "BAD" else "ok") ++ s!" v={vs} lat={lat} hull={hull} nb={nb} br={b}{br}" ++ detail

/-- corpus witness: the width-faithful interpolator (`Model/LinearW.lean`) over values 10,20,30,40 beneath a clamp [0,3],
    index type of `w` bits, coordinate given as an f32/f64 bit pattern; prints the model's value, or `ub` -/
def widthWitness (w prec bits : Nat) : String :=
  let bk : Backend := clampL [.fin 0] [.fin 3] (arrayB [[.fin 10], [.fin 20], [.fin 30], [.fin 40]])
  match linearLW w bk [dec prec bits] with
  | .ok ([.fin q], t) => s!"ok {q.num}/{q.den} reads={t}"
  | .ok _ => "ok ?"
  | .error e => s!"ub {repr e}"

partial def loop (h : IO.FS.Stream) (out : IO.FS.Stream) (f : Fld) : IO Unit := do
  let line ← h.getLine
  if line.isEmpty then return ()
  let toks := (line.trimAscii.toString.splitOn " ").filter (· ≠ "")
  match toks with
  | "F" :: vp :: m :: cl :: rest =>
    match vp.toNat?, m.toNat?, cl.toNat?, (splitBar rest).map hexs with
    | some vp, some m, some cl, [some sz, some cells] =>
      let decd := cells.map (dec vp)
      let fin := decd.all (fun d => match d with | .fin _ => true | _ => false)
      let rs := decd.map (fun d => match d with | .fin r => r | _ => 0)
      out.putStrLn s!"set {cells.length / (if m = 0 then 1 else m)}"
      loop h out { vprec := vp, M := m, clamp := cl != 0, sizes := sz, cells := rs.toArray, finite := fin }
    | _, _, _, _ => out.putStrLn "bad-op"; loop h out f
  | "G" :: vp :: m :: cl :: rest =>
    match vp.toNat?, m.toNat?, cl.toNat?, hexs rest with
    | some vp, some m, some cl, some sz =>
      out.putStrLn s!"set {sz.foldl (· * ·) 1}"
      loop h out { vprec := vp, M := m, clamp := cl != 0, sizes := sz, cells := #[], finite := true, synth := true }
    | _, _, _, _ => out.putStrLn "bad-op"; loop h out f
  | "L" :: cp :: rest =>
    match cp.toNat?, (splitBar rest).map hexs with
    | some cp, [some c, some impl] => out.putStrLn (linCheck f cp c impl none); loop h out f
    | some cp, [some c, some impl, some idx] => out.putStrLn (linCheck f cp c impl (some idx)); loop h out f
    | _, _ => out.putStrLn "bad-op"; loop h out f
  | ["W", w, prec, bits] =>
    match w.toNat?, prec.toNat?, bits.toNat? with
    | some w, some prec, some bits => out.putStrLn (widthWitness w prec bits); loop h out f
    | _, _, _ => out.putStrLn "bad-op"; loop h out f
  | _ => out.putStrLn "bad-op"; loop h out f
def main : IO Unit := do
  let out ← IO.getStdout
  loop (← IO.getStdin) out {}
