import CovfieModel.Model.Interp
import CovfieModel.Model.Layout
open Covfie
/-- state: current field (value precision, M, sizes, cells as bit patterns in row-major storage order) -/
structure Fld where
  vprec : Nat := 32
  M : Nat := 1
  sizes : List Nat := []
  cells : Array Nat := #[]

def hexs (xs : List String) : Option (List Nat) := xs.mapM (fun s => (String.toNat? s))
def splitBar (xs : List String) : List (List String) :=
  xs.foldr (fun x acc => if x == "|" then [] :: acc else match acc with | a :: r => (x :: a) :: r | [] => [[x]]) [[]]
def dec (prec : Nat) (b : Nat) : Num := if prec = 32 then decodeF32 b else decodeF64 b
def ufor (prec : Nat) : Rat := if prec = 32 then uF32 else uF64
def tiny (prec : Nat) : Rat := if prec = 32 then pow2 (-149) else pow2 (-1074)
def truncNat (q : Rat) : Nat := (q.num / q.den).toNat      -- q ≥ 0

/-- verdict for one lookup -/
def linCheck (f : Fld) (cprec : Nat) (coord impl : List Nat) : String := Id.run do
  let N := f.sizes.length
  let cs := coord.map (dec cprec)
  let mut qs : List Rat := []
  for c in cs do
    match c with
    | .fin q => qs := qs ++ [q]
    | _ => return "skip nonfinite-coord"
  let is := qs.map truncNat
  let fr := (qs.zip is).map (fun (q, i) => q - (i : Rat))
  -- working precision = coordinate precision; result stored at value precision
  let k : Nat := 2 * N + 2^N + 3
  let u := max (ufor cprec) (ufor f.vprec)
  let gamma : Rat := (k : Rat) * u / (1 - (k : Rat) * u)
  let mut out := ""
  for q in List.range f.M do
    let v : List Bool → Rat := fun bs =>
      let idx := stridedIdx f.sizes ((is.zip bs).map (fun (i, b) => if b then i + 1 else i))
      match dec f.vprec (f.cells.getD (idx * f.M + q) 0) with
      | .fin r => r
      | _ => 0
    let exact := nlin fr v
    let bound := gamma * nlinAbs fr v + (k : Rat) * max (tiny cprec) (tiny f.vprec)
    match dec f.vprec (impl.getD q 0) with
    | .fin r =>
      let d := rabs (r - exact)
      if d = 0 then out := out ++ " exact"
      else if d ≤ bound then out := out ++ " tol"
      else return s!"BAD comp={q} exact={exact} impl={r} bound={bound}"
    | _ => return s!"BAD comp={q} impl-nonfinite"
  return "ok" ++ out

partial def loop (h : IO.FS.Stream) (f : Fld) : IO Unit := do
  let line ← h.getLine
  if line.isEmpty then return ()
  let toks := (line.trimAscii.toString.splitOn " ").filter (· ≠ "")
  match toks with
  | "F" :: vp :: m :: rest =>
    match vp.toNat?, m.toNat?, (splitBar rest).map hexs with
    | some vp, some m, [some sz, some cells] => loop h { vprec := vp, M := m, sizes := sz, cells := cells.toArray }
    | _, _, _ => IO.println "bad-op"; loop h f
  | "L" :: cp :: rest =>
    match cp.toNat?, (splitBar rest).map hexs with
    | some cp, [some c, some impl] => IO.println (linCheck f cp c impl); loop h f
    | _, _ => IO.println "bad-op"; loop h f
  | _ => IO.println "bad-op"; loop h f
def main : IO Unit := do loop (← IO.getStdin) {}
