import CovfieModel.Model.Layout
import CovfieModel.Model.NdMap
import CovfieModel.Model.Perm
open Covfie
def nats (xs : List String) : Option (List Nat) := xs.mapM String.toNat?
/-- split `a b | c d` into two number lists -/
def two (xs : List String) : Option (List Nat × List Nat) :=
  let a := xs.takeWhile (· ≠ "|")
  let b := (xs.dropWhile (· ≠ "|")).drop 1
  do pure ((← nats a), (← nats b))
def step (line : String) : String :=
  match line.trimAscii.toString.splitOn " " |>.filter (· ≠ "") with
  | "strided" :: w :: rest => match w.toNat?, two rest with
      | some w, some (sz, c) => s!"{stridedIdxW w sz c} {prod sz}"
      | _, _ => "bad-op"
  | "morton" :: rest => match two rest with
      | some (sz, c) => s!"{mortonLoop c} {curveLen sz}"
      | _ => "bad-op"
  | "mortonpdep" :: rest => match two rest with
      | some (sz, c) => s!"{mortonPdep c} {curveLen sz}"
      | _ => "bad-op"
  | "hilbert" :: rest => match two rest with
      | some (sz, c) => s!"{hilbertIdx sz c} {curveLen sz}"
      | _ => "bad-op"
  | ["roundpow2", w, i] => match w.toNat?, i.toNat? with
      | some w, some i => match roundPow2 w i with | some r => toString r | none => "diverges"
      | _, _ => "bad-op"
  | ["ipow", w, b, e] => match w.toNat?, b.toNat?, e.toNat? with
      | some w, some b, some e => toString (ipow w b e)
      | _, _, _ => "bad-op"
  | "ndmap" :: rest => match nats rest with
      | some sz =>
        let ts := ndMap sz
        if ts.isEmpty then "-" else ";".intercalate (ts.map fun t => ",".intercalate (t.map toString))
      | none => "bad-op"
  | "sort" :: rest => match nats rest with
      | some l => let r := sortSeq l; if r.isEmpty then "-" else " ".intercalate (r.map toString)
      | none => "bad-op"
  | "isperm" :: rest => match two rest with
      | some (a, b) => if isPerm a b then "1" else "0"
      | none => "bad-op"
  | _ => "bad-op"
partial def loop (h : IO.FS.Stream) : IO Unit := do
  let line ← h.getLine
  if line.isEmpty then return ()
  IO.println (step line)
  loop h
def main : IO Unit := do loop (← IO.getStdin)
