import CovfieModel.Model.Interp
import CovfieModel.Model.Scalar
/-! Judge for C04 (`nncheck`): `N cprec c1..cN | r1..rN` — coordinate bit patterns (decoded EXACTLY at their own
  precision) and the lattice point the implementation chose (signed decimal integers).
  Relation of the property (`Covfie.C04.nnRound_half` / `allowed_iff`): every component satisfies `|c − r| ≤ ½`.
  Answer: `ok <per component: n = not a tie, e = tie resolved to even (= the model's nnRound), o = tie resolved to the
  other allowed neighbour>` or `BAD comp=… c=… r=… nnRound=…`; `skip …` for non-finite coordinates. -/
open Covfie

def dec (prec : Nat) (b : Nat) : Num := if prec = 32 then decodeF32 b else decodeF64 b

def splitBar (xs : List String) : List (List String) :=
  xs.foldr (fun x acc => if x == "|" then [] :: acc else match acc with | a :: r => (x :: a) :: r | [] => [[x]]) [[]]

/-- the relation the property allows -/
def nnAllowed (c : Rat) (r : Int) : Bool := rabs (c - (r : Rat)) ≤ 1/2

def nnCheck (cprec : Nat) (coord : List Nat) (res : List Int) : String := Id.run do
  if coord.length ≠ res.length then return "bad-op"
  let mut s := ""
  let mut k := 0
  for (b, r) in coord.zip res do
    match dec cprec b with
    | .fin c =>
      let m := nnRound c
      if !nnAllowed c r then return s!"BAD comp={k} c={c} r={r} nnRound={m}"
      let tie := rabs (c - (c.floor : Rat)) == 1/2
      s := s ++ (if !tie then "n" else if r == m then "e" else "o")
      -- off a tie the allowed lattice point is unique, so it must be the model's
      if !tie ∧ r ≠ m then return s!"BAD comp={k} c={c} r={r} nnRound={m} model-inconsistent"
    | _ => return "skip nonfinite-coord"
    k := k + 1
  return "ok " ++ s

partial def loop (h : IO.FS.Stream) (out : IO.FS.Stream) : IO Unit := do
  let line ← h.getLine
  if line.isEmpty then return ()
  let toks := (line.trimAscii.toString.splitOn " ").filter (· ≠ "")
  match toks with
  | _n :: cp :: rest =>
    match cp.toNat?, splitBar rest with
    | some cp, [cs, rs] =>
      match cs.mapM (·.toNat?), rs.mapM (·.toInt?) with
      | some c, some r => out.putStrLn (nnCheck cp c r)
      | _, _ => out.putStrLn "bad-op"
    | _, _ => out.putStrLn "bad-op"
  | _ => out.putStrLn "bad-op"
  loop h out

def main : IO Unit := do loop (← IO.getStdin) (← IO.getStdout)
