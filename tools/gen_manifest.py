#!/usr/bin/env python3
"""Regenerates MANIFEST.json from the per-property table below (only properties whose check module exists are claimed)."""
import json, os, sys
from pathlib import Path
V = Path(__file__).resolve().parents[1]

PARTIAL = {"C13": "kind model vs the C++ type checker", "C15": "arithmetic UB conditions proved; all other UB observed by sanitizer builds",
           "C16": "cell-level footprint/commutation theorem; the C++ memory model is not modelled (TSan run as supporting evidence)"}

TEXT = {
 "C01": ("Lean theorems: row-major / Morton (loop and PDEP) / Hilbert index maps are in range of the allocated storage and injective on the box for all N and all extents, array read-own-write and frame; tied to the code by probe-backend and write-all/read-all correspondence in ASan+UBSan and BMI2 builds ALSO by translation: the row-major / portable Morton / Hilbert index kernels are translated from the source text on every run and compared with the terms the theorems Covfie.Imp.*_translated are about (DESIGN.md §11.6) ; Covfie.Code.strided_in_storage_no_alias / morton_no_alias / hilbert_in_storage_no_alias state in-storage and no-alias for the kernels as written", "§5 C01"),
 "C02": ("Lean: evaluator = composition of per-layer maps, locality of every layer for an arbitrary backend, one-line definitions for all N, M; tied to the code by bit-exact comparison of field_view::at on generated stacks (N != M) against the model evaluator", "§5 C02"),
 "C03": ("Lean: each branch of linear.hpp equals the recursive N-linear interpolant (any commutative ring), hull, lattice and corner lemmas, neighbours in box; rounding carried by a forward error bound judged by the Lean driver in exact rationals ALSO by translation: the weighted sums and corner numbering of the 1-D / 2-D / 3-D branches are translated from linear.hpp on every run (Covfie.Lin.*_translated, §11.6) ; Covfie.Code.lin_generic_is_nlinear_interpolant states the N-linear interpolant for the generic branch as written", "§5 C03"),
 "C04": ("Lean: round-half-even is within 1/2 and inside the grid on (-1/2, n-1/2); tied to the code by nn<identity> returning the chosen lattice point, ulp-neighbourhoods of every half-integer at both precisions", "§5 C04"),
 "C05": ("Lean: conversion = fold of writes over nd_map at injective indices reads back the source at every lattice coordinate, there-and-back; tied by converting real fields across all ordered layout pairs and whole stacks", "§5 C05"),
 "C06": ("Lean: load (dump f ++ rest) = ok (f, rest) for every stack type and all well-formed data (bit patterns uninterpreted), re-dump identical; tied by byte-exact comparison of field::dump with the model's dump and reload/redump on the real code ALSO by translation: write_binary / read_binary of every layer recognised as a script whose interpretation the model's dumpB / loadB clauses are (Covfie.IO.dump_* / load_*, §11.6) ; the array layer's members (width word from the scalar type, count, component loop) and field::dump / field(std::istream&) likewise (dump_array / load_array, dump_field / load_field), and Covfie.Code.stack_roundtrip states the round trip about the recognised statements of every layer, by induction over the stack", "§5 C06"),
 "C07": ("Lean: footprint-free layers are transparent (load_cross_interp), narrow/widen rounding lemmas, bracket grammar; tied by cross-type loads on the real code, hardware narrowing comparison and committed golden files ALSO by translation: the array layer's write_binary / read_binary (width word chosen from the scalar type, raw count, the component read at the width the file declares) recognised as the script the model's dumpB / loadB clause for arrays is (Covfie.IO.dump_array / load_array, §11.6)", "§5 C07"),
 "C08": ("Lean: every proper prefix, every altered header/footer/width word and every diverging stack type is rejected; width swap 8<->4 proved false in general (witness) => known finding; tied by complete prefix enumeration and word alteration on the real reader under ASan/UBSan ALSO by translation: read_io_header / read_io_footer / write_io_* / read_binary of utility/binary_io.hpp recognised as scripts that accept exactly what the model's pHdr / pFtr accept (§11.6) ; Covfie.Code.stack_prefix_rejected states prefix rejection about the recognised statements of every layer's reader", "§5 C08"),
 "C09": ("Lean: affApply = A x + t, affMul acts as composition, translation/scaling/identity, any N over any commutative ring; tied by exact small-integer comparison of covfie::algebra operators and affine<identity>, float stream with a forward bound ALSO by translation: matrix product, identity, affine*vector, translation, scaling translated from matrix.hpp / affine.hpp on every run; the translated terms compute the model's matMul / affApply / affTranslation / affScaling, hence A x + t (Covfie.RImp.*_translated, Covfie.Code.affine_apply_is_Ax_plus_t, §11.6) ; Covfie.Code.affine_compose_is_function_composition states composition for operator*(affine) as written", "§5 C09"),
 "C10": ("Lean: clamp lands in the box for every non-NaN extended value, identity inside, idempotent, clamp layer queries the clamped coordinate; tied by clamp<identity> and clamp over array/probe under ASan with type extremes and infinities", "§5 C10"),
 "C11": ("Lean: outside the closed box => default with empty trace for any backend; inside => exactly the backend; tied by a counting probe backend at and around every bound", "§5 C11"),
 "C12": ("Lean: the array ownership machine refines the plain value machine over every history (invariant: no aliasing, no leak, no dangling, no double free); tied by interpreting the same histories over std::optional<field> slots under ASan/LSan ALSO by translation: the copy constructor and copy assignment of array::owning_data_t recognised statement by statement as scripts that are the machine's copyCtor / copyAssign steps on every reachable state (Covfie.Heap.copy_*_translated, §11.6)", "§5 C12"),
 "C13": ("Lean: kind system is compositional; well-kinded stacks whose view fits support every API op, ill-kinded support none; tied to g++ by a generated compile matrix (accept/reject and sizeof(view))", "§5 C13"),
 "C14": ("Lean: row-major closed form; Morton bit i of coordinate j is bit i*N+j in both implementations; the iterative Hilbert loop equals the recursive curve, which is a bijection onto [0,4^k) starting at the origin with edge-adjacent steps, for every k; tied by static index functions and layers over identity ALSO by translation: the three index kernels translated from the source text on every run; Covfie.Code.strided_position / morton_bits / hilbert_curve state the published positions for the code as written (§11.6)", "§5 C14"),
 "C15": ("Lean: on the documented domain none of the modelled arithmetic UB conditions fires for array-backed row-major/Morton stacks; everything else observed: all correspondence programs run under ASan+UBSan(+float-cast-overflow) with assertions and in -O2 -DNDEBUG with digests compared", "§5 C15"),
 "C16": ("Lean: for any number of threads and any schedule, conflict-free programs give every thread its solo results and no conflicting pair exists; tied by probe footprints = model traces, absence of writable statics, and a TSan run", "§5 C16"),
 "C17": ("Lean: configuration read-back at every layer, rebuild_eq, positional pack helper for every depth; tied by get_backend()/get_configuration() chains on generated towers with pairwise distinct same-typed configurations ALSO: get_configuration() and the parameter-pack constructor of every layer compared on every run with the text the clauses of Model/Config.lean were written from (function-level sentences, §11.6)", "§5 C17"),
 "C18": ("Lean: round_pow2 is the least power of two >= i on [1,2^(w-1)] for every width, diverges beyond; ipow = b^e mod 2^w; curve storage covers every index; tied by exhaustive 8/16-bit (32-bit thorough) comparison of the real templates ALSO by translation: round_pow2 and ipow translated from numeric.hpp on every run; Covfie.Code.round_pow2_least / round_pow2_diverges / ipow_exact state the property for the code as written, every width, every input (§11.6)", "§5 C18"),
 "C19": ("Lean: nd_map visits exactly the box, each tuple once, count = product, for all dimensionalities and extents incl. 0 and 1; tied by recording the real callback sequence ALSO by translation: tail, cat and the three branches of nd_map recognised as equations; any meanings satisfying them give the model's visit sequence (Covfie.Nd.visits_eq / as_written, §11.6)", "§5 C19"),
 "C20": ("Lean: the pivot/filter quicksort yields a sorted permutation, and the permutation predicate holds iff multisets are equal, all lengths; tied by generated TUs printing sort_index_sequence / is_permutation ALSO by translation: every template specialisation of static_permutation.hpp recognised as an equation on index sequences; any meanings satisfying the equations are the model's sortSeq / isPerm (Covfie.Tmpl.sort_eq / perm_eq / as_written, §11.6)", "§5 C20"),
}
NOTE = ("Trusted: Lean 4.33 kernel (axioms per theorem in the evidence: at most propext, Classical.choice, Quot.sound; no sorry, no native_decide, "
        "no own axioms), the Lean compiler for the model drivers, the correspondence harness (Python generators, C++ harness code, line protocol), "
        "g++ 12.2/libstdc++/sanitizer runtimes, x86-64 IEEE-754 and pdep. The model is hand-written; a harmless rewrite that changes behaviour "
        "nowhere leaves the correspondence intact.")

def main():
    checks = []
    na = []
    for i in range(1, 21):
        pid = f"C{i:02d}"
        if (V / "harness" / "props" / f"{pid.lower()}.py").exists() and (V / "lean" / "obligations" / f"{pid}.json").exists():
            text, ref = TEXT[pid]
            if pid in PARTIAL:
                text = "PARTIAL (" + PARTIAL[pid] + "). " + text
            checks.append({
                "property_id": pid,
                "quick_cmd": f"python3 check.py {pid} --tier quick",
                "thorough_cmd": f"python3 check.py {pid} --tier thorough",
                "evidence_file": f"/verif/evidence/{pid}.json",
                "replay_cmd_template": f"python3 check.py {pid} --replay {{path}}",
                "engine": "lean4-proof+correspondence",
                "level_claimed": {"category": "proof", "text": text, "design_ref": ref},
                "level_note": NOTE,
                "technique": "Lean 4 theorem over a hand-written executable model + differential correspondence check against /repo" + (" + kernels translated from the source text on every run and compared with the terms the theorems are about" if pid in ("C01", "C03", "C05", "C06", "C07", "C08", "C09", "C12", "C14", "C18", "C19", "C20") else ""),
            })
        else:
            na.append({"property_id": pid, "reason": "check not yet built in this tree (planned: Lean theorem + correspondence, see DESIGN.md §5)"})
    m = {
        "version": 1,
        "setup_cmd": "cd lean && lake build",
        "hooks": {"guard": "COVFIE_VERIF", "enable": "no source hooks: harness TUs are compiled with -DCOVFIE_VERIF -I/repo/lib/core from the working tree; observation goes through the public API, a user-defined probe backend and a fault-injecting streambuf under /verif/harness/cpp",
                  "baseline_off_cmd": "cmake --build /repo/_build && /repo/_build/tests/core/test_core && /repo/_build/tests/cpu/test_cpu",
                  "source_commits": [], "add_only": True},
        "engines": [{"name": "lean4-proof+correspondence", "path": "/verif/check.py", "serves_properties": [c["property_id"] for c in checks],
                     "kind_free_text": "Lean 4 library (lean/CovfieModel: Model, Lemmas, Props) + compiled model drivers (lean/Driver) + C++ harness built from /repo's working tree, compared case by case"}],
        "checks": checks,
        "notes": "See DESIGN.md. known_findings.json lists recorded findings and fixed defects.",
        "not_applicable": na,
    }
    (V / "MANIFEST.json").write_text(json.dumps(m, indent=1) + "\n")
    print(f"MANIFEST.json: {len(checks)} checks, {len(na)} not yet claimed")

if __name__ == "__main__":
    main()
