#!/usr/bin/env python3
"""Applies a behaviour-preserving patch to a scratch worktree of /repo and runs every check (quick tier) against it:
every check must stay quiet (exit 0). usage: harmless_eval.py <patch.diff> <id> [--checks C01,C02,...]"""
import json, os, subprocess, sys, shutil, time
from pathlib import Path
V = Path(__file__).resolve().parents[1]
patch, hid = sys.argv[1], sys.argv[2]
checks = None
if "--checks" in sys.argv:
    checks = sys.argv[sys.argv.index("--checks") + 1].split(",")
if checks is None:
    checks = [c["property_id"] for c in json.load(open(V / "MANIFEST.json"))["checks"]]
wt = Path(f"/tmp/harmless-{hid}")
subprocess.run(f"git -C /repo worktree remove --force {wt}", shell=True, capture_output=True)
shutil.rmtree(wt, ignore_errors=True)
assert subprocess.run(f"git -C /repo worktree add --detach {wt} HEAD", shell=True, capture_output=True).returncode == 0
res = {"id": hid, "patch": patch, "checks": {}}
try:
    r = subprocess.run(f"git -C {wt} apply {patch}", shell=True, capture_output=True, text=True)
    assert r.returncode == 0, r.stderr
    for c in checks:
        t0 = time.time()
        p = subprocess.run(f"python3 {V}/check.py {c} --tier quick", shell=True, cwd=V, capture_output=True, text=True, errors="replace", timeout=7200,
                           env=dict(os.environ, COVFIE_REPO=str(wt)))
        lines = [l for l in p.stdout.splitlines() if l.startswith("VIOLATION") or l.startswith("  ")]
        res["checks"][c] = {"exit": p.returncode, "wall_s": round(time.time() - t0), "lines": lines[:6]}
        print(c, "quiet" if p.returncode == 0 else "ALARM " + " | ".join(lines[:3])[:300], flush=True)
finally:
    subprocess.run(f"git -C /repo worktree remove --force {wt}", shell=True, capture_output=True)
    shutil.rmtree(wt, ignore_errors=True)
out = V / "seeded" / "harmless" / hid
out.mkdir(parents=True, exist_ok=True)
shutil.copy(patch, out / "patch.diff")
rd = Path(patch).parent / "README.md"
if rd.exists():
    shutil.copy(rd, out / "README.md")
res["alarms"] = [c for c, v in res["checks"].items() if v["exit"] != 0]
res["what"] = rd.read_text().splitlines()[0].lstrip("# ").strip() if rd.exists() else ""
res["patch"] = "patch.diff"
(out / "meta.json").write_text(json.dumps(res, indent=1))
print("ALARMS:", [c for c, v in res["checks"].items() if v["exit"] != 0])
