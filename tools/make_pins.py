#!/usr/bin/env python3
"""Writes /verif/pins.json from /repo's current working tree (run when the checks have been validated on that tree)."""
import json, sys
from pathlib import Path
V = Path(__file__).resolve().parents[1]
sys.path.insert(0, str(V))
from vlib import pins
pins.PINS.write_text(json.dumps(pins.current(), indent=1, sort_keys=True) + "\n")
print(len(pins.current()), "files pinned")
