#!/bin/bash
# Runs every claimed check once (quick tier by default) against /repo and prints one line per property.
# usage: tools/run_all.sh [quick|thorough] [seed]
cd "$(dirname "$0")/.."
tier=${1:-quick}; export VERIF_SEED=${2:-1}
rc_all=0
for p in $(python3 -c "import json; print(' '.join(c['property_id'] for c in json.load(open('MANIFEST.json'))['checks']))"); do
  out=$(python3 check.py $p --tier $tier 2>&1); rc=$?
  echo "$out" | grep -E "^(VIOLATION|KNOWN-FINDING)" 
  echo "$out" | tail -1 | sed "s/^/[rc=$rc] /"
  [ $rc -ne 0 ] && rc_all=1
done
exit $rc_all
