#!/usr/bin/env python3
"""Confirm a seeded change (compiles, 99 tests pass, demonstration passes clean / fails with it) in a scratch
worktree, run the listed checks against it, store it under /verif/seeded/<id>/ and remove the worktree.
usage: seed_eval.py <dir with patch.diff, demo.cpp[, README.md]> <seed id> <property it breaks> [--checks C01,C14] [--demo-flags "..."]
       [--needs "..."] [--skip-tests]"""
import argparse, json, os, re, shutil, subprocess, sys, time
from pathlib import Path
V = Path(__file__).resolve().parents[1]


def sh(cmd, timeout=3600, cwd=None, env=None):
    e = dict(os.environ)
    if env:
        e.update(env)
    p = subprocess.run(cmd, shell=isinstance(cmd, str), cwd=cwd, capture_output=True, text=True, errors="replace", timeout=timeout, env=e)
    return p.returncode, p.stdout + p.stderr


def main():
    ap = argparse.ArgumentParser()
    ap.add_argument("src"); ap.add_argument("sid"); ap.add_argument("prop")
    ap.add_argument("--checks", default=None)
    ap.add_argument("--demo-flags", default="-O1")
    ap.add_argument("--demo-cxx", default="g++")
    ap.add_argument("--demo-cmd", default=None, help="whole build-and-run command of the demonstration; {inc} {demo} {exe} are substituted")
    ap.add_argument("--needs", default="")
    ap.add_argument("--skip-tests", action="store_true")
    ap.add_argument("--tier", default="quick")
    ap.add_argument("--demo-rejects", action="store_true",
                    help="the demo is a translation unit the compiler must REJECT: compile failure counts as rc 0")
    a = ap.parse_args()
    src = Path(a.src)
    checks = (a.checks or a.prop).split(",")
    wt = Path(f"/tmp/seedeval-{a.sid}")
    sh(f"git -C /repo worktree remove --force {wt}")
    shutil.rmtree(wt, ignore_errors=True)
    rc, out = sh(f"git -C /repo worktree add --detach {wt} HEAD")
    assert rc == 0, out
    meta = {"id": a.sid, "breaks": a.prop, "needs_to_manifest": a.needs, "ran": []}
    try:
        rc, out = sh(f"git -C {wt} apply {src / 'patch.diff'}")
        assert rc == 0, "patch does not apply: " + out
        meta["patch_applies"] = True
        demo = src / "demo.cpp"
        flags = a.demo_flags
        if a.demo_rejects:
            def rej(inc, exe):
                rc, o = sh(f"{a.demo_cxx} -std=c++20 -w {flags} -I{inc} {demo} -o {exe}", timeout=900)
                if rc != 0:
                    return 0, "rejected by the compiler (expected): " + " ".join(l for l in o.splitlines() if "error" in l)[:200]
                return sh(f"{exe}", timeout=900)
            rc0, o0 = rej("/repo/lib/core", f"{wt}/demo_clean")
            rc1, o1 = rej(f"{wt}/lib/core", f"{wt}/demo_mut")
        elif a.demo_cmd:
            rc0, o0 = sh(a.demo_cmd.format(inc="/repo/lib/core", demo=demo, exe=f"{wt}/demo_clean"), timeout=900)
            rc1, o1 = sh(a.demo_cmd.format(inc=f"{wt}/lib/core", demo=demo, exe=f"{wt}/demo_mut"), timeout=900)
            flags = a.demo_cmd
        else:
            rc0, o0 = sh(f"{a.demo_cxx} -std=c++20 -w {flags} -I/repo/lib/core {demo} -o {wt}/demo_clean && {wt}/demo_clean", timeout=900)
            rc1, o1 = sh(f"{a.demo_cxx} -std=c++20 -w {flags} -I{wt}/lib/core {demo} -o {wt}/demo_mut && {wt}/demo_mut", timeout=900)
        meta["demo"] = {"flags": flags, "clean_rc": rc0, "clean_tail": o0[-300:], "with_change_rc": rc1, "with_change_tail": o1[-400:]}
        meta["ran"].append(f"{a.demo_cxx} -std=c++20 {flags} -I<tree>/lib/core demo.cpp && ./a.out  (clean rc={rc0}, with change rc={rc1})")
        if not a.skip_tests:
            t0 = time.time()
            rc, out = sh(f"cmake -G Ninja -S {wt} -B {wt}/_build -DCOVFIE_BUILD_TESTS=ON -DCOVFIE_PLATFORM_CPU=ON -DCMAKE_BUILD_TYPE=RelWithDebInfo "
                         f"-DCMAKE_CXX_FLAGS=-Wno-error -DGTest_DIR=/root/miniconda/lib/cmake/GTest && cmake --build {wt}/_build", timeout=3000)
            ok_build = rc == 0
            rc_a, oa = sh(f"{wt}/_build/tests/core/test_core", timeout=600) if ok_build else (1, out[-500:])
            rc_b, ob = sh(f"{wt}/_build/tests/cpu/test_cpu", timeout=600) if ok_build else (1, "")
            passed = sum(int(x) for x in re.findall(r"\[  PASSED  \] (\d+) tests", oa + ob))
            meta["tests"] = {"build_ok": ok_build, "passed": passed, "all_pass": ok_build and rc_a == 0 and rc_b == 0 and passed == 99,
                             "wall_s": round(time.time() - t0)}
            meta["ran"].append("cmake + ninja test build in the scratch worktree; tests/core/test_core, tests/cpu/test_cpu")
            shutil.rmtree(wt / "_build", ignore_errors=True)
        meta["checks"] = {}
        for c in checks:
            t0 = time.time()
            rc, out = sh(f"python3 {V}/check.py {c} --tier {a.tier}", timeout=7200, cwd=V, env={"COVFIE_REPO": str(wt)})
            vio = [l for l in out.splitlines() if l.startswith("VIOLATION") or l.startswith("  obligation") or l.startswith("  ")]
            meta["checks"][c] = {"exit": rc, "caught": rc == 1 and any(l.startswith("VIOLATION") for l in vio), "lines": vio[:8],
                                 "wall_s": round(time.time() - t0), "tier": a.tier}
            meta["ran"].append(f"COVFIE_REPO=<scratch worktree with the change> python3 check.py {c} --tier {a.tier} -> exit {rc}")
            # keep one replay file as an example
            m = re.search(r"replay=(\S+)", out)
            if m and Path(m.group(1)).exists():
                meta["checks"][c]["replay_example"] = json.loads(Path(m.group(1)).read_text()).get("what", "")[:300]
        dst = V / "seeded" / a.sid
        dst.mkdir(parents=True, exist_ok=True)
        shutil.copy(src / "patch.diff", dst / "patch.diff")
        shutil.copy(demo, dst / "demo.cpp")
        if (src / "README.md").exists():
            shutil.copy(src / "README.md", dst / "README.md")
        (dst / "meta.json").write_text(json.dumps(meta, indent=1))
        print(json.dumps({k: meta[k] for k in ("id", "breaks", "demo", "tests", "checks") if k in meta}, indent=1)[:3000])
    finally:
        sh(f"git -C /repo worktree remove --force {wt}")
        shutil.rmtree(wt, ignore_errors=True)


if __name__ == "__main__":
    main()
