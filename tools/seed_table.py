#!/usr/bin/env python3
"""Markdown table of the seeded changes kept under /verif/seeded and which checks caught them (from meta.json)."""
import json
from pathlib import Path
V = Path(__file__).resolve().parents[1]
rows = []
for d in sorted((V / "seeded").iterdir()):
    m = d / "meta.json"
    if not m.exists():
        continue
    j = json.loads(m.read_text())
    ch = []
    for c, v in j.get("checks", {}).items():
        ob = ""
        for l in v.get("lines", []):
            if "obligation=" in l:
                ob = l.split("obligation=")[1].split(":")[0]
                break
            if "no longer hold" in l:
                ob = "no-failing-input-found"
        ch.append(f"{c}: {'caught' if v['caught'] else 'MISSED'}" + (f" ({ob})" if ob else ""))
    t = j.get("tests", {})
    rows.append(f"| `{j['id']}` | {j['breaks']} | {j.get('needs_to_manifest','')} | {'99/99' if t.get('all_pass') else str(t.get('passed'))} | {'; '.join(ch)} |")
out = ["| seeded change | breaks | needs, in order to manifest | tests with change | checks |", "|---|---|---|---|---|"] + rows
# harmless (behaviour-preserving) changes: every check must stay quiet
hrows = []
hd = V / "seeded" / "harmless"
if hd.exists():
    for d in sorted(hd.iterdir(), key=lambda x: (len(x.name), x.name)):
        m = d / "meta.json"
        if not m.exists():
            continue
        j = json.loads(m.read_text())
        al = j.get("alarms", [])
        hrows.append(f"| `{j.get('id', d.name)}` | {j.get('what', '')} | {len(j.get('checks', {}))} | {'none' if not al else ', '.join(al)} |")
hout = ["| behaviour-preserving change | what | checks run | alarms |", "|---|---|---|---|"] + hrows
import sys
if "--inject" in sys.argv:
    p = V / "DESIGN.md"
    t = p.read_text()
    for tag, body in (("SEEDTABLE", out), ("HARMLESSTABLE", hout)):
        b, e = f"<!-- {tag}:BEGIN -->", f"<!-- {tag}:END -->"
        if b in t and e in t:
            t = t[:t.index(b) + len(b)] + "\n" + "\n".join(body) + "\n" + t[t.index(e):]
    p.write_text(t)
    n_caught = sum(1 for r in rows if "caught" in r)
    print(f"{len(rows)} seeded changes ({n_caught} caught by at least one check), {len(hrows)} harmless changes")
else:
    print("\n".join(out)); print(); print("\n".join(hout))
