#!/usr/bin/env python3
"""Markdown table of the seeded changes kept under /verif/seeded and which checks caught them (from meta.json)."""
import json
from pathlib import Path
V = Path(__file__).resolve().parents[1]
rows = []
for d in sorted((V / "seeded").iterdir()):
    m = d / "meta.json"
    if not m.exists():
        continue
    j = json.loads(m.read_text())
    ch = []
    for c, v in j.get("checks", {}).items():
        ob = ""
        for l in v.get("lines", []):
            if "obligation=" in l:
                ob = l.split("obligation=")[1].split(":")[0]
                break
            if "no longer hold" in l:
                ob = "no-failing-input-found"
        ch.append(f"{c}: {'caught' if v['caught'] else 'MISSED'}" + (f" ({ob})" if ob else ""))
    t = j.get("tests", {})
    rows.append(f"| `{j['id']}` | {j['breaks']} | {j.get('needs_to_manifest','')} | {'99/99' if t.get('all_pass') else str(t.get('passed'))} | {'; '.join(ch)} |")
print("| seeded change | breaks | needs, in order to manifest | tests with change | checks |")
print("|---|---|---|---|---|")
print("\n".join(rows))
