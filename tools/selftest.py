#!/usr/bin/env python3
"""Regression test of the machinery itself: every seeded change kept under seeded/<id>/ is applied to a scratch worktree of /repo
(never to /repo) and the checks that caught it when it was recorded are run again; each must still report a violation.
usage: selftest.py [--only id,id,...] [--shard k/n] [--all-checks]        (output: one line per seeded change; exit 1 if one escapes)"""
import json, os, subprocess, sys, shutil, time
from pathlib import Path
V = Path(__file__).resolve().parents[1]
args = sys.argv[1:]
only = args[args.index("--only") + 1].split(",") if "--only" in args else None
shard = tuple(map(int, args[args.index("--shard") + 1].split("/"))) if "--shard" in args else (0, 1)
ids = sorted(d.name for d in (V / "seeded").iterdir() if (d / "meta.json").exists() and (d / "patch.diff").exists())
if only:
    ids = [i for i in ids if i in only]
ids = [i for k, i in enumerate(ids) if k % shard[1] == shard[0]]
escaped = []
for sid in ids:
    meta = json.loads((V / "seeded" / sid / "meta.json").read_text())
    checks = [c for c, v in meta.get("checks", {}).items() if v.get("caught")] if "--all-checks" not in args else list(meta.get("checks", {}))
    wt = Path(f"/tmp/selftest-{os.getpid()}-{sid}")
    subprocess.run(f"git -C /repo worktree remove --force {wt}", shell=True, capture_output=True)
    shutil.rmtree(wt, ignore_errors=True)
    assert subprocess.run(f"git -C /repo worktree add --detach {wt} HEAD", shell=True, capture_output=True).returncode == 0
    try:
        r = subprocess.run(f"git -C {wt} apply {V / 'seeded' / sid / 'patch.diff'}", shell=True, capture_output=True, text=True)
        if r.returncode != 0:
            print(f"{sid}: PATCH-DOES-NOT-APPLY {r.stderr.strip()[:120]}", flush=True)
            escaped.append(sid)
            continue
        res = []
        for c in checks:
            t0 = time.time()
            p = subprocess.run(f"python3 {V}/check.py {c} --tier quick", shell=True, cwd=V, capture_output=True, text=True, errors="replace",
                               timeout=7200, env=dict(os.environ, COVFIE_REPO=str(wt)))
            caught = p.returncode == 1 and "VIOLATION" in p.stdout
            res.append((c, caught, round(time.time() - t0)))
        ok = any(c for _, c, _ in res)
        print(f"{sid}: " + ("caught" if ok else "ESCAPED") + "  " + " ".join(f"{c}={'caught' if k else 'quiet'}({t}s)" for c, k, t in res), flush=True)
        if not ok:
            escaped.append(sid)
    finally:
        subprocess.run(f"git -C /repo worktree remove --force {wt}", shell=True, capture_output=True)
        shutil.rmtree(wt, ignore_errors=True)
print("ESCAPED:", escaped)
sys.exit(1 if escaped else 0)
