#!/usr/bin/env python3
"""Regenerates the per-property table of DESIGN.md §11.1 (between the STATUSTABLE markers) from lean/obligations/*.json
and evidence/*.json, and the line count / theorem count sentence.  usage: status_table.py [--inject]"""
import json, re, subprocess, sys
from pathlib import Path
V = Path(__file__).resolve().parents[1]
rows = []
for k in range(1, 21):
    pid = f"C{k:02d}"
    ob = json.loads((V / "lean" / "obligations" / f"{pid}.json").read_text())
    ev = json.loads((V / "evidence" / f"{pid}.json").read_text()) if (V / "evidence" / f"{pid}.json").exists() else {}
    cov = ev.get("coverage", {})
    mods = ", ".join(m.replace("CovfieModel.", "") for m in ob["modules"])
    corr = ", ".join(f"`{c}`" for c in ob["correspondence"])
    rows.append(f"| {pid} | {len(ob['theorems'])} | {mods} | {corr} | {cov.get('evaluations', '?')} | {round(ev.get('wall_s', 0))} s ({ev.get('tier', '?')}) |")
out = ["| Prop | Theorems audited | Lean modules | Correspondence obligations | cases | wall (tier of the last run) |", "|---|---|---|---|---|---|"] + rows
files = list((V / "lean" / "CovfieModel").rglob("*.lean")) + list((V / "lean" / "Driver").glob("*.lean"))
lines = sum(len(f.read_text().splitlines()) for f in files)
thms = sum(len(re.findall(r"^(?:private )?(?:theorem|lemma) ", f.read_text(), re.M)) for f in files)
audited = sum(len(json.loads(p.read_text())["theorems"]) for p in (V / "lean" / "obligations").glob("C*.json"))
summary = f"≈ {lines / 1000:.1f} k lines, {thms} theorems and lemmas; {audited} audited property-theorem entries"
if "--inject" in sys.argv:
    p = V / "DESIGN.md"
    t = p.read_text()
    b, e = "<!-- STATUSTABLE:BEGIN -->", "<!-- STATUSTABLE:END -->"
    if b in t and e in t:
        t = t[:t.index(b) + len(b)] + "\n" + "\n".join(out) + "\n" + t[t.index(e):]
    t = re.sub(r"≈ [\d.]+ k lines, \d+ theorems and lemmas; \d+ audited property-theorem entries", summary, t)
    p.write_text(t)
print(summary)
if "--inject" not in sys.argv:
    print("\n".join(out))
