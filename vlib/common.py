"""Shared plumbing for the covfie verification checks: paths, timeouts, compilation of harness TUs from /repo's
current working tree, crash-isolating line-protocol runs, the Lean build/audit step."""
import fcntl, hashlib, json, os, re, shutil, signal, subprocess, sys, tempfile, time
from concurrent.futures import ThreadPoolExecutor
from pathlib import Path

VERIF = Path(__file__).resolve().parents[1]
REPO = Path(os.environ.get("COVFIE_REPO", "/repo"))
INC = REPO / "lib" / "core"
LEAN = VERIF / "lean"
BIN = LEAN / ".lake" / "build" / "bin"
GUARD = "COVFIE_VERIF"
NCPU = min(16, os.cpu_count() or 4)

ALLOWED_AXIOMS = {"propext", "Classical.choice", "Quot.sound"}

SAN = ["-fsanitize=address,undefined,float-cast-overflow", "-fno-sanitize-recover=all"]
CONFIGS = {
    "dbg": ["-O1", "-g1"] + SAN,
    "bmi2": ["-O1", "-g1", "-mbmi2"] + SAN,
    # every ISA extension of x86-64-v3 (SSE4.1, AVX2, BMI2, FMA, …) switched on, so that code paths guarded by __SSE4_1__,
    # __AVX2__, __BMI2__ … are compiled and executed; contraction off so that floating-point results stay those of the plain build
    "isa": ["-O1", "-g1", "-march=x86-64-v3", "-ffp-contract=off"] + SAN,
    # release builds: -fno-tree-slp-vectorize because g++ 12.2's SLP vectorizer drops the intermediate rounding of a
    # double -> float -> double conversion chain (covariant_cast<double, covariant_cast<float, array<double3>>> beneath a Morton
    # layer returned the unrounded doubles at -O2; correct at -O1, with -fno-tree-slp-vectorize, and in every sanitizer build;
    # no undefined behaviour in the source) -- a toolchain defect, see DESIGN.md 11.4
    "rel": ["-O2", "-DNDEBUG", "-fno-tree-slp-vectorize"],
    # OpenMP switched on (code under `#ifdef _OPENMP` / omp pragmas is compiled in); run with OMP_NUM_THREADS=4
    "omp": ["-O1", "-g1", "-fopenmp"],
    "relbmi2": ["-O2", "-DNDEBUG", "-mbmi2", "-fno-tree-slp-vectorize"],
    "tsan": ["-O1", "-g1", "-fsanitize=thread"],
    "syntax": ["-fsyntax-only"],
    # a second compiler front end (clang 14 with libstdc++): builtins and template machinery that g++ 12 does not have
    "clang": ["CXX=clang++-14", "-O0", "-Wno-c++11-narrowing"],   # (g++ accepts the narrowing in braces that clang rejects)
}
KNOWN_GUARDS = {"NDEBUG", "_MSC_VER", "HAVE_BMI2", "__x86_64__", "__GNUC__", "__clang__", "__BMI2__", "__CUDACC__", "__CUDA_ARCH__",
                "_OPENMP", "__cplusplus", "defined", "__has_builtin", "__has_include", "__has_cpp_attribute", "true", "false"}
# feature macros the `isa` configuration already switches on
ISA_GUARDS = {"__SSE2__", "__SSE3__", "__SSSE3__", "__SSE4_1__", "__SSE4_2__", "__AVX__", "__AVX2__", "__FMA__", "__BMI__", "__POPCNT__",
              "__LZCNT__", "__F16C__", "__MOVBE__"}


def guard_macros():
    """Macros that guard code in the library's headers and that no build configuration of the checks defines: names in
    #if / #ifdef / #ifndef / #elif conditions, minus the known ones, minus those the headers define themselves, minus
    include guards. A change that hides code behind a target or tuning macro (`#ifdef __znver2__`) is compiled and run in
    the additional configuration `bmi2macro` (= `bmi2` + -D<each of them>)."""
    found, defined = set(), set()
    for f in sorted(INC.rglob("*.hpp")):
        try:
            text = re.sub(r"\\\n", " ", f.read_text(errors="replace"))
        except OSError:
            continue
        for ln in text.splitlines():
            m = re.match(r"\s*#\s*(if|ifdef|ifndef|elif)\b(.*)", ln)
            if m:
                found |= set(re.findall(r"[A-Za-z_][A-Za-z_0-9]*", re.sub(r"//.*", "", m.group(2))))
            m = re.match(r"\s*#\s*define\s+([A-Za-z_][A-Za-z_0-9]*)", ln)
            if m:
                defined.add(m.group(1))
    out = sorted(x for x in found - KNOWN_GUARDS - ISA_GUARDS - defined if not x.isdigit() and not x.startswith("COVFIE_"))
    return out


def extra_cfgs():
    """[] on a tree whose guards are all known; ["bmi2macro"] (and the configuration itself) otherwise"""
    ms = guard_macros()
    if not ms:
        return []
    CONFIGS["bmi2macro"] = ["-O1", "-g1", "-mbmi2"] + [f"-D{m}" for m in ms] + SAN
    return ["bmi2macro"]


BASE_FLAGS = ["-std=c++20", f"-D{GUARD}", "-w", f"-I{INC}", f"-I{VERIF / 'harness' / 'cpp'}"]
SAN_ENV = {
    "ASAN_OPTIONS": "detect_leaks=1:abort_on_error=0:exitcode=97:allocator_may_return_null=1:max_allocation_size_mb=2048",
    "UBSAN_OPTIONS": "print_stacktrace=0:halt_on_error=1:exitcode=98",
    "TSAN_OPTIONS": "exitcode=96:halt_on_error=0",
    "LSAN_OPTIONS": "exitcode=95",
}


def seed():
    try:
        return int(os.environ.get("VERIF_SEED", "1"))
    except ValueError:
        return 1


class Work:
    """per-run scratch directory, removed at exit (also on failure)"""

    def __init__(self, tag):
        self.dir = Path(tempfile.mkdtemp(prefix=f"covfie-verif-{tag}-"))

    def path(self, name):
        return self.dir / name

    def close(self):
        shutil.rmtree(self.dir, ignore_errors=True)

    def __enter__(self):
        return self

    def __exit__(self, *a):
        self.close()


def _rss_mb(pid):
    try:
        with open(f"/proc/{pid}/status") as f:
            for ln in f:
                if ln.startswith("VmRSS:"):
                    return int(ln.split()[1]) // 1024
    except OSError:
        pass
    return 0


def sh(cmd, timeout, cwd=None, input=None, env=None, rss_limit_mb=None):
    """run with a timeout; never hangs the check. returns (rc, stdout, stderr); rc = -999 on timeout.
    rss_limit_mb: a watchdog kills the process when its resident memory passes the limit (a changed library that loops while
    appending to a buffer must cost a crash report, not the machine); reported like a timeout, with `MEMORY` in stderr"""
    e = dict(os.environ)
    e.update(SAN_ENV)
    if env:
        e.update(env)
    if rss_limit_mb:
        import threading
        p = subprocess.Popen(cmd, cwd=cwd, stdin=subprocess.PIPE if input is not None else None, stdout=subprocess.PIPE, stderr=subprocess.PIPE,
                             text=True, errors="replace", env=e)
        killed = {"why": None}
        done = threading.Event()

        def watch():
            t0 = time.time()
            while not done.wait(0.25):
                if _rss_mb(p.pid) > rss_limit_mb:
                    killed["why"] = "MEMORY"; p.kill(); return
                if time.time() - t0 > timeout:
                    killed["why"] = "TIMEOUT"; p.kill(); return
        th = threading.Thread(target=watch, daemon=True)
        th.start()
        try:
            so, se = p.communicate(input=input)
        finally:
            done.set()
        if killed["why"]:
            return -999, so or "", (se or "") + "\n" + killed["why"]
        return p.returncode, so, se
    try:
        p = subprocess.run(cmd, cwd=cwd, input=input, capture_output=True, text=True, errors="replace", timeout=timeout, env=e)
        return p.returncode, p.stdout, p.stderr
    except subprocess.TimeoutExpired as ex:
        out = ex.stdout.decode(errors="replace") if isinstance(ex.stdout, bytes) else (ex.stdout or "")
        err = ex.stderr.decode(errors="replace") if isinstance(ex.stderr, bytes) else (ex.stderr or "")
        return -999, out, err + "\nTIMEOUT"


# ----------------------------------------------------------------------------------------------- C++ harness builds
class CompileError(Exception):
    def __init__(self, src, cfg, diag):
        super().__init__(f"{src} [{cfg}] failed to compile")
        self.src, self.cfg, self.diag = str(src), cfg, diag


def compile_one(src, out, cfg, extra=(), timeout=600):
    flags = list(CONFIGS[cfg])
    cxx = "g++"
    if flags and flags[0].startswith("CXX="):          # a configuration may name another compiler
        cxx = flags.pop(0)[4:]
    cmd = [cxx] + BASE_FLAGS + flags + list(extra) + [str(src)]
    if cfg != "syntax":
        cmd += ["-o", str(out)]
        if "tsan" in cfg:
            cmd += ["-pthread"]
    rc, so, se = sh(cmd, timeout)
    if rc == -999:
        # a compiler that ran out of time says nothing about the code (a loaded machine): once more, with four times the budget
        rc, so, se = sh(cmd, timeout * 4)
    return rc, se


def first_diag(stderr):
    for ln in stderr.splitlines():
        if "error" in ln:
            return ln.strip()[:400]
    return stderr.strip()[:400]


def compile_many(jobs, timeout=900):
    """jobs: list of (src, out, cfg, extra). Builds in parallel from /repo's current working tree.
    returns list of (rc, stderr) in order"""
    with ThreadPoolExecutor(max_workers=NCPU) as ex:
        futs = [ex.submit(compile_one, s, o, c, e, timeout) for (s, o, c, e) in jobs]
        return [f.result() for f in futs]


def classify_death(rc, stderr):
    """map a harness death to a small enum"""
    s = stderr[-6000:]
    if rc == -999:
        return "memory-limit" if stderr.rstrip().endswith("MEMORY") else "timeout"
    if "AddressSanitizer" in s:
        m = re.search(r"AddressSanitizer: ([a-zA-Z\-]+)", s)
        return "asan:" + (m.group(1) if m else "?")
    if "LeakSanitizer" in s:
        return "lsan:leak"
    if "ThreadSanitizer" in s:
        return "tsan:race"
    if "runtime error" in s:
        m = re.search(r"runtime error: ([^\n]{0,80})", s)
        return "ubsan:" + (m.group(1) if m else "?")
    if "Assertion" in s and "failed" in s:
        m = re.search(r"Assertion `([^']{0,80})' failed", s)
        return "assert:" + (m.group(1) if m else "?")
    if "terminate called" in s:
        return "terminate"
    if rc < 0:
        try:
            return "signal:" + signal.Signals(-rc).name
        except Exception:
            return f"signal:{-rc}"
    return f"exit:{rc}"


RSS_LIMIT_MB = 12000          # per harness process (the largest legitimate one, C03's synthetic field under ASan, stays below 2 GB)
TIMEOUT_BUDGET = {"left": 6}     # per check run: a code change that makes the library hang must cost minutes, not hours


def run_lines(exe, lines, timeout_per_line=0.05, min_timeout=75, setup=None, env=None, pre=None):
    """Feed one operation per line to a harness that answers one line per operation (flushing). A death of the
    harness is a *result*: the line it died on gets `CRASH <class>` and the run resumes after it (re-sending the
    `setup` lines first). Returns (outputs, crashes) with len(outputs) == len(lines)."""
    outs = []
    crashes = []
    pos = 0
    setup = setup or []
    cmd = (pre or []) + [str(exe)]
    guard = 0
    while pos < len(lines):
        if TIMEOUT_BUDGET["left"] <= 0:
            # enough hangs have been observed (each is already reported with the line it hung on); the rest is not executed
            while len(outs) < len(lines):
                outs.append("CRASH too-many-crashes (timeout budget of this run exhausted)")
            break
        chunk = lines[pos:]
        inp = "\n".join(setup + chunk) + "\n"
        to = max(min_timeout, timeout_per_line * (len(chunk) + len(setup)))
        rc, so, se = sh(cmd, to, input=inp, env=env, rss_limit_mb=RSS_LIMIT_MB)
        got = so.splitlines()
        got = got[len(setup):] if len(got) >= len(setup) else []
        if rc == 0 and len(got) == len(chunk):
            outs.extend(got)
            break
        # died (or printed too little): lines answered completely are kept, the next one is the culprit
        n = min(len(got), len(chunk) - 1) if rc != 0 else len(got)
        if rc == 0 and len(got) != len(chunk):
            n = min(len(got), len(chunk) - 1)
            cls = "short-output"
        else:
            cls = classify_death(rc, se)
        if cls in ("timeout", "memory-limit"):
            TIMEOUT_BUDGET["left"] -= 1
        outs.extend(got[:n])
        outs.append("CRASH " + cls)
        crashes.append({"line": lines[pos + n][:2000], "class": cls, "stderr": se[-1500:]})
        pos += n + 1
        guard += 1
        if guard > 60 or sum(1 for c in crashes if c["class"] in ("timeout", "memory-limit")) >= 3:
            while len(outs) < len(lines):
                outs.append("CRASH too-many-crashes")
            break
    return outs, crashes


# ----------------------------------------------------------------------------------------------- Lean side
FORBIDDEN = re.compile(r"\b(sorry|admit|native_decide|bv_decide|implemented_by)\b|^\s*axiom\s|unsafe\s|maxHeartbeats\s+0\b")


def strip_lean_comments(text):
    out = []
    i = 0
    depth = 0
    n = len(text)
    while i < n:
        if text.startswith("/-", i):
            depth += 1
            i += 2
        elif depth and text.startswith("-/", i):
            depth -= 1
            i += 2
        elif depth:
            if text[i] == "\n":
                out.append("\n")
            i += 1
        elif text.startswith("--", i):
            while i < n and text[i] != "\n":
                i += 1
        else:
            out.append(text[i])
            i += 1
    return "".join(out)


def grep_forbidden():
    hits = []
    for p in sorted((LEAN / "CovfieModel").rglob("*.lean")) + sorted((LEAN / "Driver").rglob("*.lean")):
        txt = strip_lean_comments(p.read_text())
        for k, ln in enumerate(txt.splitlines(), 1):
            if FORBIDDEN.search(ln):
                hits.append(f"{p.relative_to(LEAN)}:{k}: {ln.strip()[:120]}")
    return hits


def lean_build(targets=None, timeout=3000):
    """`lake build` of the Lean modules and drivers a property needs (default: everything), under a file lock
    (checks may run concurrently). returns (ok, log)"""
    lock = LEAN / ".build.lock"
    with open(lock, "w") as lf:
        fcntl.flock(lf, fcntl.LOCK_EX)
        try:
            rc, so, se = sh(["lake", "build"] + list(targets or []), timeout, cwd=LEAN)
            return rc == 0, (so + se)[-6000:]
        finally:
            fcntl.flock(lf, fcntl.LOCK_UN)


def lean_audit(prop, theorems, modules, work, timeout=900):
    """`#print axioms` for every theorem of the property. returns dict name -> {"ok":bool,"axioms":[...],"why":str}"""
    src = "".join(f"import {m}\n" for m in modules) + "".join(f"#print axioms {t}\n" for t in theorems)
    f = work.path(f"Audit_{prop}.lean")
    f.write_text(src)
    rc, so, se = sh(["lake", "env", "lean", str(f)], timeout, cwd=LEAN)
    text = so + "\n" + se
    res = {}
    for t in theorems:
        m = re.search(r"'" + re.escape(t) + r"' depends on axioms: \[([^\]]*)\]", text, re.S)
        if m:
            ax = [a.strip() for a in m.group(1).replace("\n", " ").split(",") if a.strip()]
            bad = [a for a in ax if a not in ALLOWED_AXIOMS]
            res[t] = {"ok": not bad, "axioms": ax, "why": ("axioms outside the allowed set: " + ",".join(bad)) if bad else ""}
        elif re.search(r"'" + re.escape(t) + r"' does not depend on any axioms", text):
            res[t] = {"ok": True, "axioms": [], "why": ""}
        else:
            why = "theorem missing or does not check"
            for ln in text.splitlines():
                if "error" in ln:
                    why = ln.strip()[:300]
                    break
            res[t] = {"ok": False, "axioms": [], "why": why}
    return res


def leanchecker(module, timeout=1800):
    rc, so, se = sh(["lake", "env", "leanchecker", module], timeout, cwd=LEAN)
    return rc == 0, (so + se)[-1500:]


def driver(name):
    return BIN / name


def run_driver(name, lines, timeout_per_line=0.01, min_timeout=240):
    """the model's answers, one per line; a driver failure is a failed obligation, reported by the caller"""
    inp = "\n".join(lines) + "\n"
    rc, so, se = sh([str(driver(name))], max(min_timeout, timeout_per_line * len(lines)), input=inp)
    outs = so.splitlines()
    if rc != 0 or len(outs) != len(lines):
        raise RuntimeError(f"driver {name} rc={rc} answered {len(outs)}/{len(lines)}: {se[-500:]}")
    return outs


def chash(obj):
    return hashlib.sha1(json.dumps(obj, sort_keys=True, default=str).encode()).hexdigest()[:16]
