"""The verdict logic shared by all properties (DESIGN.md §2.4, §4): proof obligations + correspondence obligations
+ property oracles -> exit status, VIOLATION / KNOWN-FINDING lines, evidence file, replay files."""
import collections, importlib, json, os, re, subprocess, sys, time
from pathlib import Path
from . import common as C


class Corr:
    """what a property's correspondence run reports"""

    def __init__(self):
        self.obl = collections.OrderedDict()      # name -> {"cases": n, "disagreements": k, "note": str}
        self.evaluations = 0
        self.nontrivial = set()                   # hashes of distinct non-trivial cases (rule in the module's META)
        self.samples = []
        self.dist = collections.Counter()         # input distribution actually hit
        self.violations = []                      # dicts: obligation, oracle_fails, what, case, impl, model, key
        self.configs = collections.Counter()      # cases per build configuration
        self.notes = []
        self.info = {}

    def add_obl(self, name, cases=0, disagreements=0, note=""):
        o = self.obl.setdefault(name, {"cases": 0, "disagreements": 0, "note": ""})
        o["cases"] += cases
        o["disagreements"] += disagreements
        if note:
            o["note"] = (o["note"] + "; " + note).strip("; ")

    def case(self, canon, nontrivial, n=1):
        self.evaluations += n
        if nontrivial:
            self.nontrivial.add(C.chash(canon))

    def sample(self, s, cap=12):
        if len(self.samples) < cap:
            self.samples.append(s)

    def violation(self, obligation, what, case, impl=None, model=None, oracle_fails=True, key=None, cfg=None):
        self.violations.append({"obligation": obligation, "oracle_fails": bool(oracle_fails), "what": what,
                                "case": case, "impl": impl, "model": model, "key": key or {}, "config": cfg})


class Ctx:
    def __init__(self, prop, tier, seed, work, replay=None):
        self.prop, self.tier, self.seed, self.work, self.replay = prop, tier, seed, work, replay
        self.quick = tier == "quick"


def load_known():
    p = C.VERIF / "known_findings.json"
    if not p.exists():
        return {"known": [], "fixed": []}
    return json.loads(p.read_text())


def match_known(prop, v, known):
    """a known finding identifies one specific input / call site: every key it lists must equal the violation's"""
    for k in known.get("known", []):
        if k.get("property") != prop:
            continue
        if k.get("obligation") and k["obligation"] != v["obligation"]:
            continue
        m = k.get("match", {})
        if m and all(str(v["key"].get(a)) == str(b) for a, b in m.items()):
            return k
    return None


def write_replay(prop, v, extra):
    d = C.VERIF / "replay"
    d.mkdir(exist_ok=True)
    body = {"property": prop, "obligation": v["obligation"], "what": v["what"], "oracle_fails": v["oracle_fails"],
            "case": v["case"], "impl_result": v["impl"], "model_result": v["model"], "build_config": v.get("config"),
            "key": v["key"], "how_to_run": f"python3 check.py {prop} --replay <this file>"}
    body.update(extra)
    p = d / f"{prop}-{C.chash(body)}.json"
    p.write_text(json.dumps(body, indent=1, default=str))
    return p


def run_check(prop, tier, replay_path=None):
    t0 = time.time()
    seed = C.seed()
    meta = json.loads((C.LEAN / "obligations" / f"{prop}.json").read_text())
    mod = importlib.import_module(f"harness.props.{prop.lower()}")
    META = mod.META
    lines = []
    with C.Work(prop) as work:
        # ---- 1. proof obligations
        # only what this property needs: a broken module elsewhere in the library must not take this property down
        from harness import translib as _T
        drivers = list(META.get("drivers", [])) + (["impcheck"] if prop in _T.PROP_SENT and "impcheck" not in META.get("drivers", []) else [])
        ok_build, log = C.lean_build(list(meta["modules"]) + drivers)
        thms = meta["theorems"]
        if ok_build:
            audit = C.lean_audit(prop, thms, meta["modules"], work)
        else:
            audit = {t: {"ok": False, "axioms": [], "why": "lake build failed: " + log[-300:]} for t in thms}
        forb = C.grep_forbidden()
        lc = None
        if tier == "thorough" and ok_build and not replay_path:
            lc = [C.leanchecker(m) for m in meta["modules"] if ".Props." in m]
        proof_broken = [f"{t}: {a['why']}" for t, a in audit.items() if not a["ok"]]
        proof_broken += [f"forbidden token {h}" for h in forb]
        if lc:
            proof_broken += [f"leanchecker: {l[1][-200:]}" for l in lc if not l[0]]
        # ---- 2. correspondence obligations (and the property oracles evaluated on the implementation's outputs)
        rep = json.loads(Path(replay_path).read_text()) if replay_path else None
        ctx = Ctx(prop, tier, seed, work, rep)
        try:
            if not ok_build and not all(C.driver(d).exists() for d in META.get("drivers", [])):
                raise RuntimeError("model drivers could not be built: " + log[-400:])
            corr = mod.replay(ctx) if rep else mod.run(ctx)
            if not rep:
                _T.sentence_obligations(ctx, prop, corr)
        except C.CompileError as e:
            corr = Corr()
            corr.add_obl("harness_compiles", 1, 1)
            corr.violation("harness_compiles", "a harness translation unit no longer compiles against /repo: " + C.first_diag(e.diag),
                           {"tu": e.src, "config": e.cfg, "diagnostic": e.diag[-3000:]}, oracle_fails=False,
                           key={"kind": "compile", "tu": Path(e.src).name})
    # ---- 3. verdict
    known = load_known()
    real = []
    for v in corr.violations:
        k = match_known(prop, v, known)
        if k:
            lines.append(f"KNOWN-FINDING: property={prop} {k['what']}")
        else:
            real.append(v)
    seen_known = set()
    lines = [l for l in lines if not (l in seen_known or seen_known.add(l))]
    failing = [v for v in real if v["oracle_fails"]]
    differing = [v for v in real if not v["oracle_fails"]]
    uncovered = [n for n in meta.get("correspondence", []) if n not in corr.obl or corr.obl[n]["cases"] == 0]
    if rep:
        uncovered = []
    status = 0
    by_obl = collections.OrderedDict()
    # the representative of an obligation is its first (smallest) failing case that was actually executed
    for v in sorted(failing, key=lambda v: "too-many-crashes" in str(v.get("impl"))):
        by_obl.setdefault(v["obligation"], v)
    for ob, v in list(by_obl.items())[:6]:
        p = write_replay(prop, v, {"seed": seed, "tier": tier})
        lines.append(f"VIOLATION property={prop} replay={p}")
        lines.append(f"  obligation={ob}: {v['what'][:300]}")
        status = 1
    if not failing and (differing or proof_broken or uncovered):
        what = []
        if proof_broken:
            what.append("proof obligations that no longer check: " + "; ".join(proof_broken[:8]))
        if differing:
            obs = sorted({v["obligation"] for v in differing})
            what.append("correspondence obligations that no longer hold: " + ", ".join(obs))
        if uncovered:
            what.append("correspondence obligations not exercised by this run: " + ", ".join(uncovered))
        v = differing[0] if differing else {"obligation": (uncovered or ["proof"])[0], "what": "; ".join(what), "oracle_fails": False,
                                            "case": None, "impl": None, "model": None, "key": {}}
        p = write_replay(prop, v, {"seed": seed, "tier": tier, "no_longer_checks": what,
                                   "theorems_broken": proof_broken, "first_disagreements": differing[:5]})
        lines.append(f"VIOLATION property={prop} replay={p} no-failing-input-found")
        lines.append("  " + " | ".join(what)[:600])
        status = 1
    elif failing and proof_broken:
        lines.append("  (also) proof obligations that no longer check: " + "; ".join(proof_broken[:8]))
    # ---- 3b. escalation (DESIGN.md §11.8): a file this property is anchored in differs from its pin and the quick tier found
    # nothing -> the thorough tier of this property runs once, time-boxed; what it finds is reported as this run's finding
    escalation = None
    if status == 0 and tier == "quick" and not replay_path and not os.environ.get("VERIF_ESCALATED"):
        try:
            from . import pins
            aff = pins.affected(prop)
        except Exception as e:       # the pins are an aid, never a reason to fail
            aff = []
        if aff and not corr.info.get("deepened"):      # (a module that already took its thorough inputs says so)
            budget = int(os.environ.get("VERIF_ESCALATION_BUDGET", "540"))
            t1 = time.time()
            env = dict(os.environ); env["VERIF_ESCALATED"] = "1"
            escalation = {"changed_files": aff, "budget_s": budget}
            try:
                import signal
                pr = subprocess.Popen([sys.executable, str(C.VERIF / "check.py"), prop, "--tier", "thorough"], cwd=str(C.VERIF), env=env,
                                      stdout=subprocess.PIPE, stderr=subprocess.DEVNULL, text=True, errors="replace", start_new_session=True)
                try:
                    so, _ = pr.communicate(timeout=budget)
                except subprocess.TimeoutExpired:
                    try:
                        os.killpg(pr.pid, signal.SIGKILL)      # the whole group: compilers and harness processes of the child too
                    except OSError:
                        pass
                    pr.wait()
                    raise
                out = so.splitlines()
                vl = [i for i, l in enumerate(out) if l.startswith("VIOLATION")]
                escalation.update({"finished": True, "exit": pr.returncode, "wall_s": round(time.time() - t1, 1), "violations": len(vl)})
                for i in vl[:6]:
                    lines.append(out[i])
                    if i + 1 < len(out) and out[i + 1].startswith("  "):
                        lines.append(out[i + 1])
                if vl:
                    status = 1
            except subprocess.TimeoutExpired:
                escalation.update({"finished": False, "wall_s": round(time.time() - t1, 1)})
    # ---- 4. evidence
    n_corr = len(corr.obl)
    held = sum(1 for o in corr.obl.values() if o["cases"] > 0 and o["disagreements"] == 0)
    # an obligation whose only disagreements are listed known findings still counts as not discharged
    n_thm_ok = sum(1 for a in audit.values() if a["ok"])
    axioms = sorted({x for a in audit.values() for x in a["axioms"]})
    ev = {
        "property_id": prop, "tier": tier, "seed": seed, "level": "proof",
        "coverage": {
            "obligations": len(thms) + n_corr,
            "discharged": n_thm_ok + held,
            "checker_cmd": "cd lean && lake build && lake env lean <Audit: #print axioms of every listed theorem>" +
                           ("; lake env leanchecker <Props module>" if tier == "thorough" else "") +
                           f"; python3 check.py {prop} --tier {tier} (correspondence against /repo working tree)",
            "trusted_base": META.get("trusted_base", []) + [
                "Lean 4.33.0 kernel; axioms reported by #print axioms on this run: " + (", ".join(axioms) or "none"),
                "Lean compiler (driver executables run the same definitions the theorems are about)",
                "the correspondence check itself (Python generators, C++ harness, line protocol)",
                "g++ 12.2 / libstdc++ / sanitizer runtimes; x86-64 IEEE-754 arithmetic"],
            "theorems": {t: a["axioms"] if a["ok"] else "BROKEN: " + a["why"] for t, a in audit.items()},
            "correspondence": corr.obl,
            "evaluations": corr.evaluations,
            "distinct_nontrivial": len(corr.nontrivial),
            "rule": META.get("rule", ""),
            "samples": corr.samples or [{"note": "no correspondence samples"}],
            "distribution": dict(corr.dist),
            "per_build_config": dict(corr.configs),
            "uncovered_obligations": uncovered,
            "leanchecker": [l[0] for l in lc] if lc else None,
            "info": dict(corr.info, **({"escalation": escalation} if escalation else {})),
            "notes": corr.notes + (["files this property is anchored in differ from their pins (" + ", ".join(escalation["changed_files"][:6]) +
                                    "): the thorough tier ran as a time-boxed second pass"] if escalation else []),
            "exhaustive": False,
        },
        "assumptions": META.get("assumptions", []),
        "wall_s": round(time.time() - t0, 2),
        "violations": len(failing) + (1 if (status and not failing) else 0),
        "known_findings_reobserved": [l for l in lines if l.startswith("KNOWN-FINDING")],
    }
    if not replay_path and not os.environ.get("VERIF_ESCALATED"):
        # evidence is only ever written from a run against /repo itself; trial runs against a scratch copy
        # (COVFIE_REPO=...) leave the committed record alone
        edir = C.VERIF / ("evidence" if str(C.REPO) == "/repo" else ".work/evidence-scratch")
        edir.mkdir(parents=True, exist_ok=True)
        (edir / f"{prop}.json").write_text(json.dumps(ev, indent=1, default=str))
    for l in lines:
        print(l)
    print(f"{prop} tier={tier} seed={seed}: theorems {n_thm_ok}/{len(thms)} checked, correspondence obligations "
          f"{held}/{n_corr} held, {corr.evaluations} cases ({len(corr.nontrivial)} distinct non-trivial), "
          f"{round(time.time() - t0, 1)} s -> {'FAIL' if status else 'ok'}")
    return status
