"""Text pins (DESIGN.md §11.8): a hash of every header of lib/core as it was when the checks were last validated on the
unchanged tree (comments and white space removed). A pin carries no semantics and is not a proof obligation: when a file a
property is anchored in differs from its pin, the property's quick check is followed by a time-boxed run of its thorough
tier (more inputs for exactly the code that changed); on the unchanged tree nothing happens."""
import hashlib, json, re
from pathlib import Path
from . import common as C

PINS = C.VERIF / "pins.json"


def norm(text):
    text = re.sub(r"/\*.*?\*/", " ", text, flags=re.S)
    text = re.sub(r"//[^\n]*", " ", text)
    return re.sub(r"\s+", "", text)


def current():
    root = C.REPO / "lib" / "core" / "covfie" / "core"
    out = {}
    for f in sorted(root.rglob("*.hpp")):
        try:
            out[str(f.relative_to(root))] = hashlib.sha256(norm(f.read_text(errors="replace")).encode()).hexdigest()[:20]
        except OSError:
            out[str(f.relative_to(root))] = "unreadable"
    return out


def changed():
    """-> sorted list of header paths (relative to lib/core/covfie/core) that differ from their pin, are new, or are gone"""
    if not PINS.exists():
        return []
    ref = json.loads(PINS.read_text())
    cur = current()
    return sorted(f for f in set(ref) | set(cur) if ref.get(f) != cur.get(f))


def anchors(prop):
    for ln in (C.VERIF / "properties.jsonl").read_text().splitlines():
        d = json.loads(ln)
        if d["id"] == prop:
            return {f.replace("lib/core/covfie/core/", "") for f in d["anchors"]["files"]}
    return set()


def all_anchored():
    s = set()
    for ln in (C.VERIF / "properties.jsonl").read_text().splitlines():
        s |= {f.replace("lib/core/covfie/core/", "") for f in json.loads(ln)["anchors"]["files"]}
    return s


def affected(prop):
    """changed files that concern this property: its anchors, and any changed file no property is anchored in
    (shared helpers: vector.hpp, definitions.hpp, … — their effect is unknown, so every property looks again)"""
    ch = changed()
    if not ch:
        return []
    mine, known = anchors(prop), all_anchored()
    return [f for f in ch if f in mine or f not in known]
